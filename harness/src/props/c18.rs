//! C18 Box language: print/parse round trip of every expressible list, formatter
//! idempotence, parser totality.
//!
//! Sub-checks:
//!   * `goldens`           repository Box-language texts (seeds) and texts whose meaning / explicit CST the
//!                         repository's documentation and tests state: parse, print, reparse, format.
//!   * `scale_probes`      long runs and deep nesting (texts up to ~1.5 MB) on an ordinary 8 MiB stack, each
//!                         in a child process (a stack overflow aborts the process and cannot be caught).
//!   * `roundtrip`         mirror trees -> ds lists -> text (three print paths) -> parse -> equal.
//!   * `format_idempotent` styled sources rendered by this file from mirror trees, with the list AND the
//!                         explicit CST (comment attribution) they must yield.
//!   * `parser_total`      arbitrary / mutated text: Ok or located errors, never a panic; every list a text
//!                         parses to is printed and parsed back.
//!
//! Equality is checked twice: with the library's `PartialEq` (what `assert_box_eq!` uses) and
//! strictly on the mirror type, where a glue ratio is compared as an exact rational.

use crate::engine::panics::{self, PanicInfo};
use crate::engine::*;
use boxworks::ds;
use boxworks::lang::convert::{ToBoxLang, ToBoxworks};
use boxworks::lang::{self, ast, cst};
use common::{Glue, GlueOrder, Scaled};
use proptest::prelude::*;
use serde::{Deserialize, Serialize};
use std::fmt::Write as _;

// ------------------------------------------------------------------------------------
// Mirror tree (ds types are not Serialize)

pub const RUNNING: i32 = i32::MIN;
const M30: i32 = (1 << 30) - 1;
const ONE: i64 = 65536;

#[derive(Clone, Debug, PartialEq, Eq, Serialize, Deserialize)]
pub struct GlueSpec {
    pub w: i32,
    pub st: i32,
    pub sto: u8,
    pub sh: i32,
    pub sho: u8,
}

#[derive(Clone, Debug, PartialEq, Eq, Serialize, Deserialize)]
pub struct HBoxSpec {
    pub h: i32,
    pub w: i32,
    pub d: i32,
    pub shift: i32,
    /// glue ratio = num/den (raw `Scaled` payloads, as in `ds::GlueRatio`)
    pub num: i32,
    pub den: i32,
    pub order: u8,
    pub list: Vec<HNode>,
}

#[derive(Clone, Debug, PartialEq, Eq, Serialize, Deserialize)]
pub struct VBoxSpec {
    pub h: i32,
    pub w: i32,
    pub d: i32,
    pub shift: i32,
    pub list: Vec<VNode>,
}

#[derive(Clone, Debug, PartialEq, Eq, Serialize, Deserialize)]
pub struct LigSpec {
    pub c: char,
    pub font: u32,
    pub orig: String,
    pub left: bool,
    pub right: bool,
}

#[derive(Clone, Debug, PartialEq, Eq, Serialize, Deserialize)]
pub struct InsSpec {
    pub box_number: u8,
    pub height: i32,
    pub split_max_depth: i32,
    pub skip: GlueSpec,
    pub float_penalty: u32,
    pub vbox: Vec<VNode>,
}

#[derive(Clone, Debug, PartialEq, Eq, Serialize, Deserialize)]
pub enum HNode {
    Char { c: char, font: u32 },
    Glue(GlueSpec),
    Kern(i32),
    Penalty(i32),
    /// `RUNNING` (= i32::MIN = `ds::Rule::RUNNING`) marks a running dimension.
    Rule { h: i32, w: i32, d: i32 },
    Lig(LigSpec),
    Disc { pre: Vec<DNode>, post: Vec<DNode>, replace: u32 },
    HBox(HBoxSpec),
    VBox(VBoxSpec),
    Ins(InsSpec),
    Mark,
    Adjust(Vec<VNode>),
    Math { after: bool },
}

#[derive(Clone, Debug, PartialEq, Eq, Serialize, Deserialize)]
pub enum VNode {
    HBox(HBoxSpec),
    VBox(VBoxSpec),
    Glue(GlueSpec),
    Kern(i32),
    Penalty(i32),
    Rule { h: i32, w: i32, d: i32 },
    Mark,
    Ins(InsSpec),
    Math { after: bool },
}

#[derive(Clone, Debug, PartialEq, Eq, Serialize, Deserialize)]
pub enum DNode {
    Char { c: char, font: u32 },
    Kern(i32),
    HBox(HBoxSpec),
    VBox(VBoxSpec),
    Rule { h: i32, w: i32, d: i32 },
    Lig(LigSpec),
}

#[derive(Clone, Debug, PartialEq, Eq, Serialize, Deserialize)]
pub enum Top {
    H(Vec<HNode>),
    V(Vec<VNode>),
}

#[derive(Clone, Debug, PartialEq, Eq, Serialize, Deserialize)]
pub struct TreeCase {
    /// "core": every value inside the language's documented ranges; "wide": every ds-legal value.
    pub profile: String,
    pub top: Top,
}

fn order_of(o: u8) -> GlueOrder {
    match o % 4 {
        0 => GlueOrder::Normal,
        1 => GlueOrder::Fil,
        2 => GlueOrder::Fill,
        _ => GlueOrder::Filll,
    }
}
fn order_to(o: GlueOrder) -> u8 {
    match o {
        GlueOrder::Normal => 0,
        GlueOrder::Fil => 1,
        GlueOrder::Fill => 2,
        GlueOrder::Filll => 3,
    }
}

fn glue_ds(g: &GlueSpec) -> Glue {
    Glue { width: Scaled(g.w), stretch: Scaled(g.st), stretch_order: order_of(g.sto), shrink: Scaled(g.sh), shrink_order: order_of(g.sho) }
}
fn glue_from(g: &Glue) -> GlueSpec {
    GlueSpec { w: g.width.0, st: g.stretch.0, sto: order_to(g.stretch_order), sh: g.shrink.0, sho: order_to(g.shrink_order) }
}

fn hbox_ds(b: &HBoxSpec) -> ds::HBox {
    ds::HBox {
        height: Scaled(b.h),
        width: Scaled(b.w),
        depth: Scaled(b.d),
        shift_amount: Scaled(b.shift),
        list: h_to_ds(&b.list),
        glue_ratio: ds::GlueRatio { num: Scaled(b.num), den: Scaled(b.den) },
        glue_order: order_of(b.order),
    }
}
fn vbox_ds(b: &VBoxSpec) -> ds::VBox {
    ds::VBox { height: Scaled(b.h), width: Scaled(b.w), depth: Scaled(b.d), shift_amount: Scaled(b.shift), list: v_to_ds(&b.list), ..Default::default() }
}
fn lig_ds(l: &LigSpec) -> ds::Ligature {
    ds::Ligature { char: l.c, font: l.font, original_chars: l.orig.as_str().into(), includes_left_boundary: l.left, includes_right_boundary: l.right }
}
fn ins_ds(i: &InsSpec) -> ds::Insertion {
    ds::Insertion { box_number: i.box_number, height: Scaled(i.height), split_max_depth: Scaled(i.split_max_depth), split_top_skip: glue_ds(&i.skip), float_penalty: i.float_penalty, vbox: v_to_ds(&i.vbox) }
}
fn rule_ds(h: i32, w: i32, d: i32) -> ds::Rule {
    ds::Rule { height: Scaled(h), width: Scaled(w), depth: Scaled(d) }
}
fn nkern(w: i32) -> ds::Kern {
    ds::Kern { width: Scaled(w), kind: ds::KernKind::Normal }
}
fn nglue(g: &GlueSpec) -> ds::Glue {
    ds::Glue { value: glue_ds(g), kind: ds::GlueKind::Normal }
}
fn math_ds(after: bool) -> ds::Math {
    if after {
        ds::Math::After
    } else {
        ds::Math::Before
    }
}

pub fn h_to_ds(l: &[HNode]) -> Vec<ds::Horizontal> {
    l.iter()
        .map(|n| match n {
            HNode::Char { c, font } => ds::Char { char: *c, font: *font }.into(),
            HNode::Glue(g) => nglue(g).into(),
            HNode::Kern(w) => nkern(*w).into(),
            HNode::Penalty(p) => ds::Penalty(*p).into(),
            HNode::Rule { h, w, d } => rule_ds(*h, *w, *d).into(),
            HNode::Lig(l) => lig_ds(l).into(),
            HNode::Disc { pre, post, replace } => ds::Discretionary { pre_break: d_to_ds(pre), post_break: d_to_ds(post), replace_count: *replace }.into(),
            HNode::HBox(b) => hbox_ds(b).into(),
            HNode::VBox(b) => vbox_ds(b).into(),
            HNode::Ins(i) => ins_ds(i).into(),
            HNode::Mark => ds::Mark { list: vec![] }.into(),
            HNode::Adjust(v) => ds::Adjust { list: v_to_ds(v) }.into(),
            HNode::Math { after } => math_ds(*after).into(),
        })
        .collect()
}

pub fn v_to_ds(l: &[VNode]) -> Vec<ds::Vertical> {
    l.iter()
        .map(|n| match n {
            VNode::HBox(b) => hbox_ds(b).into(),
            VNode::VBox(b) => vbox_ds(b).into(),
            VNode::Glue(g) => nglue(g).into(),
            VNode::Kern(w) => nkern(*w).into(),
            VNode::Penalty(p) => ds::Penalty(*p).into(),
            VNode::Rule { h, w, d } => rule_ds(*h, *w, *d).into(),
            VNode::Mark => ds::Mark { list: vec![] }.into(),
            VNode::Ins(i) => ins_ds(i).into(),
            VNode::Math { after } => math_ds(*after).into(),
        })
        .collect()
}

pub fn d_to_ds(l: &[DNode]) -> Vec<ds::DiscretionaryElem> {
    l.iter()
        .map(|n| match n {
            DNode::Char { c, font } => ds::DiscretionaryElem::Char(ds::Char { char: *c, font: *font }),
            DNode::Kern(w) => ds::DiscretionaryElem::Kern(nkern(*w)),
            DNode::HBox(b) => ds::DiscretionaryElem::HBox(hbox_ds(b)),
            DNode::VBox(b) => ds::DiscretionaryElem::VBox(vbox_ds(b)),
            DNode::Rule { h, w, d } => ds::DiscretionaryElem::Rule(rule_ds(*h, *w, *d)),
            DNode::Lig(l) => ds::DiscretionaryElem::Ligature(lig_ds(l)),
        })
        .collect()
}

// ds -> mirror. Fails on anything the parser can never produce (whatsits, non-normal kinds, ...).

fn hbox_from(b: &ds::HBox) -> Result<HBoxSpec, String> {
    Ok(HBoxSpec { h: b.height.0, w: b.width.0, d: b.depth.0, shift: b.shift_amount.0, num: b.glue_ratio.num.0, den: b.glue_ratio.den.0, order: order_to(b.glue_order), list: h_from_ds(&b.list)? })
}
fn vbox_from(b: &ds::VBox) -> Result<VBoxSpec, String> {
    if b.glue_ratio.num.0 != 0 || b.glue_ratio.den.0 != 1 || b.glue_order != GlueOrder::Normal {
        return Err(format!("vbox with a glue setting {:?}/{:?}", b.glue_ratio, b.glue_order));
    }
    Ok(VBoxSpec { h: b.height.0, w: b.width.0, d: b.depth.0, shift: b.shift_amount.0, list: v_from_ds(&b.list)? })
}
fn lig_from(l: &ds::Ligature) -> LigSpec {
    LigSpec { c: l.char, font: l.font, orig: l.original_chars.to_string(), left: l.includes_left_boundary, right: l.includes_right_boundary }
}
fn ins_from(i: &ds::Insertion) -> Result<InsSpec, String> {
    Ok(InsSpec { box_number: i.box_number, height: i.height.0, split_max_depth: i.split_max_depth.0, skip: glue_from(&i.split_top_skip), float_penalty: i.float_penalty, vbox: v_from_ds(&i.vbox)? })
}
fn kern_from(k: &ds::Kern) -> Result<i32, String> {
    if k.kind != ds::KernKind::Normal {
        return Err(format!("kern kind {:?}", k.kind));
    }
    Ok(k.width.0)
}
fn nglue_from(g: &ds::Glue) -> Result<GlueSpec, String> {
    if g.kind != ds::GlueKind::Normal {
        return Err(format!("glue kind {:?}", g.kind));
    }
    Ok(glue_from(&g.value))
}
fn mark_from(m: &ds::Mark) -> Result<(), String> {
    if m.list.is_empty() {
        Ok(())
    } else {
        Err("non-empty mark".into())
    }
}

pub fn h_from_ds(l: &[ds::Horizontal]) -> Result<Vec<HNode>, String> {
    use ds::Horizontal as H;
    l.iter()
        .map(|n| {
            Ok(match n {
                H::Char(c) => HNode::Char { c: c.char, font: c.font },
                H::HBox(b) => HNode::HBox(hbox_from(b)?),
                H::VBox(b) => HNode::VBox(vbox_from(b)?),
                H::Rule(r) => HNode::Rule { h: r.height.0, w: r.width.0, d: r.depth.0 },
                H::Mark(m) => {
                    mark_from(m)?;
                    HNode::Mark
                }
                H::Insertion(i) => HNode::Ins(ins_from(i)?),
                H::Adjust(a) => HNode::Adjust(v_from_ds(&a.list)?),
                H::Ligature(l) => HNode::Lig(lig_from(l)),
                H::Discretionary(d) => HNode::Disc { pre: d_from_ds(&d.pre_break)?, post: d_from_ds(&d.post_break)?, replace: d.replace_count },
                H::Whatsit(_) => return Err("whatsit".into()),
                H::Math(m) => HNode::Math { after: *m == ds::Math::After },
                H::Glue(g) => HNode::Glue(nglue_from(g)?),
                H::Kern(k) => HNode::Kern(kern_from(k)?),
                H::Penalty(p) => HNode::Penalty(p.0),
            })
        })
        .collect()
}

pub fn v_from_ds(l: &[ds::Vertical]) -> Result<Vec<VNode>, String> {
    use ds::Vertical as V;
    l.iter()
        .map(|n| {
            Ok(match n {
                V::HBox(b) => VNode::HBox(hbox_from(b)?),
                V::VBox(b) => VNode::VBox(vbox_from(b)?),
                V::Rule(r) => VNode::Rule { h: r.height.0, w: r.width.0, d: r.depth.0 },
                V::Mark(m) => {
                    mark_from(m)?;
                    VNode::Mark
                }
                V::Insertion(i) => VNode::Ins(ins_from(i)?),
                V::Whatsit(_) => return Err("whatsit".into()),
                V::Math(m) => VNode::Math { after: *m == ds::Math::After },
                V::Glue(g) => VNode::Glue(nglue_from(g)?),
                V::Kern(k) => VNode::Kern(kern_from(k)?),
                V::Penalty(p) => VNode::Penalty(p.0),
            })
        })
        .collect()
}

pub fn d_from_ds(l: &[ds::DiscretionaryElem]) -> Result<Vec<DNode>, String> {
    use ds::DiscretionaryElem as D;
    l.iter()
        .map(|n| {
            Ok(match n {
                D::Char(c) => DNode::Char { c: c.char, font: c.font },
                D::HBox(b) => DNode::HBox(hbox_from(b)?),
                D::VBox(b) => DNode::VBox(vbox_from(b)?),
                D::Rule(r) => DNode::Rule { h: r.height.0, w: r.width.0, d: r.depth.0 },
                D::Ligature(l) => DNode::Lig(lig_from(l)),
                D::Kern(k) => DNode::Kern(kern_from(k)?),
            })
        })
        .collect()
}

// ------------------------------------------------------------------------------------
// Statistics over a tree (classes, non-triviality, domain predicates)

#[derive(Default, Debug, Clone)]
pub struct Stats {
    pub nodes: usize,
    pub depth: usize,
    pub escape_char: bool,
    pub astral: bool,
    pub combining: bool,
    pub backslash: bool,
    pub limit_value: bool,
    pub running: bool,
    pub same_font_run: bool,
    pub orders: [bool; 4],
    pub kinds: u32,
    /// finite-order dimension with |v| > 2^30-1, or an infinite-order component equal to -2^31
    pub dim_out_of_lang_range: bool,
    /// how many such values the tree holds
    pub n_dim_out: usize,
    /// an integer field equal to -2^31 (the lexer accepts `-2147483648`)
    pub int_min: bool,
    /// a font number, replace_count or float_penalty >= 2^31 (written as a negative integer)
    pub uint_ge_2p31: bool,
    pub ratio_exact: usize,
    pub ratio_inexact: usize,
    pub ratio_negative: usize,
    pub ratio_ge_2p24: usize,
    pub ratio_ge_16384: usize,
    pub ratio_den_zero: bool,
    pub ratio_nonzero: usize,
}

const K_CHAR: u32 = 1;
const K_GLUE: u32 = 2;
const K_KERN: u32 = 4;
const K_PEN: u32 = 8;
const K_RULE: u32 = 16;
const K_LIG: u32 = 32;
const K_DISC: u32 = 64;
const K_HBOX: u32 = 128;
const K_VBOX: u32 = 256;
const K_INS: u32 = 512;
const K_MARK: u32 = 1024;
const K_ADJ: u32 = 2048;
const K_MATH: u32 = 4096;

pub fn needs_escape(c: char) -> bool {
    let mut it = c.escape_debug();
    !(it.next() == Some(c) && it.next().is_none())
}

impl Stats {
    fn ch(&mut self, c: char, font: u32) {
        self.kinds |= K_CHAR;
        self.escape_char |= needs_escape(c);
        self.backslash |= c == '\\';
        self.astral |= (c as u32) > 0xFFFF;
        self.combining |= (0x300..0x370).contains(&(c as u32)) || (0x1AB0..0x1B00).contains(&(c as u32)) || (0x20D0..0x2100).contains(&(c as u32));
        self.font(font);
    }
    fn font(&mut self, f: u32) {
        self.limit_value |= f == i32::MAX as u32 || f == u32::MAX || f == 1u32 << 31;
        self.uint_ge_2p31 |= f > i32::MAX as u32;
    }
    fn dim(&mut self, v: i32) {
        self.limit_value |= v == M30 || v == -M30 || v == i32::MAX || v == -i32::MAX || v == i32::MIN;
        self.dim_out_of_lang_range |= v > M30 || v < -M30;
        if v > M30 || v < -M30 {
            self.n_dim_out += 1;
        }
    }
    fn comp(&mut self, v: i32, order: u8) {
        self.orders[(order % 4) as usize] = true;
        if order % 4 == 0 {
            self.dim(v);
        } else {
            self.limit_value |= v == i32::MAX || v == -i32::MAX || v == i32::MIN || v == M30 || v == -M30;
            self.dim_out_of_lang_range |= v == i32::MIN;
            if v == i32::MIN {
                self.n_dim_out += 1;
            }
        }
    }
    fn int(&mut self, v: i32) {
        self.limit_value |= v == i32::MAX || v == -i32::MAX || v == i32::MIN;
        self.int_min |= v == i32::MIN;
    }
    fn uint(&mut self, v: u32) {
        self.limit_value |= v == i32::MAX as u32 || v == u32::MAX || v == 1u32 << 31;
        // u32 values >= 2^31 are written as negative integers; 2^31 itself as -2147483648.
        self.int_min |= v == 1u32 << 31;
        self.uint_ge_2p31 |= v > i32::MAX as u32;
    }
    fn glue(&mut self, g: &GlueSpec) {
        self.dim(g.w);
        self.comp(g.st, g.sto);
        self.comp(g.sh, g.sho);
    }
    fn rule(&mut self, h: i32, w: i32, d: i32) {
        self.kinds |= K_RULE;
        for v in [h, w, d] {
            if v == RUNNING {
                self.running = true;
                self.limit_value = true;
            } else {
                self.dim(v);
            }
        }
    }
    fn lig(&mut self, l: &LigSpec) {
        self.kinds |= K_LIG;
        self.font(l.font);
        for c in std::iter::once(l.c).chain(l.orig.chars()) {
            self.escape_char |= needs_escape(c);
            self.backslash |= c == '\\';
            self.astral |= (c as u32) > 0xFFFF;
        }
    }
    fn hbox(&mut self, b: &HBoxSpec, depth: usize) {
        self.kinds |= K_HBOX;
        for v in [b.h, b.w, b.d, b.shift] {
            self.dim(v);
        }
        self.orders[(b.order % 4) as usize] = true;
        if b.num != 0 {
            self.ratio_nonzero += 1;
        }
        if b.den == 0 {
            self.ratio_den_zero = true;
        } else {
            match exact_k(b.num, b.den) {
                Some(k) => {
                    self.ratio_exact += 1;
                    if k < 0 {
                        self.ratio_negative += 1;
                    }
                    if k.abs() >= 1 << 24 {
                        self.ratio_ge_2p24 += 1;
                    }
                }
                None => {
                    self.ratio_inexact += 1;
                    if (b.num < 0) != (b.den < 0) && b.num != 0 {
                        self.ratio_negative += 1;
                    }
                }
            }
            // what a single-precision printer writes reaches 16384 (includes k = 2^30-1, which rounds up)
            if f32_model(b.num, b.den) > M30 as i64 {
                self.ratio_ge_16384 += 1;
            }
        }
        self.hlist(&b.list, depth + 1);
    }
    fn vbox(&mut self, b: &VBoxSpec, depth: usize) {
        self.kinds |= K_VBOX;
        for v in [b.h, b.w, b.d, b.shift] {
            self.dim(v);
        }
        self.vlist(&b.list, depth + 1);
    }
    fn ins(&mut self, i: &InsSpec, depth: usize) {
        self.kinds |= K_INS;
        self.dim(i.height);
        self.dim(i.split_max_depth);
        self.glue(&i.skip);
        self.uint(i.float_penalty);
        self.vlist(&i.vbox, depth + 1);
    }
    pub fn hlist(&mut self, l: &[HNode], depth: usize) {
        self.depth = self.depth.max(depth);
        let mut prev_font: Option<u32> = None;
        for n in l {
            self.nodes += 1;
            let mut this_font = None;
            match n {
                HNode::Char { c, font } => {
                    self.ch(*c, *font);
                    if prev_font == Some(*font) {
                        self.same_font_run = true;
                    }
                    this_font = Some(*font);
                }
                HNode::Glue(g) => {
                    self.kinds |= K_GLUE;
                    self.glue(g)
                }
                HNode::Kern(w) => {
                    self.kinds |= K_KERN;
                    self.dim(*w)
                }
                HNode::Penalty(p) => {
                    self.kinds |= K_PEN;
                    self.int(*p)
                }
                HNode::Rule { h, w, d } => self.rule(*h, *w, *d),
                HNode::Lig(l) => self.lig(l),
                HNode::Disc { pre, post, replace } => {
                    self.kinds |= K_DISC;
                    self.uint(*replace);
                    self.dlist(pre, depth + 1);
                    self.dlist(post, depth + 1);
                }
                HNode::HBox(b) => self.hbox(b, depth),
                HNode::VBox(b) => self.vbox(b, depth),
                HNode::Ins(i) => self.ins(i, depth),
                HNode::Mark => self.kinds |= K_MARK,
                HNode::Adjust(v) => {
                    self.kinds |= K_ADJ;
                    self.vlist(v, depth + 1)
                }
                HNode::Math { .. } => self.kinds |= K_MATH,
            }
            prev_font = this_font;
        }
    }
    pub fn vlist(&mut self, l: &[VNode], depth: usize) {
        self.depth = self.depth.max(depth);
        for n in l {
            self.nodes += 1;
            match n {
                VNode::HBox(b) => self.hbox(b, depth),
                VNode::VBox(b) => self.vbox(b, depth),
                VNode::Glue(g) => {
                    self.kinds |= K_GLUE;
                    self.glue(g)
                }
                VNode::Kern(w) => {
                    self.kinds |= K_KERN;
                    self.dim(*w)
                }
                VNode::Penalty(p) => {
                    self.kinds |= K_PEN;
                    self.int(*p)
                }
                VNode::Rule { h, w, d } => self.rule(*h, *w, *d),
                VNode::Mark => self.kinds |= K_MARK,
                VNode::Ins(i) => self.ins(i, depth),
                VNode::Math { .. } => self.kinds |= K_MATH,
            }
        }
    }
    pub fn dlist(&mut self, l: &[DNode], depth: usize) {
        self.depth = self.depth.max(depth);
        for n in l {
            self.nodes += 1;
            match n {
                DNode::Char { c, font } => self.ch(*c, *font),
                DNode::Kern(w) => {
                    self.kinds |= K_KERN;
                    self.dim(*w)
                }
                DNode::HBox(b) => self.hbox(b, depth),
                DNode::VBox(b) => self.vbox(b, depth),
                DNode::Rule { h, w, d } => self.rule(*h, *w, *d),
                DNode::Lig(l) => self.lig(l),
            }
        }
    }
    pub fn of(top: &Top) -> Stats {
        let mut s = Stats::default();
        match top {
            Top::H(l) => s.hlist(l, 0),
            Top::V(l) => s.vlist(l, 0),
        }
        s
    }
    pub fn nontrivial(&self) -> bool {
        self.depth >= 2 || self.escape_char || self.limit_value
    }
}

// ------------------------------------------------------------------------------------
// Glue ratio model
//
// The language writes a glue ratio as a decimal string that is parsed like a dimension in
// points: the values it can express are exactly k/65536 with |k| <= 2^30-1.

/// `Some(k)` iff num/den == k/65536 exactly with |k| <= 2^30-1.
pub fn exact_k(num: i32, den: i32) -> Option<i64> {
    if den == 0 {
        return None;
    }
    let n = num as i64 * ONE;
    let d = den as i64;
    if n % d != 0 {
        return None;
    }
    let k = n / d;
    if k.abs() > M30 as i64 {
        None
    } else {
        Some(k)
    }
}

/// TeX.2021.186-style rendering of a ratio through single precision (what any printer that
/// follows `print_glue` produces): magnitude only, capped at 20000, in units of 2^-16.
pub fn f32_model(num: i32, den: i32) -> i64 {
    let g = (num as f32) / (den as f32);
    let g = g.abs();
    let g = if g >= 20000.0 { 20000.0 } else { g };
    ((65536.0f32) * g).round() as i32 as i64
}

#[derive(Clone, Copy, Default, Debug, PartialEq, Eq)]
pub struct Deviations {
    /// the printer drops the sign of the glue ratio (ds::GlueRatio's Display prints |r|)
    pub glue_ratio_sign_lost: bool,
    /// the printer goes through f32, so expressible ratios with k >= 2^24 lose low bits
    pub glue_ratio_f32_precision: bool,
}

/// What the glue ratio num/den must read back as (in units of 2^-16) after print+parse.
/// * expressible exactly (k/65536): exactly k — the language can express it, so it must survive;
/// * otherwise the nearest value a single-precision printer yields, with the sign kept.
/// `None`: the magnitude is >= 16384 and no source text can carry it.
pub fn expected_k(num: i32, den: i32, dev: Deviations) -> Option<i64> {
    let neg = (num < 0) != (den < 0) && num != 0;
    let mag = match exact_k(num, den) {
        Some(k) if !dev.glue_ratio_f32_precision => k.abs(),
        _ => f32_model(num, den),
    };
    if mag > M30 as i64 {
        return None;
    }
    Some(if neg && !dev.glue_ratio_sign_lost { -mag } else { mag })
}

/// Rewrites every hbox glue ratio to its expected canonical form (k, 65536). Returns false if
/// some ratio has no expected value (magnitude >= 16384).
fn canon_hbox(b: &mut HBoxSpec, dev: Deviations) -> bool {
    let ok = match expected_k(b.num, b.den, dev) {
        Some(k) => {
            b.num = k as i32;
            b.den = ONE as i32;
            true
        }
        None => false,
    };
    ok & canon_h(&mut b.list, dev)
}
fn canon_ins(i: &mut InsSpec, dev: Deviations) -> bool {
    canon_v(&mut i.vbox, dev)
}
pub fn canon_h(l: &mut [HNode], dev: Deviations) -> bool {
    let mut ok = true;
    for n in l {
        ok &= match n {
            HNode::HBox(b) => canon_hbox(b, dev),
            HNode::VBox(b) => canon_v(&mut b.list, dev),
            HNode::Ins(i) => canon_ins(i, dev),
            HNode::Adjust(v) => canon_v(v, dev),
            HNode::Disc { pre, post, .. } => canon_d(pre, dev) & canon_d(post, dev),
            _ => true,
        };
    }
    ok
}
pub fn canon_v(l: &mut [VNode], dev: Deviations) -> bool {
    let mut ok = true;
    for n in l {
        ok &= match n {
            VNode::HBox(b) => canon_hbox(b, dev),
            VNode::VBox(b) => canon_v(&mut b.list, dev),
            VNode::Ins(i) => canon_ins(i, dev),
            _ => true,
        };
    }
    ok
}
pub fn canon_d(l: &mut [DNode], dev: Deviations) -> bool {
    let mut ok = true;
    for n in l {
        ok &= match n {
            DNode::HBox(b) => canon_hbox(b, dev),
            DNode::VBox(b) => canon_v(&mut b.list, dev),
            _ => true,
        };
    }
    ok
}
pub fn canon_top(t: &Top, dev: Deviations) -> Option<Top> {
    let mut t = t.clone();
    let ok = match &mut t {
        Top::H(l) => canon_h(l, dev),
        Top::V(l) => canon_v(l, dev),
    };
    if ok {
        Some(t)
    } else {
        None
    }
}

// ------------------------------------------------------------------------------------
// Print / parse helpers (all code under test runs inside `guard`)

/// Panic signature without volatile numbers: digit runs become `#`, and slice-boundary
/// messages are cut after the invariant part (they quote the offending source text).
pub fn norm_sig(p: &PanicInfo) -> String {
    let f = match p.file.find("crates/") {
        Some(i) => &p.file[i..],
        None => &p.file,
    };
    let mut m = String::new();
    let mut in_digits = false;
    for c in p.message.chars() {
        if c.is_ascii_digit() {
            if !in_digits {
                m.push('#');
            }
            in_digits = true;
        } else {
            in_digits = false;
            m.push(if c == '\n' { ' ' } else { c });
        }
    }
    // `start byte index` / `end byte index` / `byte index`: one family of slicing failures
    let m = m.replace("start byte index", "byte index").replace("end byte index", "byte index");
    let mut m = m;
    if let Some(i) = m.find("is not a char boundary") {
        m.truncate(i + "is not a char boundary".len());
    }
    if let Some(i) = m.find("when slicing") {
        m.truncate(i + "when slicing".len());
    }
    let m: String = m.chars().take(70).collect();
    format!("panic:{}:{}", f, m.trim_end())
}

/// Runs code under test. A panic is a violation unless its (normalised) signature is a listed
/// known finding of C18 (none is listed today; the path exists so that a finding can be listed).
fn guard<R>(ctx: &Ctx, what: &str, shown: &str, f: impl FnOnce() -> R) -> Result<R, Verdict> {
    guard_lazy(ctx, what, || shown.to_string(), f)
}

/// `guard` with the rendering of the input computed only when it is needed.
fn guard_lazy<R>(ctx: &Ctx, what: &str, shown: impl FnOnce() -> String, f: impl FnOnce() -> R) -> Result<R, Verdict> {
    match panics::catch(f) {
        Ok(r) => Ok(r),
        Err(p) => {
            let sig = norm_sig(&p);
            if ctx.known(&sig) {
                Err(Verdict::Known(sig))
            } else {
                Err(Verdict::Fail(format!("panic in {what} at {}: {}\n  signature: {sig}\n  input: {}", p.site(), p.message, clip(&shown(), 1500))))
            }
        }
    }
}

fn clip(s: &str, n: usize) -> String {
    if s.len() <= n {
        return s.to_string();
    }
    let mut k = n;
    while !s.is_char_boundary(k) {
        k -= 1;
    }
    format!("{}…[{} bytes]", &s[..k], s.len())
}

pub fn print_h(list: &[ds::Horizontal]) -> String {
    let a = list.to_vec().to_box_lang();
    let mut s = String::new();
    cst::pretty_print(&mut s, ast::lower_hbox(&a)).expect("write to string");
    s
}
pub fn print_h_display(list: &[ds::Horizontal]) -> String {
    let mut s = String::new();
    for e in list {
        write!(s, "{}", e).expect("write to string");
    }
    s
}
pub fn print_v(list: &[ds::Vertical]) -> String {
    let a = list.to_vec().to_box_lang();
    let mut s = String::new();
    cst::pretty_print(&mut s, ast::lower_vbox(&a)).expect("write to string");
    s
}
pub fn print_v_display(list: &[ds::Vertical]) -> String {
    let mut s = String::new();
    for e in list {
        write!(s, "{}", e.to_box_lang()).expect("write to string");
    }
    s
}

/// Outcome of a parse, detached from the source's lifetime.
pub enum Parsed<L> {
    Ok(L),
    /// number of errors, rendering of the first few, and how often each message occurs
    Errs(usize, String, Vec<(String, usize)>),
    /// `Err` with an empty list, or an error whose span is not inside the source
    Bad(String),
}

fn check_errors(src: &str, errs: &[lang::Error<'_>]) -> Result<(usize, String, Vec<(String, usize)>), String> {
    if errs.is_empty() {
        return Err("Err(..) with an empty error list".into());
    }
    let mut shown = String::new();
    let mut kinds: std::collections::BTreeMap<String, usize> = Default::default();
    for (i, e) in errs.iter().enumerate() {
        let msg = e.message();
        match kinds.get_mut(&msg) {
            Some(n) => *n += 1,
            None => {
                kinds.insert(msg.clone(), 1);
            }
        }
        let _ = e.notes();
        if msg.is_empty() {
            return Err(format!("error #{i} has an empty message: {e:?}"));
        }
        let labels = e.labels();
        if labels.is_empty() {
            return Err(format!("error #{i} ({msg}) has no location label"));
        }
        for l in labels {
            let sp = l.span.clone();
            if !(sp.start <= sp.end && sp.end <= src.len()) {
                return Err(format!("error #{i} ({msg}): span {}..{} is not inside the source of {} bytes", sp.start, sp.end, src.len()));
            }
            if !src.is_char_boundary(sp.start) || !src.is_char_boundary(sp.end) {
                return Err(format!("error #{i} ({msg}): span {}..{} splits a UTF-8 character", sp.start, sp.end));
            }
        }
        if i < 3 {
            let _ = write!(shown, "[{}] ", msg);
        }
    }
    Ok((errs.len(), shown, kinds.into_iter().collect()))
}

pub fn parse_h(src: &str) -> Parsed<Vec<ds::Horizontal>> {
    match lang::parse_horizontal_list(src) {
        Ok(l) => Parsed::Ok(l),
        Err(errs) => match check_errors(src, &errs) {
            Ok((n, s, k)) => Parsed::Errs(n, s, k),
            Err(m) => Parsed::Bad(m),
        },
    }
}

/// The vertical analogue of `parse_horizontal_list`, assembled from the public pieces.
pub fn parse_v(src: &str) -> Parsed<Vec<ds::Vertical>> {
    let errs: lang::ErrorAccumulator = Default::default();
    let v = ast::parse_vbox_using_cst(cst::parse(src, errs.clone()), &errs);
    match errs.check() {
        Ok(()) => Parsed::Ok(v.to_boxworks()),
        Err(errs) => match check_errors(src, &errs) {
            Ok((n, s, k)) => Parsed::Errs(n, s, k),
            Err(m) => Parsed::Bad(m),
        },
    }
}

pub fn format_src(src: &str) -> Parsed<String> {
    match lang::format(src) {
        Ok(s) => Parsed::Ok(s),
        Err(errs) => match check_errors(src, &errs) {
            Ok((n, s, k)) => Parsed::Errs(n, s, k),
            Err(m) => Parsed::Bad(m),
        },
    }
}

/// Why a text did not parse.
pub struct ParseFail {
    pub text: String,
    /// message -> number of errors with that message (empty for non-error failures)
    pub kinds: Vec<(String, usize)>,
}
impl ParseFail {
    fn other(text: String) -> ParseFail {
        ParseFail { text, kinds: vec![] }
    }
}

/// Parse `src` as the kind of list `top` is and return it as a mirror tree with canonical ratios.
fn parse_as(ctx: &Ctx, top_is_h: bool, src: &str) -> Result<Result<Top, ParseFail>, Verdict> {
    let fail = |n: usize, s: String, kinds: Vec<(String, usize)>| ParseFail { text: format!("{n} parse errors: {s}"), kinds };
    if top_is_h {
        let p = guard(ctx, "parse_horizontal_list", src, || match parse_h(src) {
            Parsed::Ok(l) => Ok(h_from_ds(&l)),
            Parsed::Errs(n, s, k) => Err(fail(n, s, k)),
            Parsed::Bad(m) => Err(ParseFail::other(m)),
        })?;
        Ok(match p {
            Ok(Ok(m)) => Ok(canon_top(&Top::H(m), Deviations::default()).expect("parsed ratios are in range")),
            Ok(Err(e)) => Err(ParseFail::other(format!("parser produced an inexpressible node: {e}"))),
            Err(e) => Err(e),
        })
    } else {
        let p = guard(ctx, "parse_vbox_using_cst", src, || match parse_v(src) {
            Parsed::Ok(l) => Ok(v_from_ds(&l)),
            Parsed::Errs(n, s, k) => Err(fail(n, s, k)),
            Parsed::Bad(m) => Err(ParseFail::other(m)),
        })?;
        Ok(match p {
            Ok(Ok(m)) => Ok(canon_top(&Top::V(m), Deviations::default()).expect("parsed ratios are in range")),
            Ok(Err(e)) => Err(ParseFail::other(format!("parser produced an inexpressible node: {e}"))),
            Err(e) => Err(e),
        })
    }
}

fn first_diff(a: &str, b: &str) -> String {
    let mut n = 0;
    for (x, y) in a.chars().zip(b.chars()) {
        if x != y {
            break;
        }
        n += x.len_utf8();
    }
    let lo = {
        let mut k = n.saturating_sub(60);
        while !a.is_char_boundary(k) {
            k -= 1;
        }
        k
    };
    format!("byte {n}: …{}⟨HERE⟩ want {:?} got {:?}", &a[lo..n], clip(&a[n..], 80), clip(&b[n.min(b.len())..], 80))
}

// ------------------------------------------------------------------------------------
// (i) roundtrip

fn classes_of(st: &Stats, case: &mut Case) {
    case.class_if(st.depth >= 2, "depth>=2");
    case.class_if(st.depth >= 3, "depth>=3");
    case.class_if(st.depth >= 4, "depth=4");
    case.class_if(st.escape_char, "char_needs_escape");
    case.class_if(st.backslash, "char_backslash");
    case.class_if(st.astral, "char_astral");
    case.class_if(st.combining, "char_combining");
    case.class_if(st.limit_value, "value_at_limit");
    case.class_if(st.running, "rule_running");
    case.class_if(st.same_font_run, "same_font_run");
    case.class_if(st.orders[1], "order_fil");
    case.class_if(st.orders[2], "order_fill");
    case.class_if(st.orders[3], "order_filll");
    for (k, name) in [
        (K_CHAR, "kind_char"),
        (K_GLUE, "kind_glue"),
        (K_KERN, "kind_kern"),
        (K_PEN, "kind_penalty"),
        (K_RULE, "kind_rule"),
        (K_LIG, "kind_lig"),
        (K_DISC, "kind_disc"),
        (K_HBOX, "kind_hbox"),
        (K_VBOX, "kind_vbox"),
        (K_INS, "kind_insertion"),
        (K_MARK, "kind_mark"),
        (K_ADJ, "kind_adjust"),
        (K_MATH, "kind_math"),
    ] {
        case.class_if(st.kinds & k != 0, name);
    }
    case.class_if(st.ratio_nonzero > 0, "ratio_nonzero");
    case.class_if(st.ratio_inexact > 0, "ratio_not_expressible_exactly");
    case.class_if(st.ratio_negative > 0, "ratio_negative");
    case.class_if(st.ratio_ge_2p24 > 0, "ratio_k>=2^24");
    case.class_if(st.ratio_ge_16384 > 0, "ratio>=16384");
    case.class_if(st.dim_out_of_lang_range, "dimension_beyond_2^30-1");
    case.class_if(st.int_min, "integer=-2^31");
    case.class_if(st.uint_ge_2p31, "font_or_count>=2^31");
}

/// Domain of the property. `Some(reason)`: the tree is outside it (a generator bug; counted).
fn outside_domain(st: &Stats) -> Option<&'static str> {
    if st.ratio_den_zero {
        return Some("glue ratio with zero denominator");
    }
    None
}

/// How a glue ratio that came back differs from the one that was printed (all accepted; counted).
#[derive(Default, Debug, Clone, Copy)]
pub struct RatioAcc {
    pub exact: usize,
    pub sign_lost: usize,
    pub precision_lost: usize,
    pub inexact_within_tolerance: usize,
}

/// Is `gk/65536` an acceptable reading of the ratio num/den after print + parse?
/// * The library's notion of equality (GlueRatio::eq compares the printed forms, which follow
///   TeX.2021.186: magnitude only, single precision) does not include the sign, so a lost sign is
///   accepted (and counted).
/// * A ratio k/65536 that single precision carries exactly (|k|, |num|, |den| < 2^24) must come back
///   with exactly that magnitude.
/// * Any other ratio must come back within rounding to 2^-16 plus a relative error of 2^-22 (three
///   single-precision operations): no particular printer arithmetic is demanded.
fn ratio_accepts(num: i32, den: i32, gk: i64, acc: &mut RatioAcc) -> bool {
    if den == 0 {
        return false;
    }
    let neg = (num < 0) != (den < 0) && num != 0;
    let sign_ok = if neg { true } else { gk >= 0 };
    if !sign_ok {
        return false;
    }
    let sign_lost = neg && gk > 0;
    let (an, ad, ag) = ((num as i128).abs(), (den as i128).abs(), (gk as i128).abs());
    let within = {
        // | ag - an*65536/ad | <= 1/2 + (an*65536/ad) * 2^-22
        let lhs = (ag * ad - an * 65536).abs() * (1i128 << 23);
        let rhs = ad * (1i128 << 22) + an * 65536 * 2;
        lhs <= rhs
    };
    let ok = match exact_k(num, den) {
        Some(k) => {
            let f32_exact = k.abs() < (1 << 24) && an < (1 << 24) && ad < (1 << 24);
            if ag == (k as i128).abs() {
                if sign_lost {
                    acc.sign_lost += 1
                } else {
                    acc.exact += 1
                }
                true
            } else if !f32_exact && within {
                acc.precision_lost += 1;
                true
            } else {
                false
            }
        }
        None => {
            if within {
                acc.inexact_within_tolerance += 1;
                if sign_lost {
                    acc.sign_lost += 1;
                }
            }
            within
        }
    };
    ok
}

fn align_hbox(o: &mut HBoxSpec, g: &HBoxSpec, acc: &mut RatioAcc) {
    if g.den == ONE as i32 && ratio_accepts(o.num, o.den, g.num as i64, acc) {
        o.num = g.num;
        o.den = g.den;
    }
    align_h(&mut o.list, &g.list, acc);
}
fn align_h(o: &mut [HNode], g: &[HNode], acc: &mut RatioAcc) {
    for (a, b) in o.iter_mut().zip(g.iter()) {
        match (a, b) {
            (HNode::HBox(x), HNode::HBox(y)) => align_hbox(x, y, acc),
            (HNode::VBox(x), HNode::VBox(y)) => align_v(&mut x.list, &y.list, acc),
            (HNode::Ins(x), HNode::Ins(y)) => align_v(&mut x.vbox, &y.vbox, acc),
            (HNode::Adjust(x), HNode::Adjust(y)) => align_v(x, y, acc),
            (HNode::Disc { pre: p1, post: q1, .. }, HNode::Disc { pre: p2, post: q2, .. }) => {
                align_d(p1, p2, acc);
                align_d(q1, q2, acc);
            }
            _ => {}
        }
    }
}
fn align_v(o: &mut [VNode], g: &[VNode], acc: &mut RatioAcc) {
    for (a, b) in o.iter_mut().zip(g.iter()) {
        match (a, b) {
            (VNode::HBox(x), VNode::HBox(y)) => align_hbox(x, y, acc),
            (VNode::VBox(x), VNode::VBox(y)) => align_v(&mut x.list, &y.list, acc),
            (VNode::Ins(x), VNode::Ins(y)) => align_v(&mut x.vbox, &y.vbox, acc),
            _ => {}
        }
    }
}
fn align_d(o: &mut [DNode], g: &[DNode], acc: &mut RatioAcc) {
    for (a, b) in o.iter_mut().zip(g.iter()) {
        match (a, b) {
            (DNode::HBox(x), DNode::HBox(y)) => align_hbox(x, y, acc),
            (DNode::VBox(x), DNode::VBox(y)) => align_v(&mut x.list, &y.list, acc),
            _ => {}
        }
    }
}

/// Compare what came back with what was printed: strictly, except that a glue ratio may differ as
/// far as `ratio_accepts` allows.
fn judge(original: &Top, got: &Top, path: &str, src: &str, acc: &mut RatioAcc) -> Result<(), Verdict> {
    let mut want = original.clone();
    match (&mut want, got) {
        (Top::H(a), Top::H(b)) => align_h(a, b, acc),
        (Top::V(a), Top::V(b)) => align_v(a, b, acc),
        _ => {}
    }
    if want == *got {
        return Ok(());
    }
    let (a, b) = (format!("{:?}", want), format!("{:?}", got));
    Err(Verdict::Fail(format!("{path}: the parsed list differs from the printed one (strict comparison, glue ratios as exact rationals)\n  {}\n  printed text:\n{}", first_diff(&a, &b), clip(src, 1500))))
}

const MSG_WRONG_TYPE: &str = "An argument has the wrong type";
const MSG_TOO_LARGE: &str = "A number is too large";

fn roundtrip_oracle(ctx: &Ctx, t: &TreeCase, case: &mut Case) -> Verdict {
    let st = Stats::of(&t.top);
    if outside_domain(&st).is_some() {
        return Verdict::Skip("outside the language's documented domain");
    }
    classes_of(&st, case);
    case.class(match t.profile.as_str() {
        "core" => "profile_core",
        "wide_ratio" => "profile_wide_ratio",
        "wide_dim" => "profile_wide_dim",
        "wide_int" => "profile_wide_int",
        "parsed" => "profile_parsed",
        _ => "profile_other",
    });
    let top_is_h = matches!(t.top, Top::H(_));
    case.class(if top_is_h { "top_horizontal" } else { "top_vertical" });

    // Print through every public path.
    let dbg = || format!("{:?}", t.top);
    let mut texts: Vec<(&'static str, String, bool)> = vec![]; // (path, text, parse as horizontal)
    match &t.top {
        Top::H(l) => {
            let dsl = h_to_ds(l);
            match guard_lazy(ctx, "to_box_lang+pretty_print", dbg, || (print_h(&dsl), print_h_display(&dsl))) {
                Ok((a, b)) => {
                    texts.push(("Vec<Horizontal>::to_box_lang + pretty_print", a, true));
                    texts.push(("Display of each ds::Horizontal", b, true));
                }
                Err(v) => return v,
            }
        }
        Top::V(l) => {
            let dsl = v_to_ds(l);
            let r = guard_lazy(ctx, "to_box_lang+pretty_print", dbg, || {
                let vb = ds::VBox { list: dsl.clone(), ..Default::default() };
                (print_v(&dsl), print_v_display(&dsl), format!("{}", vb))
            });
            match r {
                Ok((a, b, c)) => {
                    texts.push(("Vec<Vertical>::to_box_lang + pretty_print", a, false));
                    texts.push(("Display of each ast::Vertical", b, false));
                    texts.push(("Display of ds::VBox", c, true));
                }
                Err(v) => return v,
            }
        }
    }
    case.note = Some(clip(&texts[0].1, 600));

    let mut known: Option<Verdict> = None;
    let mut acc = RatioAcc::default();
    let (mut no_spelling_ratio, mut no_spelling_dim, mut formatted) = (false, false, false);
    for (path, src, as_h) in &texts {
        // What this text must parse to.
        let original: Top = if *as_h && !top_is_h {
            match &t.top {
                Top::V(l) => Top::H(vec![HNode::VBox(VBoxSpec { h: 0, w: 0, d: 0, shift: 0, list: l.clone() })]),
                _ => unreachable!(),
            }
        } else {
            t.top.clone()
        };
        let got = match parse_as(ctx, *as_h, src) {
            Ok(Ok(g)) => g,
            Ok(Err(e)) => {
                // The printed text does not parse. That is no violation only where the tree holds values
                // no source text can carry (outside "every value the language can express"):
                //  * a glue ratio of magnitude >= 16384 (from_float_str reads the string as a dimension);
                //  * a finite dimension beyond +-(2^30-1) / an infinite-order amount of -2^31.
                // Each such value may cost exactly one error of the matching kind; anything else fails.
                let mut excused = !e.kinds.is_empty();
                for (msg, n) in &e.kinds {
                    let budget = match msg.as_str() {
                        MSG_WRONG_TYPE => st.ratio_ge_16384,
                        MSG_TOO_LARGE => st.n_dim_out,
                        _ => 0,
                    };
                    excused &= *n <= budget;
                }
                if excused {
                    no_spelling_ratio |= e.kinds.iter().any(|(m, _)| m == MSG_WRONG_TYPE);
                    no_spelling_dim |= e.kinds.iter().any(|(m, _)| m == MSG_TOO_LARGE);
                    continue;
                }
                return Verdict::Fail(format!("{path}: the printed text does not parse back: {}\n  printed text:\n{}", e.text, clip(src, 1500)));
            }
            Err(v @ Verdict::Known(_)) => {
                known.get_or_insert(v);
                continue;
            }
            Err(v) => return v,
        };
        // Library equality (what the repository's own assert_box_eq! uses).
        let lib_equal = guard(ctx, "PartialEq", src, || match (&original, &got) {
            (Top::H(a), Top::H(b)) => h_to_ds(a) == h_to_ds(b),
            (Top::V(a), Top::V(b)) => v_to_ds(a) == v_to_ds(b),
            _ => false,
        });
        match lib_equal {
            Ok(true) => {}
            Ok(false) => return Verdict::Fail(format!("{path}: parsed list != printed list under the library's own PartialEq\n  printed text:\n{}", clip(src, 1500))),
            Err(v) => return v,
        }
        if let Err(v) = judge(&original, &got, path, src, &mut acc) {
            return v;
        }
        // The formatter on printer output (wide values, depth 4), for a quarter of the texts: defined,
        // idempotent, same meaning.
        if src.len() % 4 == 0 {
            let f1 = match guard(ctx, "format(printed text)", src, || format_src(src)) {
                Ok(Parsed::Ok(s)) => s,
                Ok(Parsed::Errs(n, s, _)) => return Verdict::Fail(format!("{path}: format rejects a printed text that parses: {n} errors {s}\n  printed text:\n{}", clip(src, 1500))),
                Ok(Parsed::Bad(m)) => return Verdict::Fail(format!("{path}: format(printed text): {m}")),
                Err(v) => return v,
            };
            match guard(ctx, "format∘format(printed text)", &f1, || format_src(&f1)) {
                Ok(Parsed::Ok(f2)) if f2 == f1 => {}
                Ok(_) => return Verdict::Fail(format!("{path}: format is not idempotent on a printed text\n  printed text:\n{}\n  format:\n{}", clip(src, 1200), clip(&f1, 1200))),
                Err(v) => return v,
            }
            match parse_as(ctx, *as_h, &f1) {
                Ok(Ok(g2)) if g2 == got => {}
                Ok(_) => return Verdict::Fail(format!("{path}: format changes what a printed text parses to\n  printed text:\n{}\n  format:\n{}", clip(src, 1200), clip(&f1, 1200))),
                Err(v) => return v,
            }
            formatted = true;
        }
    }
    case.class_if(no_spelling_ratio, "ratio>=16384 has no parseable spelling (outside the quantifier)");
    case.class_if(no_spelling_dim, "dimension >= 16384pt has no spelling (outside the quantifier)");
    case.class_if(formatted, "printed_text_formatted");
    case.class_if(acc.sign_lost > 0, "accepted:ratio_sign_lost");
    case.class_if(acc.precision_lost > 0, "accepted:ratio_beyond_single_precision");
    case.class_if(acc.inexact_within_tolerance > 0, "accepted:ratio_inexpressible_within_tolerance");
    match known {
        Some(v) => v,
        None => Verdict::pass(st.nontrivial()),
    }
}

// ------------------------------------------------------------------------------------
// Generators

fn sel<T: Clone + std::fmt::Debug + 'static>(v: Vec<T>) -> proptest::sample::Select<T> {
    proptest::sample::select(v)
}

fn core_scaled() -> BoxedStrategy<i32> {
    prop_oneof![
        3 => -10i32..=10,
        3 => (-200i32..=200).prop_map(|n| n * 65536),
        2 => -(1i32 << 20)..=(1 << 20),
        4 => -M30..=M30,
        2 => sel(vec![M30, -M30, M30 - 1, -(M30 - 1), 65535, 65536, 65537, -65535, -65536, -65537, 1, -1, 0, 32768, 98304, 6553, 6554]),
    ]
    .boxed()
}

/// Finite-order dimension.
fn scaled(wide: bool) -> BoxedStrategy<i32> {
    if !wide {
        return core_scaled();
    }
    prop_oneof![
        6 => core_scaled(),
        2 => sel(vec![i32::MAX, -i32::MAX, i32::MIN, 1 << 30, -(1 << 30), (1 << 30) + 1, i32::MAX - 65535, i32::MAX - 65536]),
        2 => any::<i32>(),
    ]
    .boxed()
}

/// Stretch/shrink amount of infinite order: the lexer accepts up to 32767.99998fil.
fn inf_amount(wide: bool) -> BoxedStrategy<i32> {
    let lo = if wide { i32::MIN } else { -i32::MAX };
    prop_oneof![
        4 => core_scaled(),
        2 => sel(vec![i32::MAX, -i32::MAX, 1 << 30, -(1 << 30), M30, -M30, 65536, -65536, 0]),
        2 => lo..=i32::MAX,
    ]
    .boxed()
}

fn component(wide: bool) -> BoxedStrategy<(i32, u8)> {
    prop_oneof![
        3 => scaled(wide).prop_map(|v| (v, 0u8)),
        3 => (inf_amount(wide), 1u8..4),
    ]
    .boxed()
}

fn glue_spec(wide: bool) -> BoxedStrategy<GlueSpec> {
    (scaled(wide), component(wide), component(wide)).prop_map(|(w, (st, sto), (sh, sho))| GlueSpec { w, st, sto, sh, sho }).boxed()
}

/// Font numbers: `ds::Char.font` is a u32. The language writes it as an integer; values from 2^31
/// on are the ones a negative integer denotes (`chars("a", -1)` parses to font 2^32-1).
fn font(wide_int: bool) -> BoxedStrategy<u32> {
    if !wide_int {
        return prop_oneof![
            7 => sel(vec![0u32, 0, 0, 1, 1, 2, 3, 255, 256]),
            1 => Just(i32::MAX as u32),
            2 => 0u32..=(i32::MAX as u32),
        ]
        .boxed();
    }
    prop_oneof![
        4 => sel(vec![0u32, 1, 2, 255]),
        3 => sel(vec![u32::MAX, 1u32 << 31, (1u32 << 31) + 1, u32::MAX - 1, i32::MAX as u32]),
        3 => any::<u32>(),
    ]
    .boxed()
}

/// Integer fields (penalty): every i32 the lexer accepts (the documented range is (-2^31, 2^31);
/// `-2147483648` is accepted too and occurs in the wide-integer profile).
fn int(wide_int: bool) -> BoxedStrategy<i32> {
    if wide_int {
        return prop_oneof![
            3 => sel(vec![i32::MIN, i32::MIN + 1, i32::MAX, -1, 0]),
            2 => any::<i32>(),
        ]
        .boxed();
    }
    prop_oneof![
        4 => -10000i32..=10000,
        2 => sel(vec![10000, -10000, i32::MAX, -i32::MAX, 0, 1, -1, 10001]),
        2 => -i32::MAX..=i32::MAX,
    ]
    .boxed()
}

/// replace_count / float_penalty (u32 in the data structure).
fn uint(wide_int: bool) -> BoxedStrategy<u32> {
    if wide_int {
        return prop_oneof![
            2 => 0u32..=5,
            3 => sel(vec![u32::MAX, 1u32 << 31, (1u32 << 31) + 1, i32::MAX as u32]),
            3 => any::<u32>(),
        ]
        .boxed();
    }
    prop_oneof![
        5 => 0u32..=5,
        2 => sel(vec![i32::MAX as u32, 10000, 65536]),
        2 => 0u32..=(i32::MAX as u32),
    ]
    .boxed()
}

fn not_dquote(c: char) -> char {
    if c == '"' {
        '\''
    } else {
        c
    }
}

/// Any Unicode scalar value except the double quote.
fn ch() -> BoxedStrategy<char> {
    prop_oneof![
        6 => sel("abcxyzABZ019-.,;!? ".chars().collect::<Vec<_>>()),
        3 => (0u8..128).prop_map(|b| not_dquote(b as char)),
        4 => sel(vec!['\\', '\n', '\t', '\r', '\0', '\'', '#', '(', ')', '[', ']', ',', '=', '{', '}', 'u', 'n', '\u{7f}', '\u{1b}']),
        2 => (0x300u32..0x370).prop_map(|u| char::from_u32(u).unwrap()),
        2 => sel(vec!['\u{85}', '\u{a0}', '\u{ad}', '\u{e9}', '\u{2028}', '\u{2029}', '\u{200b}', '\u{200d}', '\u{feff}', '\u{fffd}', '\u{d7ff}', '\u{e000}', '\u{ffff}', '\u{10000}', '\u{1f600}', '\u{e0100}', '\u{10ffff}', '\u{20d0}', '\u{3000}', '\u{65e5}']),
        2 => (0x10000u32..0x110000).prop_map(|u| char::from_u32(u).unwrap()),
        2 => any::<char>().prop_map(not_dquote),
    ]
    .boxed()
}

fn short_string() -> BoxedStrategy<String> {
    proptest::collection::vec(ch(), 0..4).prop_map(|v| v.into_iter().collect()).boxed()
}

fn rule_dim(wide: bool) -> BoxedStrategy<i32> {
    prop_oneof![
        2 => Just(RUNNING),
        4 => scaled(wide),
    ]
    .boxed()
}

/// (num, den) of an hbox glue ratio.
fn ratio(wide: bool) -> BoxedStrategy<(i32, i32)> {
    // expressible exactly and exact in single precision: k/65536 with 0 <= k < 2^24
    let core = prop_oneof![
        3 => Just((0i32, 1i32)),
        4 => (0i32..(1 << 24)).prop_map(|k| (k, 65536)),
        1 => (0i32..(1 << 18), 1i32..=8).prop_map(|(k, m)| (k * m, 65536 * m)),
        1 => sel(vec![(65536, 65536), ((1 << 24) - 1, 65536), (1, 65536), (65535, 65536), (32768, 65536), (6554, 65536), (1, 1), (255, 1), (3, 2), (-0, 7)]),
    ];
    if !wide {
        return core.boxed();
    }
    prop_oneof![
        4 => core,
        // negative, expressible
        3 => (1i32..(1 << 24)).prop_map(|k| (-k, 65536)),
        1 => (1i32..(1 << 20)).prop_map(|k| (k, -65536)),
        // expressible but beyond single precision
        3 => ((1i32 << 24)..=M30).prop_map(|k| (k, 65536)),
        1 => sel(vec![((1 << 24) + 1, 65536), (M30, 65536), (M30 - 1, 65536)]),
        // arbitrary rationals (mostly not expressible)
        3 => (any::<i32>(), any::<i32>()).prop_map(|(n, d)| (n, if d == 0 { 1 } else { d })),
        2 => (-(1i32 << 20)..(1 << 20), 1i32..(1 << 20)),
        // magnitude >= 16384
        1 => ((1i32 << 30)..=i32::MAX, 1i32..=65536),
        1 => sel(vec![(1 << 30, 65536), (16384, 1), (20000, 1), (i32::MAX, 1)]),
    ]
    .boxed()
}

/// Splices a run of same-font characters into a horizontal list (one time in three): the
/// printer merges such runs into one `chars` call.
fn with_runs(l: BoxedStrategy<Vec<HNode>>, wide_int: bool) -> BoxedStrategy<Vec<HNode>> {
    let run = (any::<u16>(), proptest::collection::vec(ch(), 2..5), font(wide_int));
    (l, prop_oneof![2 => Just(None), 1 => run.prop_map(Some)])
        .prop_map(|(mut l, run)| {
            if let Some((pos, cs, font)) = run {
                let at = ((pos as usize) * (l.len() + 1)) >> 16;
                for (k, c) in cs.into_iter().enumerate() {
                    l.insert(at + k, HNode::Char { c, font });
                }
            }
            l
        })
        .boxed()
}

/// The same for discretionary lists (there the printer writes one `chars` call per character, a
/// hand-written source may write `chars("ab", 3)`).
fn with_runs_d(l: BoxedStrategy<Vec<DNode>>, wide_int: bool) -> BoxedStrategy<Vec<DNode>> {
    let run = (any::<u16>(), proptest::collection::vec(ch(), 2..4), font(wide_int));
    (l, prop_oneof![2 => Just(None), 1 => run.prop_map(Some)])
        .prop_map(|(mut l, run)| {
            if let Some((pos, cs, font)) = run {
                let at = ((pos as usize) * (l.len() + 1)) >> 16;
                for (k, c) in cs.into_iter().enumerate() {
                    l.insert(at + k, DNode::Char { c, font });
                }
            }
            l
        })
        .boxed()
}

type Lists = (BoxedStrategy<Vec<HNode>>, BoxedStrategy<Vec<VNode>>, BoxedStrategy<Vec<DNode>>);

fn lig_spec(wide_int: bool) -> BoxedStrategy<LigSpec> {
    (ch(), font(wide_int), short_string(), any::<bool>(), any::<bool>()).prop_map(|(c, font, orig, left, right)| LigSpec { c, font, orig, left, right }).boxed()
}

fn hbox_spec(wide: bool, wide_ratio: bool, inner: BoxedStrategy<Vec<HNode>>) -> BoxedStrategy<HBoxSpec> {
    ((scaled(wide), scaled(wide), scaled(wide), scaled(wide)), ratio(wide_ratio), 0u8..4, inner)
        .prop_map(|((h, w, d, shift), (num, den), order, list)| HBoxSpec { h, w, d, shift, num, den, order, list })
        .boxed()
}
fn vbox_spec(wide: bool, inner: BoxedStrategy<Vec<VNode>>) -> BoxedStrategy<VBoxSpec> {
    ((scaled(wide), scaled(wide), scaled(wide), scaled(wide)), inner).prop_map(|((h, w, d, shift), list)| VBoxSpec { h, w, d, shift, list }).boxed()
}
fn ins_spec(wide: bool, wide_int: bool, inner: BoxedStrategy<Vec<VNode>>) -> BoxedStrategy<InsSpec> {
    (any::<u8>(), scaled(wide), scaled(wide), glue_spec(wide), uint(wide_int), inner)
        .prop_map(|(box_number, height, split_max_depth, skip, float_penalty, vbox)| InsSpec { box_number, height, split_max_depth, skip, float_penalty, vbox })
        .boxed()
}

/// Lists of nesting capacity `level` (0 = leaves only), built level by level (linear cost).
/// Value profile of a generated tree.
#[derive(Clone, Copy, Default)]
pub struct Prof {
    /// any i32 dimension (otherwise the language's documented ranges)
    pub wide: bool,
    /// any glue ratio with a non-zero denominator (otherwise k/65536, 0 <= k < 2^24)
    pub wide_ratio: bool,
    /// the full u32 / i32 range of fonts, counts and penalties (otherwise 0..2^31-1 / (-2^31, 2^31))
    pub wide_int: bool,
}

fn lists(p: Prof, level: usize, top_len: usize) -> Lists {
    let Prof { wide, wide_ratio, wide_int } = p;
    let rule = || (rule_dim(wide), rule_dim(wide), rule_dim(wide));
    let h_leaf: BoxedStrategy<HNode> = prop_oneof![
        7 => (ch(), font(wide_int)).prop_map(|(c, font)| HNode::Char { c, font }),
        3 => glue_spec(wide).prop_map(HNode::Glue),
        2 => scaled(wide).prop_map(HNode::Kern),
        2 => int(wide_int).prop_map(HNode::Penalty),
        2 => rule().prop_map(|(h, w, d)| HNode::Rule { h, w, d }),
        2 => lig_spec(wide_int).prop_map(HNode::Lig),
        1 => Just(HNode::Mark),
        1 => any::<bool>().prop_map(|after| HNode::Math { after }),
    ]
    .boxed();
    let v_leaf: BoxedStrategy<VNode> = prop_oneof![
        4 => glue_spec(wide).prop_map(VNode::Glue),
        3 => scaled(wide).prop_map(VNode::Kern),
        3 => int(wide_int).prop_map(VNode::Penalty),
        3 => rule().prop_map(|(h, w, d)| VNode::Rule { h, w, d }),
        1 => Just(VNode::Mark),
        1 => any::<bool>().prop_map(|after| VNode::Math { after }),
    ]
    .boxed();
    let d_leaf: BoxedStrategy<DNode> = prop_oneof![
        6 => (ch(), font(wide_int)).prop_map(|(c, font)| DNode::Char { c, font }),
        2 => scaled(wide).prop_map(DNode::Kern),
        2 => rule().prop_map(|(h, w, d)| DNode::Rule { h, w, d }),
        2 => lig_spec(wide_int).prop_map(DNode::Lig),
    ]
    .boxed();
    let mut cur: Lists = (
        with_runs(proptest::collection::vec(h_leaf.clone(), 0..4).boxed(), wide_int),
        proptest::collection::vec(v_leaf.clone(), 0..4).boxed(),
        with_runs_d(proptest::collection::vec(d_leaf.clone(), 0..3).boxed(), wide_int),
    );
    for lv in 1..=level {
        let (hl, vl, dl) = cur.clone();
        let h_node: BoxedStrategy<HNode> = prop_oneof![
            18 => h_leaf.clone(),
            3 => hbox_spec(wide, wide_ratio, hl.clone()).prop_map(HNode::HBox),
            2 => vbox_spec(wide, vl.clone()).prop_map(HNode::VBox),
            2 => (dl.clone(), dl.clone(), uint(wide_int)).prop_map(|(pre, post, replace)| HNode::Disc { pre, post, replace }),
            1 => vl.clone().prop_map(HNode::Adjust),
            1 => ins_spec(wide, wide_int, vl.clone()).prop_map(HNode::Ins),
        ]
        .boxed();
        let v_node: BoxedStrategy<VNode> = prop_oneof![
            10 => v_leaf.clone(),
            4 => hbox_spec(wide, wide_ratio, hl.clone()).prop_map(VNode::HBox),
            2 => vbox_spec(wide, vl.clone()).prop_map(VNode::VBox),
            1 => ins_spec(wide, wide_int, vl.clone()).prop_map(VNode::Ins),
        ]
        .boxed();
        let d_node: BoxedStrategy<DNode> = prop_oneof![
            10 => d_leaf.clone(),
            2 => hbox_spec(wide, wide_ratio, hl.clone()).prop_map(DNode::HBox),
            1 => vbox_spec(wide, vl.clone()).prop_map(DNode::VBox),
        ]
        .boxed();
        let n = if lv == level { top_len } else { 4 };
        cur = (
            with_runs(proptest::collection::vec(h_node, 0..=n).boxed(), wide_int),
            proptest::collection::vec(v_node, 0..=n).boxed(),
            with_runs_d(proptest::collection::vec(d_node, 0..3).boxed(), wide_int),
        );
    }
    cur
}

fn top_strategy(p: Prof, level: usize, top_len: usize) -> BoxedStrategy<Top> {
    let (h, v, _) = lists(p, level, top_len);
    prop_oneof![
        3 => h.prop_map(Top::H),
        1 => v.prop_map(Top::V),
    ]
    .boxed()
}

pub fn tree_strategy() -> BoxedStrategy<TreeCase> {
    prop_oneof![
        14 => top_strategy(Prof::default(), 4, 7).prop_map(|top| TreeCase { profile: "core".into(), top }),
        3 => top_strategy(Prof { wide_ratio: true, ..Default::default() }, 4, 5).prop_map(|top| TreeCase { profile: "wide_ratio".into(), top }),
        3 => top_strategy(Prof { wide: true, ..Default::default() }, 4, 5).prop_map(|top| TreeCase { profile: "wide_dim".into(), top }),
        3 => top_strategy(Prof { wide_int: true, ..Default::default() }, 4, 5).prop_map(|top| TreeCase { profile: "wide_int".into(), top }),
    ]
    .boxed()
}

// ------------------------------------------------------------------------------------
// (ii) styled sources: an independent renderer of the language's documented syntax

/// TeX.2021.103 print_scaled, written from the literate source (not the repository's).
pub fn print_scaled(v: i32) -> String {
    let mut out = String::new();
    let mut s = v as i64;
    if s < 0 {
        out.push('-');
        s = -s;
    }
    let _ = write!(out, "{}.", s / ONE);
    s = 10 * (s % ONE) + 5;
    let mut delta = 10i64;
    loop {
        if delta > ONE {
            s = s + 32768 - 50000;
        }
        out.push((b'0' + (s / ONE) as u8) as char);
        s = 10 * (s % ONE);
        delta *= 10;
        if s <= delta {
            break;
        }
    }
    out
}

/// Exact decimal expansion of v/65536 (at most 16 fraction digits).
fn exact_decimal(v: i32) -> String {
    let mut out = String::new();
    let mut s = v as i64;
    if s < 0 {
        out.push('-');
        s = -s;
    }
    let _ = write!(out, "{}.", s / ONE);
    let mut f = s % ONE;
    if f == 0 {
        out.push('0');
    }
    while f != 0 {
        f *= 10;
        out.push((b'0' + (f / ONE) as u8) as char);
        f %= ONE;
    }
    out
}

struct Style<'a> {
    bytes: &'a [u8],
    pos: usize,
}
impl<'a> Style<'a> {
    /// Next choice; 0 (the plain choice) once the stream is exhausted, so shrinking the stream
    /// moves the source toward the plainest rendering.
    fn next(&mut self) -> u8 {
        let b = self.bytes.get(self.pos).copied().unwrap_or(0);
        self.pos += 1;
        b
    }
    fn pick(&mut self, n: usize) -> usize {
        (self.next() as usize) % n
    }
    fn chance(&mut self, one_in: usize) -> bool {
        self.pick(one_in) == one_in - 1
    }
}

// -- TeX's reading of a dimension (independent of the repository) -----------------------------

/// The units of TeX.2021.458 with their conversion fractions num/denom (`sp` is handled apart).
const UNITS: [(&str, i64, i64); 8] = [("pt", 1, 1), ("in", 7227, 100), ("pc", 12, 1), ("cm", 7227, 254), ("mm", 7227, 2540), ("bp", 7227, 7200), ("dd", 1238, 1157), ("cc", 14856, 1157)];

/// TeX.2021.102 round_decimals over the first 17 fraction digits (TeX.2021.452 keeps no more).
fn tex_round_decimals(frac: &str) -> i64 {
    let digs: Vec<i64> = frac.bytes().take(17).map(|b| (b - b'0') as i64).collect();
    let mut a: i64 = 0;
    for d in digs.iter().rev() {
        a = (a + d * 131072) / 10;
    }
    (a + 1) / 2
}

/// Magnitude in sp of `<int>.<frac><unit>` as scan_dimen reads it (TeX.2021.448-458), written from the
/// literate source. `None` = "Dimension too large" (or an integer part TeX.2021.445 calls too big).
pub fn tex_dimen(int: &str, frac: &str, unit: &str) -> Option<i32> {
    let mut cur_val: i64 = 0;
    for b in int.bytes() {
        cur_val = cur_val * 10 + (b - b'0') as i64;
        if cur_val > i32::MAX as i64 {
            return None;
        }
    }
    let mut f = tex_round_decimals(frac);
    if unit == "sp" {
        // "goto done": the fraction is dropped
        return if cur_val >= 1 << 30 { None } else { Some(cur_val as i32) };
    }
    let &(_, num, denom) = UNITS.iter().find(|u| u.0 == unit)?;
    if (num, denom) != (1, 1) {
        // cur_val := xn_over_d(cur_val, num, denom); f := (num*f + 2^16*remainder) div denom
        let prod = cur_val * num;
        let (q, rem) = (prod / denom, prod % denom);
        if q >= 1 << 30 {
            return None; // xn_over_d sets arith_error
        }
        cur_val = q;
        f = (num * f + 65536 * rem) / denom;
        cur_val += f / 65536;
        f %= 65536;
    }
    // attach_fraction
    if cur_val >= 16384 {
        return None;
    }
    let v = cur_val * 65536 + f;
    if v >= 1 << 30 {
        None
    } else {
        Some(v as i32)
    }
}

/// A decimal numeral with `ndec` fraction digits that approximates `mag` sp in the given unit
/// (rounded down). `ndec == 0` gives the integer form without a decimal point.
fn numeral_in_unit(mag: i32, unit: usize, ndec: usize) -> (String, String) {
    let (_, num, denom) = UNITS[unit];
    let scale = 10u128.pow(ndec as u32);
    let q = (mag as u128) * (denom as u128) * scale / (65536u128 * num as u128);
    let (i, f) = (q / scale, q % scale);
    (format!("{i}"), if ndec == 0 { String::new() } else { format!("{:0width$}", f, width = ndec) })
}

#[derive(Default, Clone)]
struct Feat {
    comments: usize,
    blank_lines: usize,
    keyword_reordered: usize,
    positional_beyond_default: usize,
    defaults_omitted: usize,
    no_commas: usize,
    sp_units: usize,
    unicode_escapes: usize,
    unicode_escapes_upper_or_padded: usize,
    merged_chars: usize,
    merged_chars_in_disc: usize,
    empty_chars: usize,
    integer_form_dim: usize,
    integer_form_fil: usize,
    other_unit: [usize; 8],
    negative_ratio: usize,
    comment_at: [usize; NPOS],
    comment_generated_text: usize,
    comment_crlf: usize,
    comment_eof_no_newline: usize,
    two_comments_in_a_row: usize,
    no_final_newline: usize,
    raw_newline_in_string: usize,
}

/// The places where the renderer may put white space and a comment.
#[derive(Clone, Copy, PartialEq, Eq, Debug)]
enum Pos {
    TopLevel = 0,
    ListStart,
    ListBetween,
    NameParen,
    AfterLParen,
    EmptyParens,
    KeyEq,
    EqValue,
    AfterValue,
    AfterComma,
    BetweenArgsNoComma,
    BeforeRParenAfterComma,
    BeforeRParenNoComma,
    ListEnd,
    EmptyList,
    Eof,
}
const NPOS: usize = 16;
const POS_CLASS: [&str; NPOS] = [
    "comment@top_level_before_call",
    "comment@list_start",
    "comment@list_between_calls",
    "comment@name_lparen",
    "comment@first_in_parens",
    "comment@in_empty_parens",
    "comment@key_eq",
    "comment@eq_value",
    "comment@value_comma",
    "comment@after_comma",
    "comment@between_args_without_comma",
    "comment@before_rparen_after_comma",
    "comment@before_rparen_after_value",
    "comment@list_end",
    "comment@in_empty_list",
    "comment@eof",
];

enum Val<'t> {
    Str(String),
    Int(i64),
    Dim(i32),
    Comp(i32, u8),
    Bool(bool),
    Order(u8),
    Ratio(i64),
    MaybeRunning(i32),
    H(&'t [HNode]),
    V(&'t [VNode]),
    D(&'t [DNode]),
}

struct ArgSpec<'t> {
    key: &'static str,
    val: Val<'t>,
    is_default: bool,
}

// -- What the explicit CST of a rendered source must look like --------------------------------
//
// cst.rs documents the explicit representation through the field comments of `FuncCall` / `Arg`
// ("Comments before the function call", "Comments preceding the argument", "Comments between the
// last argument and the closing parenthesis") and pins the attribution with its tests
// comment_0..comment_10 and comment_in_empty_list: a comment belongs to the next call / the
// argument it precedes; a comment between a value and the comma (or, without comma, the next
// argument or the `)`) still belongs to that value's argument; after the last comma it trails the
// call; before `]` (or EOF) it trails the list.

#[derive(Debug, Clone, PartialEq, Eq, Default)]
pub struct XTree {
    pub calls: Vec<XCall>,
    pub trailing: Vec<String>,
}
#[derive(Debug, Clone, PartialEq, Eq)]
pub struct XCall {
    pub comments: Vec<String>,
    pub name: String,
    pub args: Vec<XArg>,
    pub trailing: Vec<String>,
}
#[derive(Debug, Clone, PartialEq, Eq)]
pub struct XArg {
    pub comments: Vec<String>,
    pub key: Option<String>,
    pub value: XVal,
}
#[derive(Debug, Clone, PartialEq, Eq)]
pub enum XVal {
    Int(i32),
    Dim(i32),
    Inf(i32, u8),
    Str(String),
    List(XTree),
}

pub fn x_of_tree(t: &cst::Tree<'_>) -> XTree {
    let cs = |v: &Vec<&str>| v.iter().map(|s| s.to_string()).collect::<Vec<_>>();
    XTree {
        calls: t
            .calls
            .iter()
            .map(|c| XCall {
                comments: cs(&c.comments),
                name: format!("{}", c.func_name),
                args: c
                    .args
                    .iter()
                    .map(|a| XArg {
                        comments: cs(&a.comments),
                        key: a.key.as_ref().map(|k| format!("{k}")),
                        value: match &a.value {
                            cst::Value::Integer(i) => XVal::Int(*i),
                            cst::Value::Scaled(s) => XVal::Dim(s.0),
                            cst::Value::InfiniteGlue(s, o) => XVal::Inf(s.0, order_to(*o)),
                            cst::Value::String(s) => XVal::Str(s.to_string()),
                            cst::Value::List(t) => XVal::List(x_of_tree(t)),
                        },
                    })
                    .collect(),
                trailing: cs(&c.trailing_comments),
            })
            .collect(),
        trailing: cs(&t.trailing_comments),
    }
}

const WS: [&str; 10] = ["", " ", "\n", "  ", "\n\n", "\t", " \n  \n ", "\r\n", "\u{a0}", "\n\n\n    "];
const COMMENTS: [&str; 10] = ["", " c", " (unbalanced [", " \"quote", " \u{e9}\u{1f600}", "#double", " trailing   ", " \\", " ) ] ,", " chars(\"x\")"];
/// Alphabet of generated comment text: everything but a line feed may stand in a comment.
const COMMENT_ALPHABET: [char; 28] = [' ', 'a', 'Z', '0', '#', '"', '\\', '(', ')', '[', ']', ',', '=', '\t', '\r', '\u{e9}', '\u{1f600}', '\u{a0}', '\u{301}', '\u{2028}', '-', '.', 'u', '{', '}', '\'', '\u{85}', '\u{0}'];

struct Frame {
    top: bool,
    calls: Vec<XCall>,
}

struct Renderer<'a> {
    out: String,
    st: Style<'a>,
    feat: Feat,
    /// value in sp -> a spelling in another unit that TeX reads as exactly this value
    spell: std::collections::BTreeMap<i32, (String, usize)>,
    /// comments written and not yet attributed
    pending: Vec<String>,
    frames: Vec<Frame>,
    /// `out.len()` right after the last comment and the white space that followed it
    after_comment_len: usize,
    /// `out.len()` right after the text of the last comment (before its line end)
    comment_text_end: usize,
}

impl<'a> Renderer<'a> {
    fn ws(&mut self) {
        // mostly nothing or a space
        let i = if self.st.chance(3) { self.st.pick(WS.len()) } else { self.st.pick(2) };
        if WS[i].matches('\n').count() >= 2 {
            self.feat.blank_lines += 1;
        }
        self.out.push_str(WS[i]);
    }
    fn maybe_comment(&mut self, pos: Pos) {
        if self.st.chance(6) {
            let text: String = if self.st.chance(2) {
                self.feat.comment_generated_text += 1;
                let n = self.st.pick(9);
                (0..n).map(|_| COMMENT_ALPHABET[self.st.pick(COMMENT_ALPHABET.len())]).collect()
            } else {
                COMMENTS[self.st.pick(COMMENTS.len())].to_string()
            };
            if self.after_comment_len <= self.out.len() && self.out[self.after_comment_len..].trim().is_empty() {
                self.feat.two_comments_in_a_row += 1;
            }
            self.out.push('#');
            self.out.push_str(&text);
            self.comment_text_end = self.out.len();
            // the comment ends at the line feed; a carriage return before it is part of the comment
            let crlf = self.st.chance(5);
            if crlf {
                self.feat.comment_crlf += 1;
                self.out.push('\r');
            }
            self.out.push('\n');
            self.pending.push(if crlf { format!("{text}\r") } else { text });
            self.feat.comments += 1;
            self.feat.comment_at[pos as usize] += 1;
            self.ws();
            self.after_comment_len = self.out.len();
        }
    }
    fn gap(&mut self, pos: Pos) {
        self.ws();
        self.maybe_comment(pos);
    }
    fn string(&mut self, s: &str) {
        self.out.push('"');
        for c in s.chars() {
            let mode = self.st.pick(4);
            let must_escape = c == '"' || c == '\\';
            if mode == 3 {
                // Rust's \u{..}: 1 to 6 hex digits of either case
                let u = c as u32;
                match self.st.pick(4) {
                    0 => {
                        let _ = write!(self.out, "\\u{{{:x}}}", u);
                    }
                    1 => {
                        let _ = write!(self.out, "\\u{{{:X}}}", u);
                        self.feat.unicode_escapes_upper_or_padded += 1;
                    }
                    2 => {
                        let _ = write!(self.out, "\\u{{{:06x}}}", u);
                        self.feat.unicode_escapes_upper_or_padded += 1;
                    }
                    _ => {
                        let _ = write!(self.out, "\\u{{{:04X}}}", u);
                        self.feat.unicode_escapes_upper_or_padded += 1;
                    }
                }
                self.feat.unicode_escapes += 1;
            } else if must_escape || mode == 2 {
                match c {
                    '"' => self.out.push_str("\\\""),
                    '\\' => self.out.push_str("\\\\"),
                    '\n' => self.out.push_str("\\n"),
                    '\t' => self.out.push_str("\\t"),
                    '\r' => self.out.push_str("\\r"),
                    '\0' => self.out.push_str("\\0"),
                    '\'' => self.out.push_str("\\'"),
                    c => self.out.push(c),
                }
            } else {
                if c == '\n' {
                    self.feat.raw_newline_in_string += 1;
                }
                self.out.push(c);
            }
        }
        self.out.push('"');
    }
    fn decimal(&mut self, v: i32) -> String {
        match self.st.pick(4) {
            0 | 1 => print_scaled(v),
            2 => exact_decimal(v),
            _ => {
                // leading zero in the integer part, trailing zeros in the fraction
                let p = print_scaled(v);
                let (sign, rest) = match p.strip_prefix('-') {
                    Some(r) => ("-", r.to_string()),
                    None => ("", p.clone()),
                };
                format!("{sign}0{rest}00")
            }
        }
    }
    fn dim(&mut self, v: i32) {
        if let Some((s, unit)) = self.spell.get(&v).cloned() {
            if self.st.chance(2) {
                self.feat.other_unit[unit] += 1;
                self.out.push_str(&s);
                return;
            }
        }
        if v.abs() <= M30 && self.st.chance(4) {
            self.feat.sp_units += 1;
            let _ = write!(self.out, "{}sp", v);
        } else if v % 65536 == 0 && self.st.chance(3) {
            // the form of the documentation's examples: `1pt`
            self.feat.integer_form_dim += 1;
            let _ = write!(self.out, "{}pt", v / 65536);
        } else {
            let d = self.decimal(v);
            let _ = write!(self.out, "{}pt", d);
        }
    }
    fn value(&mut self, v: &Val<'_>) -> XVal {
        match v {
            Val::Str(s) => {
                self.string(s);
                XVal::Str(s.clone())
            }
            Val::Int(i) => {
                if self.st.chance(5) && *i >= 0 {
                    let _ = write!(self.out, "00{}", i);
                } else {
                    let _ = write!(self.out, "{}", i);
                }
                XVal::Int(*i as i32)
            }
            Val::Dim(d) | Val::Comp(d, 0) => {
                self.dim(*d);
                XVal::Dim(*d)
            }
            Val::Comp(d, o) => {
                let unit = ["pt", "fil", "fill", "filll"][(*o % 4) as usize];
                if *d % 65536 == 0 && self.st.chance(3) {
                    // `5fil`
                    self.feat.integer_form_fil += 1;
                    let _ = write!(self.out, "{}{}", *d / 65536, unit);
                } else {
                    let dec = self.decimal(*d);
                    let _ = write!(self.out, "{}{}", dec, unit);
                }
                XVal::Inf(*d, *o % 4)
            }
            Val::Bool(b) => {
                let _ = write!(self.out, "\"{}\"", b);
                XVal::Str(b.to_string())
            }
            Val::Order(o) => {
                let s = ["normal", "fil", "fill", "filll"][(*o % 4) as usize];
                let _ = write!(self.out, "\"{}\"", s);
                XVal::Str(s.to_string())
            }
            Val::Ratio(k) => {
                let k = *k as i32;
                let d = if k % 65536 == 0 && self.st.chance(3) { format!("{}", k / 65536) } else { self.decimal(k) };
                let _ = write!(self.out, "\"{}\"", d);
                XVal::Str(d)
            }
            Val::MaybeRunning(d) => {
                if *d == RUNNING {
                    self.out.push_str("\"running\"");
                    XVal::Str("running".into())
                } else {
                    self.dim(*d);
                    XVal::Dim(*d)
                }
            }
            Val::H(l) => XVal::List(self.bracketed(|r| r.hlist(l))),
            Val::V(l) => XVal::List(self.bracketed(|r| r.vlist(l))),
            Val::D(l) => XVal::List(self.bracketed(|r| r.dlist(l))),
        }
    }
    fn bracketed(&mut self, body: impl FnOnce(&mut Self)) -> XTree {
        self.out.push('[');
        let saved = std::mem::take(&mut self.pending);
        self.frames.push(Frame { top: false, calls: vec![] });
        body(self);
        let empty = self.frames.last().map(|f| f.calls.is_empty()).unwrap_or(true);
        self.gap(if empty { Pos::EmptyList } else { Pos::ListEnd });
        self.out.push(']');
        let fr = self.frames.pop().expect("frame");
        let trailing = std::mem::replace(&mut self.pending, saved);
        XTree { calls: fr.calls, trailing }
    }
    fn call(&mut self, name: &str, args: Vec<ArgSpec<'_>>) {
        let pos = {
            let fr = self.frames.last().expect("frame");
            if fr.top {
                Pos::TopLevel
            } else if fr.calls.is_empty() {
                Pos::ListStart
            } else {
                Pos::ListBetween
            }
        };
        self.gap(pos);
        self.out.push_str(name);
        self.gap(Pos::NameParen);
        self.out.push('(');
        let comments = std::mem::take(&mut self.pending);
        // first `npos` arguments positionally (in declaration order), the others by keyword
        let default_pos = match name {
            "chars" | "penalty" | "kern" | "insertion" | "math" => 1,
            "glue" | "rule" => 3,
            "lig" => 2,
            _ => 0,
        };
        let npos = match self.st.pick(4) {
            0 => default_pos.min(args.len()),
            1 => 0,
            _ => self.st.pick(args.len() + 1),
        };
        if npos > default_pos {
            self.feat.positional_beyond_default += 1;
        }
        let mut order: Vec<usize> = (npos..args.len()).collect();
        if self.st.chance(2) && order.len() > 1 {
            for i in (1..order.len()).rev() {
                let j = self.st.pick(i + 1);
                order.swap(i, j);
            }
            if order.windows(2).any(|w| w[0] > w[1]) {
                self.feat.keyword_reordered += 1;
            }
        }
        let omit_defaults = self.st.chance(2);
        let commas = !self.st.chance(4);
        let mut seq: Vec<(usize, bool)> = (0..npos).map(|i| (i, false)).collect();
        for i in order {
            if omit_defaults && args[i].is_default {
                self.feat.defaults_omitted += 1;
                continue;
            }
            seq.push((i, true));
        }
        let n = seq.len();
        if !commas && n > 1 {
            self.feat.no_commas += 1;
        }
        let mut xargs: Vec<XArg> = vec![];
        // was a comma written after the previous argument?
        let mut prev_comma = false;
        for (j, (i, keyword)) in seq.into_iter().enumerate() {
            self.gap(if j == 0 {
                Pos::AfterLParen
            } else if prev_comma {
                Pos::AfterComma
            } else {
                Pos::BetweenArgsNoComma
            });
            if j > 0 && !prev_comma {
                // no comma: everything up to this argument's first token still belongs to the previous one
                let c = std::mem::take(&mut self.pending);
                xargs[j - 1].comments.extend(c);
            }
            if keyword {
                self.out.push_str(args[i].key);
                self.gap(Pos::KeyEq);
                self.out.push('=');
                self.gap(Pos::EqValue);
            }
            let value = self.value(&args[i].val);
            xargs.push(XArg { comments: vec![], key: if keyword { Some(args[i].key.to_string()) } else { None }, value });
            self.gap(Pos::AfterValue);
            let last = j + 1 == n;
            if commas && (!last || self.st.chance(2)) {
                self.out.push(',');
                prev_comma = true;
                let c = std::mem::take(&mut self.pending);
                xargs[j].comments.extend(c);
            } else {
                prev_comma = false;
                if !last {
                    // no comma: keep the tokens apart
                    self.out.push(' ');
                }
            }
        }
        self.gap(if n == 0 {
            Pos::EmptyParens
        } else if prev_comma {
            Pos::BeforeRParenAfterComma
        } else {
            Pos::BeforeRParenNoComma
        });
        self.out.push(')');
        let rest = std::mem::take(&mut self.pending);
        let trailing = if n > 0 && !prev_comma {
            xargs[n - 1].comments.extend(rest);
            vec![]
        } else {
            rest
        };
        self.frames.last_mut().expect("frame").calls.push(XCall { comments, name: name.to_string(), args: xargs, trailing });
    }
    fn a<'t>(key: &'static str, val: Val<'t>, is_default: bool) -> ArgSpec<'t> {
        ArgSpec { key, val, is_default }
    }
    fn chars(&mut self, s: &str, font: u32) {
        self.call("chars", vec![Self::a("content", Val::Str(s.to_string()), s.is_empty()), Self::a("font", Val::Int(font as i64), font == 0)]);
    }
    /// A `chars` call without characters (no node results), one time in sixteen.
    fn maybe_empty_chars(&mut self) {
        if self.st.chance(16) {
            self.feat.empty_chars += 1;
            let font = [0u32, 0, 3, 7][self.st.pick(4)];
            self.chars("", font);
        }
    }
    fn glue_args<'t>(g: &GlueSpec, names: [&'static str; 3]) -> Vec<ArgSpec<'t>> {
        vec![
            Self::a(names[0], Val::Dim(g.w), g.w == 0),
            Self::a(names[1], Val::Comp(g.st, g.sto), g.st == 0 && g.sto % 4 == 0),
            Self::a(names[2], Val::Comp(g.sh, g.sho), g.sh == 0 && g.sho % 4 == 0),
        ]
    }
    fn rule(&mut self, h: i32, w: i32, d: i32) {
        self.call("rule", vec![Self::a("height", Val::MaybeRunning(h), h == 0), Self::a("width", Val::MaybeRunning(w), w == 0), Self::a("depth", Val::MaybeRunning(d), d == 0)]);
    }
    fn lig(&mut self, l: &LigSpec) {
        self.call(
            "lig",
            vec![
                Self::a("char", Val::Str(l.c.to_string()), l.c == '\0'),
                Self::a("original_chars", Val::Str(l.orig.clone()), l.orig.is_empty()),
                Self::a("font", Val::Int(l.font as i64), l.font == 0),
                Self::a("includes_left_boundary", Val::Bool(l.left), !l.left),
                Self::a("includes_right_boundary", Val::Bool(l.right), !l.right),
            ],
        );
    }
    fn hbox(&mut self, b: &HBoxSpec) {
        let k = expected_k(b.num, b.den, Deviations::default()).expect("core profile ratios are expressible");
        self.call(
            "hbox",
            vec![
                Self::a("height", Val::Dim(b.h), b.h == 0),
                Self::a("width", Val::Dim(b.w), b.w == 0),
                Self::a("depth", Val::Dim(b.d), b.d == 0),
                Self::a("shift_amount", Val::Dim(b.shift), b.shift == 0),
                Self::a("glue_ratio", Val::Ratio(k), k == 0),
                Self::a("glue_order", Val::Order(b.order), b.order % 4 == 0),
                Self::a("content", Val::H(&b.list), b.list.is_empty()),
            ],
        );
    }
    fn vbox(&mut self, b: &VBoxSpec) {
        self.call(
            "vbox",
            vec![
                Self::a("height", Val::Dim(b.h), b.h == 0),
                Self::a("width", Val::Dim(b.w), b.w == 0),
                Self::a("depth", Val::Dim(b.d), b.d == 0),
                Self::a("shift_amount", Val::Dim(b.shift), b.shift == 0),
                Self::a("content", Val::V(&b.list), b.list.is_empty()),
            ],
        );
    }
    fn ins(&mut self, i: &InsSpec) {
        let mut args = vec![Self::a("box_number", Val::Int(i.box_number as i64), i.box_number == 0), Self::a("height", Val::Dim(i.height), i.height == 0), Self::a("split_max_depth", Val::Dim(i.split_max_depth), i.split_max_depth == 0)];
        args.extend(Self::glue_args(&i.skip, ["split_top_skip_width", "split_top_skip_stretch", "split_top_skip_shrink"]));
        args.push(Self::a("float_penalty", Val::Int(i.float_penalty as i64), i.float_penalty == 0));
        args.push(Self::a("vbox", Val::V(&i.vbox), i.vbox.is_empty()));
        self.call("insertion", args);
    }
    fn mark(&mut self) {
        // "Parameters: none."
        self.call("mark", vec![]);
    }
    fn math(&mut self, after: bool) {
        self.call("math", vec![Self::a("kind", Val::Str(if after { "after" } else { "before" }.into()), !after)]);
    }
    fn hlist(&mut self, l: &[HNode]) {
        let mut i = 0;
        while i < l.len() {
            self.maybe_empty_chars();
            match &l[i] {
                HNode::Char { c, font } => {
                    // optionally merge a run of same-font characters into one call
                    let mut s = c.to_string();
                    let mut j = i + 1;
                    while j < l.len() {
                        match &l[j] {
                            HNode::Char { c: c2, font: f2 } if f2 == font && self.st.chance(2) => {
                                s.push(*c2);
                                j += 1;
                            }
                            _ => break,
                        }
                    }
                    if j > i + 1 {
                        self.feat.merged_chars += 1;
                    }
                    self.chars(&s, *font);
                    i = j;
                    continue;
                }
                HNode::Glue(g) => self.call("glue", Self::glue_args(g, ["width", "stretch", "shrink"])),
                HNode::Kern(w) => self.call("kern", vec![Self::a("width", Val::Dim(*w), *w == 0)]),
                HNode::Penalty(p) => self.call("penalty", vec![Self::a("value", Val::Int(*p as i64), *p == 0)]),
                HNode::Rule { h, w, d } => self.rule(*h, *w, *d),
                HNode::Lig(l) => self.lig(l),
                HNode::Disc { pre, post, replace } => self.call(
                    "disc",
                    vec![Self::a("pre_break", Val::D(pre), pre.is_empty()), Self::a("post_break", Val::D(post), post.is_empty()), Self::a("replace_count", Val::Int(*replace as i64), *replace == 0)],
                ),
                HNode::HBox(b) => self.hbox(b),
                HNode::VBox(b) => self.vbox(b),
                HNode::Ins(x) => self.ins(x),
                HNode::Mark => self.mark(),
                HNode::Adjust(v) => self.call("adjust", vec![Self::a("content", Val::V(v), v.is_empty())]),
                HNode::Math { after } => self.math(*after),
            }
            i += 1;
        }
    }
    fn vlist(&mut self, l: &[VNode]) {
        for n in l {
            match n {
                VNode::HBox(b) => self.hbox(b),
                VNode::VBox(b) => self.vbox(b),
                VNode::Glue(g) => self.call("glue", Self::glue_args(g, ["width", "stretch", "shrink"])),
                VNode::Kern(w) => self.call("kern", vec![Self::a("width", Val::Dim(*w), *w == 0)]),
                VNode::Penalty(p) => self.call("penalty", vec![Self::a("value", Val::Int(*p as i64), *p == 0)]),
                VNode::Rule { h, w, d } => self.rule(*h, *w, *d),
                VNode::Mark => self.mark(),
                VNode::Ins(x) => self.ins(x),
                VNode::Math { after } => self.math(*after),
            }
        }
    }
    fn dlist(&mut self, l: &[DNode]) {
        let mut i = 0;
        while i < l.len() {
            self.maybe_empty_chars();
            match &l[i] {
                DNode::Char { c, font } => {
                    // `chars` adds one Char "for each character in the input string", here too
                    let mut s = c.to_string();
                    let mut j = i + 1;
                    while j < l.len() {
                        match &l[j] {
                            DNode::Char { c: c2, font: f2 } if f2 == font && self.st.chance(2) => {
                                s.push(*c2);
                                j += 1;
                            }
                            _ => break,
                        }
                    }
                    if j > i + 1 {
                        self.feat.merged_chars_in_disc += 1;
                    }
                    self.chars(&s, *font);
                    i = j;
                    continue;
                }
                DNode::Kern(w) => self.call("kern", vec![Self::a("width", Val::Dim(*w), *w == 0)]),
                DNode::HBox(b) => self.hbox(b),
                DNode::VBox(b) => self.vbox(b),
                DNode::Rule { h, w, d } => self.rule(*h, *w, *d),
                DNode::Lig(l) => self.lig(l),
            }
            i += 1;
        }
    }
}

/// Every finite dimension of a tree, in a fixed order.
fn for_each_dim(top: &mut Top, f: &mut dyn FnMut(&mut i32)) {
    fn glue(g: &mut GlueSpec, f: &mut dyn FnMut(&mut i32)) {
        f(&mut g.w);
        if g.sto % 4 == 0 {
            f(&mut g.st);
        }
        if g.sho % 4 == 0 {
            f(&mut g.sh);
        }
    }
    fn rule(h: &mut i32, w: &mut i32, d: &mut i32, f: &mut dyn FnMut(&mut i32)) {
        for v in [h, w, d] {
            if *v != RUNNING {
                f(v);
            }
        }
    }
    fn hbox(b: &mut HBoxSpec, f: &mut dyn FnMut(&mut i32)) {
        f(&mut b.h);
        f(&mut b.w);
        f(&mut b.d);
        f(&mut b.shift);
        hl(&mut b.list, f);
    }
    fn vbox(b: &mut VBoxSpec, f: &mut dyn FnMut(&mut i32)) {
        f(&mut b.h);
        f(&mut b.w);
        f(&mut b.d);
        f(&mut b.shift);
        vl(&mut b.list, f);
    }
    fn ins(i: &mut InsSpec, f: &mut dyn FnMut(&mut i32)) {
        f(&mut i.height);
        f(&mut i.split_max_depth);
        glue(&mut i.skip, f);
        vl(&mut i.vbox, f);
    }
    fn hl(l: &mut [HNode], f: &mut dyn FnMut(&mut i32)) {
        for n in l {
            match n {
                HNode::Glue(g) => glue(g, f),
                HNode::Kern(w) => f(w),
                HNode::Rule { h, w, d } => rule(h, w, d, f),
                HNode::Disc { pre, post, .. } => {
                    dl(pre, f);
                    dl(post, f);
                }
                HNode::HBox(b) => hbox(b, f),
                HNode::VBox(b) => vbox(b, f),
                HNode::Ins(i) => ins(i, f),
                HNode::Adjust(v) => vl(v, f),
                HNode::Char { .. } | HNode::Penalty(_) | HNode::Lig(_) | HNode::Mark | HNode::Math { .. } => {}
            }
        }
    }
    fn vl(l: &mut [VNode], f: &mut dyn FnMut(&mut i32)) {
        for n in l {
            match n {
                VNode::Glue(g) => glue(g, f),
                VNode::Kern(w) => f(w),
                VNode::Rule { h, w, d } => rule(h, w, d, f),
                VNode::HBox(b) => hbox(b, f),
                VNode::VBox(b) => vbox(b, f),
                VNode::Ins(i) => ins(i, f),
                VNode::Penalty(_) | VNode::Mark | VNode::Math { .. } => {}
            }
        }
    }
    fn dl(l: &mut [DNode], f: &mut dyn FnMut(&mut i32)) {
        for n in l {
            match n {
                DNode::Kern(w) => f(w),
                DNode::Rule { h, w, d } => rule(h, w, d, f),
                DNode::HBox(b) => hbox(b, f),
                DNode::VBox(b) => vbox(b, f),
                DNode::Char { .. } | DNode::Lig(_) => {}
            }
        }
    }
    match top {
        Top::H(l) => hl(l, f),
        Top::V(l) => vl(l, f),
    }
}

fn for_each_hbox(top: &mut Top, f: &mut dyn FnMut(&mut HBoxSpec)) {
    fn hbox(b: &mut HBoxSpec, f: &mut dyn FnMut(&mut HBoxSpec)) {
        f(b);
        hl(&mut b.list, f);
    }
    fn hl(l: &mut [HNode], f: &mut dyn FnMut(&mut HBoxSpec)) {
        for n in l {
            match n {
                HNode::HBox(b) => hbox(b, f),
                HNode::VBox(b) => vl(&mut b.list, f),
                HNode::Ins(i) => vl(&mut i.vbox, f),
                HNode::Adjust(v) => vl(v, f),
                HNode::Disc { pre, post, .. } => {
                    dl(pre, f);
                    dl(post, f);
                }
                _ => {}
            }
        }
    }
    fn vl(l: &mut [VNode], f: &mut dyn FnMut(&mut HBoxSpec)) {
        for n in l {
            match n {
                VNode::HBox(b) => hbox(b, f),
                VNode::VBox(b) => vl(&mut b.list, f),
                VNode::Ins(i) => vl(&mut i.vbox, f),
                _ => {}
            }
        }
    }
    fn dl(l: &mut [DNode], f: &mut dyn FnMut(&mut HBoxSpec)) {
        for n in l {
            match n {
                DNode::HBox(b) => hbox(b, f),
                DNode::VBox(b) => vl(&mut b.list, f),
                _ => {}
            }
        }
    }
    match top {
        Top::H(l) => hl(l, f),
        Top::V(l) => vl(l, f),
    }
}

/// What `render_styled` hands back.
struct Rendered {
    src: String,
    feat: Feat,
    /// the list the source denotes (the input tree with re-spelt values, see below)
    meaning: Top,
    /// the explicit CST the source must build
    cst: XTree,
}

/// Writes `top` as source text in a style drawn from `style`. Two kinds of values are first moved to
/// what the chosen spelling denotes, so that the expected meaning stays exact:
/// * one finite dimension in five is re-spelt in one of TeX's other units (in pc cm mm bp dd cc) with 0-5
///   decimals, and takes the value `tex_dimen` (TeX.2021.448-458) gives that numeral;
/// * one positive glue ratio in four becomes negative (`"-0.25"`).
fn render_styled(top: &Top, style: &[u8]) -> Rendered {
    // the re-spelling pass reads the style stream from its end, the writer from its start
    let rev: Vec<u8> = style.iter().rev().copied().collect();
    let mut pre = Style { bytes: &rev, pos: 0 };
    let mut meaning = top.clone();
    let mut spell: std::collections::BTreeMap<i32, (String, usize)> = Default::default();
    let mut feat = Feat::default();
    for_each_dim(&mut meaning, &mut |v: &mut i32| {
        if v.abs() > M30 || !pre.chance(5) {
            return;
        }
        let unit = 1 + pre.pick(7);
        let ndec = pre.pick(6);
        let (int, frac) = numeral_in_unit(v.abs(), unit, ndec);
        if let Some(m) = tex_dimen(&int, &frac, UNITS[unit].0) {
            let neg = *v < 0;
            let text = format!("{}{}{}{}{}", if neg { "-" } else { "" }, int, if ndec == 0 { "" } else { "." }, frac, UNITS[unit].0);
            *v = if neg { -m } else { m };
            spell.insert(*v, (text, unit));
        }
    });
    for_each_hbox(&mut meaning, &mut |b: &mut HBoxSpec| {
        if let Some(k) = exact_k(b.num, b.den) {
            if k > 0 && pre.chance(4) {
                b.num = -b.num;
                feat.negative_ratio += 1;
            }
        }
    });
    let mut r = Renderer { out: String::new(), st: Style { bytes: style, pos: 0 }, feat, spell, pending: vec![], frames: vec![Frame { top: true, calls: vec![] }], after_comment_len: usize::MAX, comment_text_end: 0 };
    match &meaning {
        Top::H(l) => r.hlist(l),
        Top::V(l) => r.vlist(l),
    }
    r.gap(Pos::Eof);
    // final newline unless the style asks for none; a comment that ends the file then has no line end
    // (the lexer ends a comment at a line feed only, so that comment is not part of the CST)
    if !r.st.chance(4) {
        r.out.push('\n');
    } else {
        r.feat.no_final_newline += 1;
        if r.after_comment_len <= r.out.len() && r.out[r.after_comment_len..].trim().is_empty() {
            r.out.truncate(r.comment_text_end);
            r.pending.pop();
            r.feat.comment_eof_no_newline += 1;
        }
    }
    let fr = r.frames.pop().expect("top frame");
    let cst = XTree { calls: fr.calls, trailing: std::mem::take(&mut r.pending) };
    Rendered { src: r.out, feat: r.feat, meaning, cst }
}

#[derive(Clone, Debug, Serialize, Deserialize)]
pub struct StyledCase {
    pub top: Top,
    pub style: Vec<u8>,
}

pub fn styled_strategy() -> BoxedStrategy<StyledCase> {
    (top_strategy(Prof::default(), 3, 5), proptest::collection::vec(any::<u8>(), 0..600)).prop_map(|(top, style)| StyledCase { top, style }).boxed()
}

/// The explicit CST of `src`: (tree in comparable form, its Display, Tree::build(tree.iter()) == tree, any error).
fn explicit_cst(src: &str) -> (XTree, String, bool, bool) {
    let errs: lang::ErrorAccumulator = Default::default();
    let tree = cst::Tree::build(cst::parse(src, errs.clone()));
    let again = cst::Tree::build(tree.iter());
    (x_of_tree(&tree), format!("{}", tree), again == tree, !errs.is_empty())
}

fn format_oracle(ctx: &Ctx, c: &StyledCase, case: &mut Case) -> Verdict {
    let st0 = Stats::of(&c.top);
    if outside_domain(&st0).is_some() || st0.dim_out_of_lang_range || st0.uint_ge_2p31 || canon_top(&c.top, Deviations::default()).is_none() {
        return Verdict::Skip("outside the language's documented domain");
    }
    let Rendered { src, feat, meaning, cst: want_cst } = render_styled(&c.top, &c.style);
    let st = Stats::of(&meaning);
    case.note = Some(clip(&src, 600));
    case.class_if(feat.comments > 0, "has_comments");
    for (i, name) in POS_CLASS.iter().enumerate() {
        case.class_if(feat.comment_at[i] > 0, name);
    }
    case.class_if(feat.comment_generated_text > 0, "comment_generated_text");
    case.class_if(feat.comment_crlf > 0, "comment_crlf_terminated");
    case.class_if(feat.comment_eof_no_newline > 0, "comment_eof_without_newline");
    case.class_if(feat.two_comments_in_a_row > 0, "two_comments_in_a_row");
    case.class_if(feat.no_final_newline > 0, "no_final_newline");
    case.class_if(feat.raw_newline_in_string > 0, "raw_newline_in_string");
    case.class_if(feat.blank_lines > 0, "has_blank_lines");
    case.class_if(feat.keyword_reordered > 0, "keywords_reordered");
    case.class_if(feat.positional_beyond_default > 0, "positional_where_printer_uses_keyword");
    case.class_if(feat.defaults_omitted > 0, "defaults_omitted");
    case.class_if(feat.no_commas > 0, "commas_omitted");
    case.class_if(feat.sp_units > 0, "sp_units");
    case.class_if(feat.integer_form_dim > 0, "integer_form_dimension");
    case.class_if(feat.integer_form_fil > 0, "integer_form_fil");
    for (i, name) in ["", "unit_in", "unit_pc", "unit_cm", "unit_mm", "unit_bp", "unit_dd", "unit_cc"].iter().enumerate() {
        case.class_if(i > 0 && feat.other_unit[i] > 0, name);
    }
    case.class_if(feat.negative_ratio > 0, "negative_glue_ratio_string");
    case.class_if(feat.unicode_escapes > 0, "unicode_escapes");
    case.class_if(feat.unicode_escapes_upper_or_padded > 0, "unicode_escapes_upper_or_zero_padded");
    case.class_if(feat.merged_chars > 0, "merged_chars");
    case.class_if(feat.merged_chars_in_disc > 0, "merged_chars_in_disc");
    case.class_if(feat.empty_chars > 0, "empty_chars_call");
    case.class_if(st.depth >= 2, "depth>=2");
    case.class_if(st.depth >= 3, "depth>=3");
    case.class_if(st.escape_char, "char_needs_escape");
    case.class_if(st.limit_value, "value_at_limit");
    let top_is_h = matches!(meaning, Top::H(_));
    let want = canon_top(&meaning, Deviations::default()).expect("re-spelt values stay in range");

    // 1. the styled source means the tree it was rendered from
    let got = match parse_as(ctx, top_is_h, &src) {
        Ok(Ok(g)) => g,
        Ok(Err(e)) => return Verdict::Fail(format!("a source written in the documented syntax does not parse: {}\n  source:\n{}", e.text, clip(&src, 2000))),
        Err(v) => return v,
    };
    if got != want {
        return Verdict::Fail(format!("the source parses to a different list than the one it was written from\n  {}\n  source:\n{}", first_diff(&format!("{:?}", want), &format!("{:?}", got)), clip(&src, 2000)));
    }
    // 2. format is defined on it and idempotent
    let f1 = match guard(ctx, "format", &src, || format_src(&src)) {
        Ok(Parsed::Ok(s)) => s,
        Ok(Parsed::Errs(n, s, _)) => return Verdict::Fail(format!("format rejects a source that parses: {n} errors {s}\n  source:\n{}", clip(&src, 2000))),
        Ok(Parsed::Bad(m)) => return Verdict::Fail(format!("format: {m}\n  source:\n{}", clip(&src, 2000))),
        Err(v) => return v,
    };
    let f2 = match guard(ctx, "format∘format", &f1, || format_src(&f1)) {
        Ok(Parsed::Ok(s)) => s,
        Ok(Parsed::Errs(n, s, _)) => return Verdict::Fail(format!("format(s) is rejected by format: {n} errors {s}\n  source:\n{}\n  format(s):\n{}", clip(&src, 1500), clip(&f1, 1500))),
        Ok(Parsed::Bad(m)) => return Verdict::Fail(format!("format∘format: {m}")),
        Err(v) => return v,
    };
    if f1 != f2 {
        return Verdict::Fail(format!("format is not idempotent\n  {}\n  source:\n{}\n  format(s):\n{}", first_diff(&f1, &f2), clip(&src, 1500), clip(&f1, 1500)));
    }
    // 3. formatting does not change the meaning
    let got2 = match parse_as(ctx, top_is_h, &f1) {
        Ok(Ok(g)) => g,
        Ok(Err(e)) => return Verdict::Fail(format!("format(s) does not parse: {}\n  source:\n{}\n  format(s):\n{}", e.text, clip(&src, 1500), clip(&f1, 1500))),
        Err(v) => return v,
    };
    if got2 != want {
        return Verdict::Fail(format!("parse(format(s)) != parse(s)\n  {}\n  source:\n{}\n  format(s):\n{}", first_diff(&format!("{:?}", want), &format!("{:?}", got2)), clip(&src, 1500), clip(&f1, 1500)));
    }
    // 4. the explicit CST (cst::Tree): structure and comment attribution as cst.rs documents them, its
    //    Display (= pretty_print of tree.iter()) is the formatter's output, and iter() rebuilds the tree
    match guard(ctx, "cst::Tree::build / iter / Display", &src, || explicit_cst(&src)) {
        Ok((x, shown, rebuilt_equal, errors)) => {
            if errors {
                return Verdict::Fail(format!("cst::parse reports errors for a source that parses\n  source:\n{}", clip(&src, 2000)));
            }
            if x != want_cst {
                return Verdict::Fail(format!("the explicit CST (cst::Tree::build) differs from the structure the source was written with\n  {}\n  source:\n{}", first_diff(&format!("{:?}", want_cst), &format!("{:?}", x)), clip(&src, 2000)));
            }
            if shown != f1 {
                return Verdict::Fail(format!("Display of the explicit CST differs from lang::format of the same source\n  {}\n  source:\n{}", first_diff(&f1, &shown), clip(&src, 2000)));
            }
            if !rebuilt_equal {
                return Verdict::Fail(format!("Tree::build(tree.iter()) != tree\n  source:\n{}", clip(&src, 2000)));
            }
        }
        Err(v) => return v,
    }
    let perturbed = feat.comments + feat.blank_lines + feat.keyword_reordered + feat.positional_beyond_default + feat.defaults_omitted + feat.no_commas + feat.sp_units + feat.unicode_escapes + feat.integer_form_dim + feat.integer_form_fil + feat.negative_ratio + feat.empty_chars + feat.other_unit.iter().sum::<usize>() > 0;
    Verdict::pass(perturbed && st.nontrivial())
}

// ------------------------------------------------------------------------------------
// (iii) arbitrary text

const ALL_ERRORS_BOX: &str = include_str!("/repo/crates/boxworks/src/lang/all_errors.box");
const WOLF_HALL: &str = include_str!("/repo/crates/boxworks-bin/tests/wolf_hall_linebreak_right_skip.txt");
const WOLF_HALL_PENALTIES: &str = include_str!("/repo/crates/boxworks-bin/tests/wolf_hall_linebreak_vlist_penalties.txt");

/// Box-language texts used by the repository's own tests (doc tests of lang/mod.rs, the
/// formatter example, boxworks-text / boxworks-hyphenate / boxworks-testing goldens).
/// (text, parses as a horizontal list: false where the function names exist at the CST level only)
const INLINE_SEEDS: &[(&str, bool)] = &[
    ("chars(\"Box\")\nglue(1pt, 5fil, 0.075in)\nchars(\"A\")\nkern(-0.1pt)\nchars(\"V\")\n", true),
    ("chars(\"A\", 1)", true),
    ("chars(font=2, content=\"B\")", true),
    ("chars(\"C\", font=3)", true),
    ("# This is a\n#  list of things\nhlist\n\n        (\n    1.0pt, height =2.0pt,\n\n    contents = [ # glue is good\n        glue(  ) \n    \nchars(\"Hello\", font = \n# we use an unusual font here\n1)\n\n    chars(\"Hello\", font =  \n\n\n    0) chars(\"World\")] ,\n        # Infinite glue\n    other=3.0fill,\n    # there are no more arguments\n)\n", false),
    ("hbox(\n    width=1pt,\n    content=[chars(\"Hello\")],\n)\n", true),
    ("vbox(\n  content=[\n    hbox(\n      content=[\n        chars(\"AZ\", 33)\n      ]\n    )\n  ]\n)\n", true),
    ("chars(\"a\")\ndisc(\n  pre_break=[\n    chars(\"-\")\n  ],\n)\nchars(\"b\")\n", true),
    ("disc(\n  pre_break=[\n    chars(\"a\")\n    lig(\"x\", \"\")\n    chars(\"-\")\n  ],\n  replace_count=1,\n)\nchars(\"a\")\nchars(\"b\")\n", true),
    ("lig(\"\\u{b}\", \"ff\")\nlig(\"\\u{e}\", \"ffi\")\n", true),
    ("lig(\"$\", \"\", includes_left_boundary=\"true\")\nchars(\"123\")\nlig(\"#\", \"\")\nchars(\"B\")\nlig(\"#\", \"\", includes_right_boundary=\"true\")\n", true),
    ("chars(\"A\")\nkern(-1.11113pt)\nchars(\"V\")\n", true),
    ("a(b=[c()])", false),
    ("a(b=[#X\n])", false),
    ("lig(\"\\\"\")lig(\"\\\"\")lig(\"\\\\\")lig(\"\\\\\")chars()", true),
    ("f#X\n(3,key#Y\n=4#Z\n,#W\n)", false),
    ("rule(\"running\", 1pt, \"running\")\nmark()\nadjust(content=[kern(1pt)])\nmath(\"after\")\ninsertion(3, height=1pt, vbox=[glue(1pt, 2fill, 3filll)])\n", true),
];

fn seeds() -> Vec<(String, Option<bool>)> {
    // (text, expected to parse as a horizontal list, where the repository states it)
    let mut v: Vec<(String, Option<bool>)> = vec![(ALL_ERRORS_BOX.to_string(), Some(false))];
    // the paragraphs of the sample file one by one (nothing is demanded of a single paragraph: a
    // comment-only paragraph added upstream parses)
    for para in ALL_ERRORS_BOX.split("\n\n") {
        v.push((format!("{}\n", para), None));
    }
    // one paragraph (vbox) and single lines (hbox) of the TeX-verified goldens
    for big in [WOLF_HALL, WOLF_HALL_PENALTIES] {
        v.push((big.to_string(), Some(true)));
        let lines: Vec<&str> = big.lines().collect();
        let starts: Vec<usize> = lines.iter().enumerate().filter(|(_, l)| l.starts_with("    hbox(")).map(|(i, _)| i).collect();
        for w in starts.windows(2).take(4) {
            let block: Vec<String> = lines[w[0]..w[1]].iter().map(|l| l.trim_start().to_string()).collect();
            v.push((block.join("\n") + "\n", Some(true)));
        }
    }
    for (s, ok) in INLINE_SEEDS.iter() {
        v.push((s.to_string(), Some(*ok)));
    }
    v
}

#[derive(Clone, Debug, Serialize, Deserialize)]
pub struct TextCase {
    pub origin: String,
    pub text: String,
}

const VOCAB: &[&str] = &[
    "chars", "glue", "penalty", "kern", "hbox", "vbox", "lig", "disc", "rule", "mark", "adjust", "insertion", "math", "content", "font", "width", "stretch", "shrink", "value", "height",
    "depth", "shift_amount", "glue_ratio", "glue_order", "char", "original_chars", "includes_left_boundary", "includes_right_boundary", "pre_break", "post_break", "replace_count", "dummy",
    "box_number", "split_max_depth", "split_top_skip_width", "split_top_skip_stretch", "float_penalty", "kind", "(", ")", "[", "]", "(", ")", "[", "]", ",", "=", "#", "\n", " ", "\"", "\\",
    "-", ".", "0", "1", "9", "10", "65536", "pt", "sp", "in", "fil", "fill", "filll", "pc", "cm", "mm", "bp", "dd", "cc", "true", "false", "running", "normal", "before", "after", "\"a\"",
    "\"true\"", "\"running\"", "\"fil\"", "\"1.5\"", "1pt", "-2.5pt", "3fil", "\u{e9}", "\u{1f600}", "\u{301}", "u", "{", "}", "_", "x", "\t", "\r", "\u{a0}", "'", "/", "*", "\\u{41}",
    "\\n", "()", "[]", "=[", "(\"", "\")", "content=[", "chars(\"", "\",",
];

const NUMBERS: &[&str] = &[
    "2147483647", "2147483648", "-2147483647", "-2147483648", "99999999999999999999", "-99999999999", "16383.99998pt", "-16383.99998pt", "16383.99999pt", "16384pt", "-16384.0pt",
    "16383.999999999pt", "32767.99998pt", "32768pt", "-32768.0pt", "1073741823sp", "1073741824sp", "-1073741824sp", "99999999999sp", "2147483647sp", "32767.99998fil", "32768fil",
    "-32768.0fill", "99999999999filll", "1.1.1pt", "1.", "1.5", "1e5pt", "0x10", "1truept", "5fillll", "1fi", "-", "--1", "-.5pt", ".5pt", "5.pt", "1.00000000000000000000000001pt",
    "0.999999999999999999999pt", "007", "-0", "-0pt", "1pT", "1PT", "1in", "226.74in", "226.75in", "16383cc", "1280cc", "5000000dd", "576cm", "5760mm", "1365pc", "1366pc", "16322bp",
    "16323bp", "0.0000076293945312sp", "1.5sp", "3_pt", "1p", "1ptt", "12345678901pt", "4294967296", "0.5fil", "-0.00001fil", "1_", "-1", "-2", "255", "256", "-256", "4294967295", "65536", "2.04in", "0.075in", "-10sp", "1fil", "-2fill", "3filll",
];

const STRINGS: &[&str] = &[
    "\"\\a\"", "\"\\u{110000}\"", "\"\\u{d800}\"", "\"\\u{fffffffff}\"", "\"\\u{ffffffff}\"", "\"\\u{}\"", "\"\\u{zz}\"", "\"\\u\"", "\"\\ux\"", "\"\\u\u{e9}\"", "\"\\u\u{1f600}x\"",
    "\"\\u{41\"", "\"abc", "\"\\\"", "\"\u{e9}\\\"", "\"\\", "\"\"", "\"\\x41\"", "\"\\u{1F600}\"", "\"\\u{41}\\u{42}\"", "\"a\\\\b\"", "\"\\'\"", "\"\\\"\"", "\"\\0\\n\\t\\r\"", "\"\n\"",
    "\"#\"", "\"(\"", "\"]\"", "\"\u{301}\"", "\"\\u {41}\"", "\"\\u{ 41}\"", "\"\\u{0041}\"", "\"\\U{41}\"", "\"\\\u{e9}\"", "\"\\\u{1f600}\"", "\"running\"", "\"true\"", "\"TRUE\"",
    "\"1.5\"", "\"-1.5\"", "\"20000.0\"", "\"16383.99998\"", "\"16384\"", "\"1e3\"", "\"nan\"", "\"\"\"", "\"0x\"", "\".5\"", "\"5.\"", "\"99999999999\"", "\"1.5pt\"", "\"\u{e9}\"",
];

const NONASCII: &[&str] = &["\u{e9}", "\u{1f600}", "\u{301}", "\u{a0}", "\u{2028}", "\u{feff}", "\u{85}", "\u{3000}", "\u{0}", "\u{7f}"];
const PUNCT: &[&str] = &[",", "=", "#", "\\", "\"", "(", ")", "[", "]", "\n", " ", "-", ".", "_"];

/// Splits text into lexical pieces (this file's own rough tokenizer; pieces concatenate to the text).
fn tokenize(s: &str) -> Vec<String> {
    let cs: Vec<char> = s.chars().collect();
    let mut out = vec![];
    let mut i = 0;
    while i < cs.len() {
        let c = cs[i];
        let start = i;
        if c.is_whitespace() {
            while i < cs.len() && cs[i].is_whitespace() {
                i += 1;
            }
        } else if c == '#' {
            while i < cs.len() && cs[i] != '\n' {
                i += 1;
            }
        } else if c == '"' {
            i += 1;
            while i < cs.len() && cs[i] != '"' {
                if cs[i] == '\\' {
                    i += 1;
                }
                i += 1;
            }
            i = (i + 1).min(cs.len());
        } else if c.is_ascii_alphabetic() || c == '_' {
            while i < cs.len() && (cs[i].is_ascii_alphabetic() || cs[i] == '_') {
                i += 1;
            }
        } else if c.is_ascii_digit() || c == '-' {
            i += 1;
            while i < cs.len() && (cs[i].is_ascii_digit() || cs[i] == '.') {
                i += 1;
            }
            while i < cs.len() && cs[i].is_ascii_alphabetic() {
                i += 1;
            }
        } else {
            i += 1;
        }
        out.push(cs[start..i].iter().collect());
    }
    out
}

/// One mutation: (kind, position selector, auxiliary selector).
type Mut = (u8, u16, u16);

fn is_blank(t: &str) -> bool {
    t.chars().all(|c| c.is_whitespace())
}

fn mutate(text: &str, muts: &[Mut]) -> String {
    let mut toks = tokenize(text);
    for &(kind, pos, aux) in muts {
        // positions address non-blank tokens
        let solid: Vec<usize> = toks.iter().enumerate().filter(|(_, t)| !is_blank(t)).map(|(i, _)| i).collect();
        let at = |p: u16| -> usize {
            if solid.is_empty() {
                0
            } else {
                solid[pick_idx(p, solid.len())]
            }
        };
        let i = at(pos);
        let j = at(aux);
        let ins = |p: u16| -> usize { ((p as usize) * (toks.len() + 1)) >> 16 };
        match kind % 16 {
            0 => {
                if i < toks.len() {
                    toks.remove(i);
                }
            }
            1 => {
                if i < toks.len() {
                    let t = toks[i].clone();
                    toks.insert(i, t);
                }
            }
            2 => {
                if i < toks.len() && j < toks.len() {
                    toks.swap(i, j);
                }
            }
            3 => {
                let k = ins(pos);
                toks.insert(k, ["(", ")", "[", "]"][(aux % 4) as usize].to_string());
            }
            4 => {
                // replace a numeric token (or any token) by a boundary numeral
                let nums: Vec<usize> = solid.iter().copied().filter(|&k| toks[k].chars().next().map(|c| c.is_ascii_digit() || c == '-').unwrap_or(false)).collect();
                let n = NUMBERS[pick_idx(aux, NUMBERS.len())].to_string();
                if !nums.is_empty() {
                    let k = nums[pick_idx(pos, nums.len())];
                    toks[k] = n;
                } else if i < toks.len() {
                    toks[i] = n;
                } else {
                    toks.push(n);
                }
            }
            5 => {
                let strs: Vec<usize> = solid.iter().copied().filter(|&k| toks[k].starts_with('"')).collect();
                let n = STRINGS[pick_idx(aux, STRINGS.len())].to_string();
                if !strs.is_empty() {
                    let k = strs[pick_idx(pos, strs.len())];
                    toks[k] = n;
                } else {
                    let k = ins(pos);
                    toks.insert(k, n);
                }
            }
            6 => {
                let k = ins(pos);
                toks.insert(k, NONASCII[pick_idx(aux, NONASCII.len())].to_string());
            }
            7 => {
                // truncate at a character position
                let all: String = toks.concat();
                let n = all.chars().count();
                let keep = ((pos as usize) * (n + 1)) >> 16;
                let cut: String = all.chars().take(keep).collect();
                toks = tokenize(&cut);
            }
            8 => {
                let k = ins(pos);
                toks.insert(k, PUNCT[pick_idx(aux, PUNCT.len())].to_string());
            }
            9 => {
                let words: Vec<usize> = solid.iter().copied().filter(|&k| toks[k].chars().next().map(|c| c.is_ascii_alphabetic()).unwrap_or(false)).collect();
                if !words.is_empty() {
                    let k = words[pick_idx(pos, words.len())];
                    toks[k] = VOCAB[pick_idx(aux, 38)].to_string();
                }
            }
            10 => {
                // delete one character
                let all: String = toks.concat();
                let n = all.chars().count();
                if n > 0 {
                    let k = pick_idx(pos, n);
                    let cut: String = all.chars().enumerate().filter(|(x, _)| *x != k).map(|(_, c)| c).collect();
                    toks = tokenize(&cut);
                }
            }
            11 => {
                // insert a character inside a token (splits strings, numbers, keywords)
                if i < toks.len() {
                    let cs: Vec<char> = toks[i].chars().collect();
                    let k = ((aux as usize) * (cs.len() + 1)) >> 16;
                    let frag = PUNCT[(aux as usize / 7) % PUNCT.len()];
                    let s: String = cs[..k].iter().collect::<String>() + frag + &cs[k..].iter().collect::<String>();
                    toks[i] = s;
                }
            }
            12 => {
                // drop all whitespace around a token (glues neighbours together)
                if i > 0 && is_blank(&toks[i - 1]) {
                    toks.remove(i - 1);
                }
            }
            13 => {
                // replace a token by a comment without newline / with CR
                if i < toks.len() {
                    toks[i] = ["# c", "#\r", "#\"", "# (\n"][(aux % 4) as usize].to_string();
                }
            }
            14 => {
                // a comment as the last thing of the file, without a line end
                toks.push([" # eof", "#", "\n#\r", " #\"("][(aux % 4) as usize].to_string());
            }
            _ => {
                // a file with CRLF line ends
                let all: String = toks.concat();
                toks = tokenize(&all.replace("\r\n", "\n").replace('\n', "\r\n"));
            }
        }
    }
    toks.concat()
}

fn muts_strategy() -> BoxedStrategy<Vec<Mut>> {
    proptest::collection::vec((0u8..16, any::<u16>(), any::<u16>()), 1..5).boxed()
}

fn safe_print(top: &Top) -> String {
    panics::catch(|| match top {
        Top::H(l) => print_h(&h_to_ds(l)),
        Top::V(l) => print_v(&v_to_ds(l)),
    })
    .unwrap_or_default()
}

pub fn text_strategy() -> BoxedStrategy<TextCase> {
    let seed_texts: std::sync::Arc<Vec<String>> = std::sync::Arc::new(seeds().into_iter().map(|s| s.0).collect());
    let n_seeds = seed_texts.len();
    let st = seed_texts.clone();
    let soup = proptest::collection::vec((0..VOCAB.len(), 0u8..4), 1..40).prop_map(|v| {
        let mut s = String::new();
        for (i, sep) in v {
            s.push_str(VOCAB[i]);
            if sep == 0 {
                s.push(' ');
            }
        }
        TextCase { origin: "soup".into(), text: s }
    });
    let small_tree = top_strategy(Prof::default(), 2, 3);
    let numeric = (sel(vec!["kern(@)", "glue(@, @, @)", "glue(0pt, @)", "penalty(@)", "chars(\"a\", @)", "rule(@, \"running\")", "hbox(width=@, glue_ratio=\"@\")", "hbox(glue_ratio=@)", "insertion(@, float_penalty=@)", "disc(replace_count=@)", "lig(@)", "chars(@)", "math(@)", "hbox(content=[kern(@)])", "@"]), proptest::collection::vec(0..(NUMBERS.len() + STRINGS.len()), 3))
        .prop_map(|(tpl, picks)| {
            let mut s = String::new();
            let mut k = 0;
            for c in tpl.chars() {
                if c == '@' {
                    let p = picks[k % picks.len()];
                    k += 1;
                    s.push_str(if p < NUMBERS.len() { NUMBERS[p] } else { STRINGS[p - NUMBERS.len()] });
                } else {
                    s.push(c);
                }
            }
            TextCase { origin: "numeric_probe".into(), text: s }
        });
    prop_oneof![
        3 => soup,
        4 => (0..n_seeds, muts_strategy()).prop_map(move |(i, m)| TextCase { origin: "golden_mutated".into(), text: mutate(&st[i], &m) }),
        4 => (small_tree.clone(), muts_strategy()).prop_map(|(t, m)| TextCase { origin: "pretty_mutated".into(), text: mutate(&safe_print(&t), &m) }),
        2 => (small_tree, proptest::collection::vec(any::<u8>(), 0..200), muts_strategy()).prop_map(|(t, style, m)| TextCase { origin: "styled_mutated".into(), text: mutate(&render_styled(&t, &style).src, &m) }),
        3 => numeric,
    ]
    .boxed()
}

fn bracket_depth(s: &str) -> usize {
    let (mut d, mut m) = (0usize, 0usize);
    for c in s.chars() {
        match c {
            '(' | '[' => {
                d += 1;
                m = m.max(d);
            }
            ')' | ']' => d = d.saturating_sub(1),
            _ => {}
        }
    }
    m
}

fn bad_location(text: &str, what: &str, m: &str) -> Verdict {
    Verdict::Fail(format!("{what}: {m}\n  text: {}", clip(text, 1500)))
}

const UNIT_CLASSES: [(&str, &str); 12] = [
    ("pt", "numeral_unit_pt"),
    ("sp", "numeral_unit_sp"),
    ("in", "numeral_unit_in"),
    ("pc", "numeral_unit_pc"),
    ("cm", "numeral_unit_cm"),
    ("mm", "numeral_unit_mm"),
    ("bp", "numeral_unit_bp"),
    ("dd", "numeral_unit_dd"),
    ("cc", "numeral_unit_cc"),
    ("fil", "numeral_unit_fil"),
    ("fill", "numeral_unit_fill"),
    ("filll", "numeral_unit_filll"),
];

/// Which units occur directly after a digit or decimal point (bit i = UNIT_CLASSES[i]); one pass.
fn units_in(text: &str) -> u32 {
    let b = text.as_bytes();
    let mut found = 0u32;
    let mut i = 0;
    while i < b.len() {
        if (b[i].is_ascii_digit() || b[i] == b'.') && i + 1 < b.len() && b[i + 1].is_ascii_alphabetic() {
            let start = i + 1;
            let mut j = start;
            while j < b.len() && (b[j].is_ascii_alphabetic() || b[j] == b'_') {
                j += 1;
            }
            if let Some(k) = UNIT_CLASSES.iter().position(|(u, _)| u.as_bytes() == &b[start..j]) {
                found |= 1 << k;
            }
            i = j;
        } else {
            i += 1;
        }
    }
    found
}

/// What the horizontal / vertical parser made of a text.
enum Outcome<L> {
    List(L),
    Errors,
}

fn outcome_h(ctx: &Ctx, text: &str, what: &str) -> Result<Outcome<Vec<HNode>>, Verdict> {
    let p = guard(ctx, what, text, || match parse_h(text) {
        Parsed::Ok(l) => Parsed::Ok(h_from_ds(&l)),
        Parsed::Errs(n, s, k) => Parsed::Errs(n, s, k),
        Parsed::Bad(m) => Parsed::Bad(m),
    })?;
    match p {
        Parsed::Ok(Ok(l)) => Ok(Outcome::List(l)),
        Parsed::Ok(Err(e)) => Err(Verdict::Fail(format!("{what} produced a node the language has no syntax for: {e}\n  text: {}", clip(text, 1500)))),
        Parsed::Errs(..) => Ok(Outcome::Errors),
        Parsed::Bad(m) => Err(bad_location(text, what, &m)),
    }
}

fn outcome_v(ctx: &Ctx, text: &str, what: &str) -> Result<Outcome<Vec<VNode>>, Verdict> {
    let p = guard(ctx, what, text, || match parse_v(text) {
        Parsed::Ok(l) => Parsed::Ok(v_from_ds(&l)),
        Parsed::Errs(n, s, k) => Parsed::Errs(n, s, k),
        Parsed::Bad(m) => Parsed::Bad(m),
    })?;
    match p {
        Parsed::Ok(Ok(l)) => Ok(Outcome::List(l)),
        Parsed::Ok(Err(e)) => Err(Verdict::Fail(format!("{what} produced a node the language has no syntax for: {e}\n  text: {}", clip(text, 1500)))),
        Parsed::Errs(..) => Ok(Outcome::Errors),
        Parsed::Bad(m) => Err(bad_location(text, what, &m)),
    }
}

/// "Printing any list and parsing the text back yields an equal list" for a list the PARSER produced
/// (every such list consists of values the language expressed).
fn reparse_parsed(ctx: &Ctx, top: Top, text: &str, case: &mut Case) -> Result<(), Verdict> {
    let tc = TreeCase { profile: "parsed".into(), top };
    let mut c2 = Case::default();
    let v = roundtrip_oracle(ctx, &tc, &mut c2);
    for c in c2.classes {
        if c.starts_with("accepted:") || c == "font_or_count>=2^31" || c == "integer=-2^31" || c.contains("outside the quantifier") {
            case.class(match c {
                "font_or_count>=2^31" => "parsed_font_or_count>=2^31",
                "integer=-2^31" => "parsed_integer=-2^31",
                other => other,
            });
        }
    }
    match v {
        Verdict::Fail(m) => Err(Verdict::Fail(format!("a list the parser produced does not survive print + parse\n  source text: {}\n  {m}", clip(text, 800)))),
        Verdict::Known(s) => Err(Verdict::Known(s)),
        _ => Ok(()),
    }
}

fn text_oracle(ctx: &Ctx, t: &TextCase, case: &mut Case, expect_ok: Option<bool>) -> Verdict {
    let text = t.text.as_str();
    case.note = Some(clip(text, 400));
    case.class(match t.origin.as_str() {
        "soup" => "origin_soup",
        "golden_mutated" => "origin_golden_mutated",
        "pretty_mutated" => "origin_pretty_mutated",
        "styled_mutated" => "origin_styled_mutated",
        "numeric_probe" => "origin_numeric_probe",
        "golden" => "origin_golden",
        "scale" => "origin_scale_probe",
        _ => "origin_other",
    });
    let depth = bracket_depth(text);
    let has_limit = NUMBERS[..24].iter().any(|n| text.contains(n));
    case.class_if(depth >= 2, "bracket_depth>=2");
    case.class_if(depth >= 8, "bracket_depth>=8");
    case.class_if(text.contains('\\'), "has_backslash");
    case.class_if(!text.is_ascii(), "has_non_ascii");
    case.class_if(has_limit, "has_limit_numeral");
    case.class_if(text.contains("\r\n"), "has_crlf");
    case.class_if(text.rsplit('\n').next().map(|l| l.contains('#')).unwrap_or(false), "last_line_has_hash_without_newline");
    if text.len() < 4096 {
        let found = units_in(text);
        for (k, (_, name)) in UNIT_CLASSES.iter().enumerate() {
            case.class_if(found & (1 << k) != 0, name);
        }
    }
    let nontrivial = depth >= 2 || text.contains('\\') || !text.is_ascii() || has_limit;

    // horizontal and vertical parser: a list or located errors
    let h_list = match outcome_h(ctx, text, "parse_horizontal_list") {
        Ok(Outcome::List(l)) => {
            case.class("h_parse_ok");
            Some(l)
        }
        Ok(Outcome::Errors) => {
            case.class("h_parse_errors");
            None
        }
        Err(v) => return v,
    };
    if let Some(want_ok) = expect_ok {
        if want_ok != h_list.is_some() {
            return Verdict::Fail(format!("golden text: expected parse success = {want_ok}\n  text: {}", clip(text, 600)));
        }
    }
    let v_list = match outcome_v(ctx, text, "parse_vbox_using_cst") {
        Ok(Outcome::List(l)) => {
            case.class("v_parse_ok");
            Some(l)
        }
        Ok(Outcome::Errors) => None,
        Err(v) => return v,
    };
    // what the parser produced can be printed and read back
    let mut known: Option<Verdict> = None;
    if let Some(l) = &h_list {
        match reparse_parsed(ctx, Top::H(l.clone()), text, case) {
            Ok(()) => case.class_if(!l.is_empty(), "parsed_h_list_printed_and_reparsed"),
            Err(v @ Verdict::Known(_)) => known = Some(v),
            Err(v) => return v,
        }
    }
    if let Some(l) = &v_list {
        // (an empty vertical list says nothing new)
        if !l.is_empty() {
            match reparse_parsed(ctx, Top::V(l.clone()), text, case) {
                Ok(()) => case.class("parsed_v_list_printed_and_reparsed"),
                Err(v @ Verdict::Known(_)) => known = Some(v),
                Err(v) => return v,
            }
        }
    }
    // The explicit CST: cst::Tree::build is total, iter() rebuilds the same tree (the repository's
    // convert_test states this for every tree), errors are located.
    let (cst_shown, cst_errors) = match guard(ctx, "cst::Tree::build / iter / Display", text, || {
        let errs: lang::ErrorAccumulator = Default::default();
        let tree = cst::Tree::build(cst::parse(text, errs.clone()));
        let rebuilt_equal = cst::Tree::build(tree.iter()) == tree;
        let shown = format!("{}", tree);
        let e = match errs.check() {
            Ok(()) => Ok(false),
            Err(e) => check_errors(text, &e).map(|_| true),
        };
        (shown, rebuilt_equal, e)
    }) {
        Ok((_, false, _)) => return Verdict::Fail(format!("Tree::build(tree.iter()) != tree for tree = Tree::build(cst::parse(text))\n  text: {}", clip(text, 1500))),
        Ok((shown, true, Ok(b))) => (shown, b),
        Ok((_, _, Err(m))) => return bad_location(text, "cst::parse", &m),
        Err(v) => return v,
    };
    case.class_if(cst_errors, "syntax_errors");
    // (today every list the parser accepts is free of CST errors; nothing in the property demands it)
    case.class_if(h_list.is_some() && cst_errors, "h_parse_ok_despite_cst_errors");
    // formatter: total; where it answers, idempotent and meaning preserving; it answers for every text
    // that parses
    let f1 = match guard(ctx, "format", text, || format_src(text)) {
        Ok(Parsed::Ok(s)) => {
            case.class_if(cst_errors, "format_ok_despite_cst_errors");
            s
        }
        Ok(Parsed::Errs(..)) => {
            if h_list.is_some() || v_list.is_some() {
                return Verdict::Fail(format!("format rejects a text that parses\n  text: {}", clip(text, 1500)));
            }
            case.class_if(!cst_errors, "format_rejects_without_cst_errors");
            return known.unwrap_or(Verdict::pass(nontrivial));
        }
        Ok(Parsed::Bad(m)) => return Verdict::Fail(format!("format: {m}\n  text: {}", clip(text, 1500))),
        Err(v) => return v,
    };
    case.class("format_ok");
    if !cst_errors && cst_shown != f1 {
        return Verdict::Fail(format!("Display of the explicit CST (Tree::build + iter) differs from lang::format of the same text\n  {}\n  text: {}", first_diff(&f1, &cst_shown), clip(text, 1200)));
    }
    match guard(ctx, "format∘format", &f1, || format_src(&f1)) {
        Ok(Parsed::Ok(f2)) => {
            if f2 != f1 {
                return Verdict::Fail(format!("format is not idempotent\n  {}\n  text: {}\n  format(text): {}", first_diff(&f1, &f2), clip(text, 1200), clip(&f1, 1200)));
            }
        }
        Ok(Parsed::Errs(n, s, _)) => return Verdict::Fail(format!("format(text) is rejected by format ({n} errors {s})\n  text: {}\n  format(text): {}", clip(text, 1200), clip(&f1, 1200))),
        Ok(Parsed::Bad(m)) => return Verdict::Fail(format!("format∘format: {m}")),
        Err(v) => return v,
    }
    // "does not change what the text parses to": as a horizontal and as a vertical list
    let h2 = match outcome_h(ctx, &f1, "parse_horizontal_list∘format") {
        Ok(o) => o,
        Err(v) => return v,
    };
    match (&h_list, h2) {
        (Some(a), Outcome::List(b)) => {
            if *a != b {
                return Verdict::Fail(format!("parse(format(text)) != parse(text)\n  {}\n  text: {}\n  format(text): {}", first_diff(&format!("{:?}", a), &format!("{:?}", b)), clip(text, 1200), clip(&f1, 1200)));
            }
        }
        (None, Outcome::Errors) => {}
        (Some(_), Outcome::Errors) => return Verdict::Fail(format!("text parses but format(text) does not\n  text: {}\n  format(text): {}", clip(text, 1200), clip(&f1, 1200))),
        (None, Outcome::List(_)) => return Verdict::Fail(format!("text has parse errors but format(text) parses\n  text: {}\n  format(text): {}", clip(text, 1200), clip(&f1, 1200))),
    }
    let v2 = match outcome_v(ctx, &f1, "parse_vbox_using_cst∘format") {
        Ok(o) => o,
        Err(v) => return v,
    };
    match (&v_list, v2) {
        (Some(a), Outcome::List(b)) => {
            if *a != b {
                return Verdict::Fail(format!("as a vertical list: parse(format(text)) != parse(text)\n  {}\n  text: {}\n  format(text): {}", first_diff(&format!("{:?}", a), &format!("{:?}", b)), clip(text, 1200), clip(&f1, 1200)));
            }
        }
        (None, Outcome::Errors) => {}
        (Some(_), Outcome::Errors) => return Verdict::Fail(format!("text parses as a vertical list but format(text) does not\n  text: {}\n  format(text): {}", clip(text, 1200), clip(&f1, 1200))),
        (None, Outcome::List(_)) => return Verdict::Fail(format!("text has errors as a vertical list but format(text) parses as one\n  text: {}\n  format(text): {}", clip(text, 1200), clip(&f1, 1200))),
    }
    known.unwrap_or(Verdict::pass(nontrivial))
}

// ------------------------------------------------------------------------------------
// (iv) long and deeply nested texts on an ordinary stack
//
// The engine's workers run on 1 GiB stacks, and a stack overflow cannot be caught: it aborts the
// process. A real caller (`box check`, a test) parses on an 8 MiB main thread. So every probe is run
// in a child process (this executable, replaying the one case) on a thread with an 8 MiB stack; the
// child dying is reported as a violation of "arbitrary text yields a list or located errors".

#[derive(Clone, Debug, Serialize, Deserialize)]
pub struct ScaleCase {
    pub shape: String,
    pub prefix: String,
    /// repeated `times` times
    pub open: String,
    pub times: u32,
    pub middle: String,
    /// repeated `times` times
    pub close: String,
    pub suffix: String,
}

impl ScaleCase {
    fn text(&self) -> String {
        let n = self.times as usize;
        let mut s = String::with_capacity(self.prefix.len() + n * (self.open.len() + self.close.len()) + self.middle.len() + self.suffix.len());
        s.push_str(&self.prefix);
        for _ in 0..n {
            s.push_str(&self.open);
        }
        s.push_str(&self.middle);
        for _ in 0..n {
            s.push_str(&self.close);
        }
        s.push_str(&self.suffix);
        s
    }
    fn nesting(&self) -> bool {
        self.open.contains('[') || self.open.contains('(')
    }
}

const SCALE_STACK: usize = 8 << 20;
const SCALE_ENV: &str = "VP_C18_SCALE_INPROC";
pub const FLAG_DEEP_NESTING: &str = "flag:deep_nesting_overflows_the_stack";
pub const FLAG_INVALID_RUN: &str = "flag:invalid_character_run_overflows_the_stack";

/// (shape, prefix, open, middle, close, suffix, largest repetition count as a power of ten)
const SCALE_SHAPES: &[(&str, &str, &str, &str, &str, &str, u32)] = &[
    ("invalid_char_run", "", "@", "", "", "", 6),
    ("invalid_non_ascii_run", "", "\u{e9}", "", "", "", 5),
    ("invalid_chars_inside_call", "kern(", "$", "1pt", "", ")", 5),
    ("hbox_nest_balanced", "", "hbox(content=[", "chars(\"x\")", "])", "\n", 5),
    ("hbox_nest_unclosed", "", "hbox(content=[", "", "", "", 5),
    ("vbox_nest_balanced", "", "vbox(content=[", "kern(1pt)", "])", "\n", 5),
    ("disc_hbox_nest_balanced", "", "disc(pre_break=[hbox(content=[", "", "])])", "", 4),
    ("adjust_vbox_nest_balanced", "", "adjust(content=[vbox(content=[hbox(content=[", "", "])])])", "", 4),
    ("insertion_nest_balanced", "", "insertion(vbox=[", "", "])", "", 5),
    ("unknown_call_nest_balanced", "", "a(b=[", "", "])", "", 5),
    ("unknown_call_nest_unclosed", "", "a(b=[", "", "", "", 5),
    ("positional_list_nest", "", "a([", "", "])", "", 5),
    ("open_square_run", "", "[", "", "", "", 5),
    ("open_round_run", "", "(", "", "", "", 5),
    ("call_open_run", "", "a(", "", "", "", 5),
    ("close_square_run", "", "]", "", "", "", 6),
    ("close_round_run", "kern(1pt)", ")", "", "", "", 6),
    ("mismatched_nest", "", "a(b=[", "", ")]", "", 4),
    ("unterminated_u_escape_run", "", "\"\\u{", "", "", "", 5),
    ("bad_escape_run", "chars(\"", "\\a", "", "", "\")", 5),
    ("empty_comment_lines", "", "#\n", "kern(1pt)", "", "", 5),
    ("crlf_comment_lines", "", "# c\r\n", "kern(1pt)", "", "", 5),
    ("one_long_comment_no_newline", "kern(1pt) #", "c", "", "", "", 6),
    ("comments_inside_call", "glue(", "#c\n", "1pt", "", ")", 5),
    ("keyword_run", "", "a ", "", "", "", 5),
    ("missing_value_run", "glue(", "width= ", "", "", ")", 5),
    ("comma_run", "glue(", ",", "", "", ")", 5),
    ("too_many_positional", "glue(", "1pt,", "", "", ")", 5),
    ("long_flat_list", "", "kern(1pt)\n", "", "", "", 5),
    ("long_flat_list_one_line", "", "glue(1pt, 2fil, 3fill) ", "", "", "", 4),
    ("long_string", "chars(\"", "a", "", "", "\")\n", 6),
    ("long_escaped_string", "chars(\"", "\\u{1F600}", "", "", "\")\n", 5),
    ("long_hlist_in_hbox", "hbox(content=[", "chars(\"ab\", 1) ", "", "", "])\n", 4),
    ("long_disc_list", "disc(pre_break=[", "chars(\"ab\") kern(1sp) ", "", "", "])\n", 4),
    ("digit_run", "penalty(", "9", "", "", ")", 6),
    ("fraction_digit_run", "kern(1.", "0", "", "", "pt)", 6),
    ("unit_letter_run", "kern(1", "p", "", "", ")", 6),
    ("blank_lines", "kern(1pt)", "\n\n", "kern(2pt)", "", "\n", 5),
    ("many_arguments_multiline", "", "hbox(height=1pt, width=2pt, depth=3pt, shift_amount=4pt, glue_order=\"fil\")\n", "", "", "", 4),
];

/// `all_sizes`: every power of ten from 10^3 up to the shape's cap; otherwise (quick tier) only the largest
/// one up to 10^5. Texts stay below about 1.5 MB ("sizes a real file could have").
fn scale_cases(all_sizes: bool) -> Vec<ScaleCase> {
    let mut v = vec![];
    for &(shape, prefix, open, middle, close, suffix, cap) in SCALE_SHAPES {
        let pows: Vec<u32> = (3..=cap).filter(|p| (10usize.pow(*p)) * (open.len() + close.len()) <= 1_500_000).collect();
        let quick_top = pows.iter().copied().filter(|p| *p <= 5).max();
        for &pow in &pows {
            if !all_sizes && Some(pow) != quick_top {
                continue;
            }
            let times = 10u32.pow(pow);
            v.push(ScaleCase { shape: shape.into(), prefix: prefix.into(), open: open.into(), times, middle: middle.into(), close: close.into(), suffix: suffix.into() });
        }
    }
    v
}

/// Totality only, for texts nested so deeply that this file's own (recursive) comparisons would need
/// a big stack: every entry point returns, errors are located, format is idempotent. Results are
/// leaked rather than dropped (dropping a deeply nested value recurses as well; the child exits anyway).
fn totality_oracle(ctx: &Ctx, text: &str) -> Verdict {
    let shown = clip(text, 300);
    let located = |what: &str, r: Option<Result<(usize, String, Vec<(String, usize)>), String>>| -> Result<bool, Verdict> {
        match r {
            None => Ok(true),
            Some(Ok(_)) => Ok(false),
            Some(Err(m)) => Err(Verdict::Fail(format!("{what}: {m}\n  text: {shown}"))),
        }
    };
    let h_ok = match guard(ctx, "parse_horizontal_list", &shown, || {
        let r = lang::parse_horizontal_list(text);
        let e = r.as_ref().err().map(|e| check_errors(text, e));
        std::mem::forget(r);
        e
    }) {
        Ok(e) => match located("parse_horizontal_list", e) {
            Ok(b) => b,
            Err(v) => return v,
        },
        Err(v) => return v,
    };
    let _v_ok = match guard(ctx, "parse_vbox_using_cst", &shown, || {
        let errs: lang::ErrorAccumulator = Default::default();
        let v = ast::parse_vbox_using_cst(cst::parse(text, errs.clone()), &errs);
        let e = match errs.check() {
            Ok(()) => {
                std::mem::forget(v.to_boxworks());
                None
            }
            Err(e) => Some(check_errors(text, &e)),
        };
        std::mem::forget(v);
        e
    }) {
        Ok(e) => match located("parse_vbox_using_cst", e) {
            Ok(b) => b,
            Err(v) => return v,
        },
        Err(v) => return v,
    };
    match guard(ctx, "cst::Tree::build", &shown, || {
        let errs: lang::ErrorAccumulator = Default::default();
        let t = cst::Tree::build(cst::parse(text, errs.clone()));
        std::mem::forget(t);
        errs.check().err().map(|e| check_errors(text, &e))
    }) {
        Ok(e) => {
            if let Err(v) = located("cst::parse", e) {
                return v;
            }
        }
        Err(v) => return v,
    }
    let f1 = match guard(ctx, "format", &shown, || format_src(text)) {
        Ok(Parsed::Ok(s)) => s,
        Ok(Parsed::Errs(..)) => {
            if h_ok {
                return Verdict::Fail(format!("format rejects a text that parses\n  text: {shown}"));
            }
            return Verdict::pass(true);
        }
        Ok(Parsed::Bad(m)) => return Verdict::Fail(format!("format: {m}\n  text: {shown}")),
        Err(v) => return v,
    };
    match guard(ctx, "format∘format", &shown, || format_src(&f1)) {
        Ok(Parsed::Ok(f2)) => {
            if f2 != f1 {
                return Verdict::Fail(format!("format is not idempotent\n  {}\n  text: {shown}", first_diff(&f1, &f2)));
            }
        }
        Ok(_) => return Verdict::Fail(format!("format(text) is rejected by format\n  text: {shown}")),
        Err(v) => return v,
    }
    Verdict::pass(true)
}

/// Runs inside the child: the whole check of one text on a thread with an ordinary stack.
fn scale_inproc(ctx: &Ctx, c: &ScaleCase) -> Verdict {
    let text = c.text();
    let deep = bracket_depth(&text) > 64;
    let r = std::thread::scope(|s| {
        std::thread::Builder::new()
            .stack_size(SCALE_STACK)
            .spawn_scoped(s, || {
                if deep {
                    totality_oracle(ctx, &text)
                } else {
                    let t = TextCase { origin: "scale".into(), text: text.clone() };
                    text_oracle(ctx, &t, &mut Case::default(), None)
                }
            })
            .expect("spawn 8 MiB thread")
            .join()
    });
    match r {
        Ok(v) => v,
        Err(_) => Verdict::Fail(format!("panic escaped on the 8 MiB thread (shape {})", c.shape)),
    }
}

/// What became of the child process that checked one scale case.
pub struct ChildOut {
    code: Option<i32>,
    status: String,
    stdout: String,
    stderr: String,
}

/// Hands the case to a child process (this executable, `C18 --replay <file>`, with SCALE_ENV set).
fn scale_child(ctx: &Ctx, c: &ScaleCase) -> ChildOut {
    let body = serde_json::json!({"property": "C18", "sub": "scale_probes", "seed": 0, "tier": "quick", "message": "scale probe", "case": c});
    let text = serde_json::to_string(&body).expect("serialise");
    let path = std::env::temp_dir().join(format!("vp_c18_scale_{}_{:016x}.json", std::process::id(), fnv64(text.as_bytes())));
    if let Err(e) = std::fs::write(&path, &text) {
        eprintln!("C18 scale_probes: cannot write {}: {e}", path.display());
        std::process::exit(2);
    }
    let exe = std::env::current_exe().unwrap_or_else(|e| {
        eprintln!("C18 scale_probes: current_exe: {e}");
        std::process::exit(2)
    });
    let t0 = std::time::Instant::now();
    let out = std::process::Command::new(exe)
        .arg("C18")
        .arg("--replay")
        .arg(&path)
        .env(SCALE_ENV, "1")
        .env("VP_VERIF_DIR", &ctx.verif_dir)
        .stdin(std::process::Stdio::null())
        .output();
    let _ = std::fs::remove_file(&path);
    if std::env::var_os("VP_C18_SCALE_TIMING").is_some() {
        // debugging aid only: never part of a verdict
        eprintln!("scale {:>8.1} ms  {} x {}", t0.elapsed().as_secs_f64() * 1000.0, c.shape, c.times);
    }
    match out {
        Ok(o) => ChildOut { code: o.status.code(), status: format!("{}", o.status), stdout: String::from_utf8_lossy(&o.stdout).to_string(), stderr: String::from_utf8_lossy(&o.stderr).to_string() },
        Err(e) => {
            eprintln!("C18 scale_probes: cannot start the child process: {e}");
            std::process::exit(2);
        }
    }
}

fn scale_oracle(ctx: &Ctx, c: &ScaleCase, case: &mut Case, precomputed: Option<ChildOut>) -> Verdict {
    if std::env::var_os(SCALE_ENV).is_some() {
        return scale_inproc(ctx, c);
    }
    let bytes = c.prefix.len() + c.middle.len() + c.suffix.len() + c.times as usize * (c.open.len() + c.close.len());
    let note = format!("{}: {:?} + {:?} x {} + {:?} + {:?} x {} + {:?} ({} bytes)", c.shape, c.prefix, c.open, c.times, c.middle, c.close, c.times, c.suffix, bytes);
    case.note = Some(note.clone());
    case.class(if c.nesting() { "scale_nesting" } else { "scale_flat_run" });
    case.class_if(c.times >= 1_000, "scale_repeat>=10^3");
    case.class_if(c.times >= 10_000, "scale_repeat>=10^4");
    case.class_if(c.times >= 100_000, "scale_repeat>=10^5");
    case.class_if(c.times >= 1_000_000, "scale_repeat>=10^6");
    case.class_if(bytes >= 100_000, "scale_bytes>=10^5");
    case.class_if(bytes >= 1_000_000, "scale_bytes>=10^6");
    let out = precomputed.unwrap_or_else(|| scale_child(ctx, c));
    match out.code {
        Some(0) => {
            if let Some(l) = out.stdout.lines().find(|l| l.starts_with("KNOWN-FINDING")) {
                let sig = l.rsplit('[').next().unwrap_or("").trim_end_matches(']').to_string();
                return Verdict::Known(sig);
            }
            Verdict::pass(true)
        }
        Some(1) => {
            let m: String = out.stdout.lines().filter(|l| !l.starts_with("VIOLATION")).collect::<Vec<_>>().join("\n");
            Verdict::Fail(format!("{} [on a thread with an 8 MiB stack; {note}]", clip(&m, 3000)))
        }
        _ => {
            // killed by a signal (stack overflow: SIGABRT / SIGSEGV) or an unexpected status
            let overflow = out.stderr.contains("has overflowed its stack") || out.stderr.contains("stack overflow");
            let flag = if c.nesting() { FLAG_DEEP_NESTING } else { FLAG_INVALID_RUN };
            if overflow && ctx.known(flag) {
                return Verdict::Known(flag.into());
            }
            let tail: String = out.stderr.lines().rev().take(4).collect::<Vec<_>>().into_iter().rev().collect::<Vec<_>>().join(" | ");
            Verdict::Fail(format!(
                "parsing / formatting this text on a thread with an 8 MiB stack kills the process ({}; {}): {}\n  text = {note}",
                if overflow { "stack overflow, an abort that no caller can catch" } else { "abnormal end" },
                out.status,
                clip(&tail, 400),
            ))
        }
    }
}

// ------------------------------------------------------------------------------------
// Calibration on the repository's own texts

#[derive(Clone, Debug, Serialize, Deserialize)]
pub struct GoldenCase {
    pub text: String,
    /// whether the text parses as a horizontal list, where the repository states it
    #[serde(default)]
    pub expect_ok: Option<bool>,
    /// the list the text denotes, where the repository's tests / documentation state it
    pub expect: Option<Top>,
}

/// Texts whose meaning is stated in the repository (doc tests of lang/mod.rs, the type and parameter
/// tables of the language specification there, the boxworks-testing doc test). Dimensions in units
/// other than pt are the values TeX gives them (TeX.2021.458), computed by `tex_dimen`.
fn stated_meanings() -> Vec<(String, Top)> {
    let c = |c: char, font: u32| HNode::Char { c, font };
    let g = |w: i32, st: i32, sto: u8, sh: i32, sho: u8| GlueSpec { w, st, sto, sh, sho };
    let pt = 65536;
    let hb = |num: i32, den: i32| HNode::HBox(HBoxSpec { h: 0, w: 0, d: 0, shift: 0, num, den, order: 0, list: vec![] });
    let td = |i: &str, f: &str, u: &str| tex_dimen(i, f, u).expect("in range");
    vec![
        ("chars(\"A\", 1)".into(), Top::H(vec![c('A', 1)])),
        ("chars(font=2, content=\"B\")".into(), Top::H(vec![c('B', 2)])),
        ("chars(\"C\", font=3)".into(), Top::H(vec![c('C', 3)])),
        // the doc test of lang/mod.rs, whole: 0.075in is Scaled::new(0, [0,7,5], Inch), -0.1pt is -Scaled::new(0, [1], Point)
        (
            "\n    # The chars() function typesets characters.\n    chars(\"Box\")\n    # Glue can be added manually.\n    glue(1pt, 5fil, 0.075in)\n    # The following elements illustrate the prototypical example of a kern.\n    chars(\"A\")\n    kern(-0.1pt)\n    chars(\"V\")\n".into(),
            Top::H(vec![c('B', 0), c('o', 0), c('x', 0), HNode::Glue(g(pt, 5 * pt, 1, td("0", "075", "in"), 0)), c('A', 0), HNode::Kern(-td("0", "1", "pt")), c('V', 0)]),
        ),
        // 0.075in = 355207sp and 0.1pt = 6554sp by hand (TeX.2021.102, 458): pins `tex_dimen` itself
        ("kern(355207sp) kern(-6554sp)".into(), Top::H(vec![HNode::Kern(td("0", "075", "in")), HNode::Kern(-td("0", "1", "pt"))])),
        // type table: examples of each type
        ("kern(1pt) kern(2.04in) kern(-10sp)".into(), Top::H(vec![HNode::Kern(pt), HNode::Kern(td("2", "04", "in")), HNode::Kern(-10)])),
        ("glue(0pt, 1fil, -2fill) glue(0pt, 3filll)".into(), Top::H(vec![HNode::Glue(g(0, pt, 1, -2 * pt, 2)), HNode::Glue(g(0, 3 * pt, 3, 0, 0))])),
        ("penalty(123) penalty(-456)".into(), Top::H(vec![HNode::Penalty(123), HNode::Penalty(-456)])),
        ("lig(\"\u{f1}\")".into(), Top::H(vec![HNode::Lig(LigSpec { c: '\u{f1}', font: 0, orig: String::new(), left: false, right: false })])),
        ("hbox(glue_ratio=\"1.5\") hbox(glue_ratio=\"-0.25\")".into(), Top::H(vec![hb(3 * pt / 2, pt), hb(-pt / 4, pt)])),
        ("hbox(glue_order=\"normal\") rule(1pt, \"running\")".into(), Top::H(vec![hb(0, 1), HNode::Rule { h: pt, w: RUNNING, d: 0 }])),
        // "the allowable units are the same as in TeX": 1in = 72.27pt, 1cm = 7227/254 pt, ... (TeX.2021.458; the
        // sp values are the ones every TeX prints for these dimensions)
        (
            "kern(1in) kern(1cm) kern(1pc) kern(1mm) kern(1bp) kern(1dd) kern(1cc)".into(),
            Top::H(vec![HNode::Kern(4736286), HNode::Kern(1864679), HNode::Kern(786432), HNode::Kern(186467), HNode::Kern(65781), HNode::Kern(70124), HNode::Kern(841489)]),
        ),
        // Rust's \u{..} escape: 1-6 hex digits of either case
        ("chars(\"\\u{1F600}\\u{0041}\\u{e9}\")".into(), Top::H(vec![c('\u{1f600}', 0), c('A', 0), c('\u{e9}', 0)])),
        // chars adds one Char for each character, in discretionary lists too; none for an empty string
        ("disc(pre_break=[chars(\"ab\", 3) chars() chars(\"\", 5)])".into(), Top::H(vec![HNode::Disc { pre: vec![DNode::Char { c: 'a', font: 3 }, DNode::Char { c: 'b', font: 3 }], post: vec![], replace: 0 }])),
        // doc test of lang/mod.rs without the inch-valued shrink
        ("chars(\"Box\")\nglue(1pt, 5fil)\nchars(\"A\")\nkern(-0.5pt)\nchars(\"V\")\n".into(), Top::H(vec![c('B', 0), c('o', 0), c('x', 0), HNode::Glue(g(pt, 5 * pt, 1, 0, 0)), c('A', 0), HNode::Kern(-pt / 2), c('V', 0)])),
        // parameter tables: glue(width, stretch, shrink); rule(height, width, depth); lig(char, original_chars, font, ..)
        ("glue(1pt, 2fil, 3fill)".into(), Top::H(vec![HNode::Glue(g(pt, 2 * pt, 1, 3 * pt, 2))])),
        ("glue(shrink=3filll, width=1pt)".into(), Top::H(vec![HNode::Glue(g(pt, 0, 0, 3 * pt, 3))])),
        ("rule(1pt, 2pt, \"running\")".into(), Top::H(vec![HNode::Rule { h: pt, w: 2 * pt, d: RUNNING }])),
        ("lig(\"x\", \"fi\", 7)".into(), Top::H(vec![HNode::Lig(LigSpec { c: 'x', font: 7, orig: "fi".into(), left: false, right: false })])),
        ("penalty(-10000) kern(2sp) math(\"after\") mark()".into(), Top::H(vec![HNode::Penalty(-10000), HNode::Kern(2), HNode::Math { after: true }, HNode::Mark])),
        (
            "insertion(3, 1pt, 2pt, 3pt, 4fil, 5fill, 6, [kern(1pt)])".into(),
            Top::H(vec![HNode::Ins(InsSpec { box_number: 3, height: pt, split_max_depth: 2 * pt, skip: g(3 * pt, 4 * pt, 1, 5 * pt, 2), float_penalty: 6, vbox: vec![VNode::Kern(pt)] })]),
        ),
        (
            "hbox(1pt, 2pt, 3pt, 4pt, \"1.5\", \"fill\", [chars(\"a\")])".into(),
            Top::H(vec![HNode::HBox(HBoxSpec { h: pt, w: 2 * pt, d: 3 * pt, shift: 4 * pt, num: 3 * pt / 2, den: pt, order: 2, list: vec![c('a', 0)] })]),
        ),
        ("disc([chars(\"-\")], [kern(1pt)], 2)".into(), Top::H(vec![HNode::Disc { pre: vec![DNode::Char { c: '-', font: 0 }], post: vec![DNode::Kern(pt)], replace: 2 }])),
        // boxworks-testing doc test
        (
            "vbox(\n  content=[\n    hbox(\n      content=[\n        chars(\"AZ\", 33)\n      ]\n    )\n  ]\n)\n".into(),
            Top::H(vec![HNode::VBox(VBoxSpec { h: 0, w: 0, d: 0, shift: 0, list: vec![VNode::HBox(HBoxSpec { h: 0, w: 0, d: 0, shift: 0, num: 0, den: 1, order: 0, list: vec![c('A', 33), c('Z', 33)] })] })]),
        ),
    ]
}

/// The comment attribution cst.rs pins with its own tests (comment_1 .. comment_10, comment_in_empty_list),
/// as a calibration of `XTree` and of the renderer's model: (source, comments of f, of arg 1, of arg 2, trailing).
fn stated_comment_attribution() -> Vec<(&'static str, [&'static [&'static str]; 4])> {
    vec![
        ("f(3,key=4,)", [&[], &[], &[], &[]]),
        ("#X\nf(3,key=4,)", [&["X"], &[], &[], &[]]),
        ("f#X\n(3,key=4,)", [&["X"], &[], &[], &[]]),
        ("f(#X\n3,key=4,)", [&[], &["X"], &[], &[]]),
        ("f(3#X\n,key=4,)", [&[], &["X"], &[], &[]]),
        ("f(3,#X\nkey=4,)", [&[], &[], &["X"], &[]]),
        ("f(3,key#X\n=4,)", [&[], &[], &["X"], &[]]),
        ("f(3,key=#X\n4,)", [&[], &[], &["X"], &[]]),
        ("f(3,key=4#X\n,)", [&[], &[], &["X"], &[]]),
        ("f(3,key=4,#X\n)", [&[], &[], &[], &["X"]]),
        ("f(3,key=4#X\n)", [&[], &[], &["X"], &[]]),
    ]
}

fn golden_oracle(ctx: &Ctx, g: &GoldenCase, case: &mut Case) -> Verdict {
    let t = TextCase { origin: "golden".into(), text: g.text.clone() };
    let v = text_oracle(ctx, &t, case, g.expect_ok);
    if !matches!(v, Verdict::Pass { .. }) {
        return v;
    }
    // the explicit CST of the repository's comment tests
    for (src, [f, a1, a2, tr]) in stated_comment_attribution() {
        if g.text != src {
            continue;
        }
        let s = |v: &[&str]| v.iter().map(|x| x.to_string()).collect::<Vec<_>>();
        let want = XTree {
            calls: vec![XCall { comments: s(f), name: "f".into(), args: vec![XArg { comments: s(a1), key: None, value: XVal::Int(3) }, XArg { comments: s(a2), key: Some("key".into()), value: XVal::Int(4) }], trailing: s(tr) }],
            trailing: vec![],
        };
        match guard(ctx, "cst::Tree::build", &g.text, || explicit_cst(&g.text)) {
            Ok((x, _, _, _)) => {
                if x != want {
                    return Verdict::Fail(format!("explicit CST of {:?}: {}", g.text, first_diff(&format!("{:?}", want), &format!("{:?}", x))));
                }
                case.class("stated_comment_attribution");
            }
            Err(v) => return v,
        }
    }
    if g.expect_ok != Some(true) {
        return v;
    }
    let parsed = match parse_as(ctx, true, &g.text) {
        Ok(Ok(p)) => p,
        Ok(Err(e)) => return Verdict::Fail(e.text),
        Err(v) => return v,
    };
    if let Some(want) = &g.expect {
        let want = canon_top(want, Deviations::default()).expect("expressible");
        if parsed != want {
            return Verdict::Fail(format!("the text does not parse to the list the repository's documentation states\n  text: {}\n  {}", g.text, first_diff(&format!("{:?}", want), &format!("{:?}", parsed))));
        }
        case.class("stated_meaning");
    }
    let st = Stats::of(&parsed);
    Verdict::pass(st.nontrivial() || st.nodes > 0)
}

pub fn run(ctx: &Ctx) {
    run_fuzz_raw(ctx, fuzz_entry);
    ctx.rule(
        "roundtrip: recursive mirror trees of ds::Horizontal / ds::Vertical / discretionary lists (nesting <= 4, every node kind and field the language has syntax for, four value profiles) printed by three public paths and parsed back, compared with the library's PartialEq and strictly (glue ratios as exact rationals); \
         format_idempotent: the same trees rendered by an independent styled writer (blank lines, comments at every position and as the unterminated last line, CRLF, any Unicode whitespace, positional vs keyword, reordered keywords, omitted defaults, omitted commas, sp and every TeX unit, integer and long decimals, negative glue ratios, \\u{..} escapes of either case, merged and empty chars calls) with the list AND the explicit CST it must yield; \
         parser_total: token soups over the language's alphabet, token-level mutations of the repository's Box-language goldens and of generated output, numeric/escape boundary probes; every list a text parses to is printed and parsed back; \
         scale_probes: shapes of long runs and deep nesting (SCALE_SHAPES), 10^3..10^6 repetitions (texts up to ~1 MB), each in a child process on an 8 MiB stack. \
         non-trivial = nesting depth >= 2 or a character that needs an escape (or, for texts, a backslash / non-ASCII character) or a value at a limit (+-(2^30-1), +-(2^31-1), -2^31, running, font 2^31-1 / 2^31 / 2^32-1); distinct = by value",
    );
    ctx.assume("characters: every Unicode scalar except U+0022 (the property excludes it; the lexer does in fact accept \\\" )");
    ctx.assume("fonts, replace_count and float_penalty: the data structure's full u32 range (profile wide_int); values from 2^31 on are the ones the language writes as negative integers (chars(\"a\", -1) parses to font 2^32-1), so they are values the language can express. Styled sources (format_idempotent) write them in 0..=2^31-1 only, where the meaning of the numeral is not in doubt");
    ctx.assume("integers (penalty): every i32; the documented range is (-2^31, 2^31) and -2147483648 is accepted as well (profile wide_int and numeric probes)");
    ctx.assume("not generated because the language has no syntax for them (convert.rs): whatsits (todo!()), kern kinds other than Normal, glue kinds other than Normal, mark contents (ds::Mark.list is always read back empty), glue_ratio/glue_order of a vbox (ToBoxworks for ast::VBox fills them with defaults), ds::Math carries only before/after");
    ctx.assume("profile core (61% of trees): finite dimensions in [-(2^30-1), 2^30-1] (the documented TeX range), infinite-order stretch/shrink in [-(2^31-1), 2^31-1] (the lexer's range), glue ratios k/65536 with 0 <= k < 2^24; profiles wide_dim / wide_ratio (13% each): any i32 dimension / any ratio with a non-zero denominator. A wide value that no source text can carry (|dimension| >= 16384pt, |ratio| >= 16384) is outside 'every value the language can express': the printed text may then fail to parse, with exactly one 'number too large' / 'wrong type' error per such value and no other error");
    ctx.assume("glue ratio: the language's values are k/65536, |k| <= 2^30-1 (GlueRatio::from_float_str parses the string as a dimension in pt). A value single precision carries exactly reads back exactly; any other within 2^-17 + 2^-22 relative (TeX.2021.186 prints through a float, no particular arithmetic is demanded); the sign may be lost (TeX.2021.186 prints the magnitude and GlueRatio::eq, the library's equality, ignores it): counted as accepted:*");
    ctx.assume("error location = every label span satisfies start <= end <= len(source) and falls on UTF-8 character boundaries");
    ctx.assume("dimension spellings are read as TeX reads them (scan_dimen, TeX.2021.448-458, model tex_dimen written from the literate source and pinned by the repository's doc test 0.075in and by 1in=4736286sp .. 1cc=841489sp)");
    ctx.assume("explicit CST: comment attribution as documented by the field comments of cst::FuncCall / cst::Arg and pinned by the tests comment_0..10 and comment_in_empty_list of cst.rs; for list arguments (three TODO lines there) the same rule is applied by analogy");
    ctx.assume("format may answer Err for a text that does not parse and Ok for a text with recoverable errors; demanded: it answers Ok for every text that parses, is idempotent, and the text parses to the same list / fails to parse before and after");
    ctx.assume("scale probes: 'never a panic' includes the stack overflow of an ordinary 8 MiB thread (an abort is worse than a panic); sizes are those of a real file (<= ~1 MB). For nesting deeper than 64 brackets only totality, located errors and idempotence are checked");

    // Debugging aid (sensitivity runs): VP_C18_ONLY=<sub> restricts a generating run to one sub-check.
    let only = std::env::var("VP_C18_ONLY").ok();
    let want = |sub: &str| !ctx.is_generate() || only.as_deref().map(|o| o == sub).unwrap_or(true);

    // The scale probes run in child processes. A generating run starts them first, four at a time, next to
    // the other sub-checks (run_list would hand the short list to a single worker), and judges the
    // outcomes at the end.
    let scale = if want("scale_probes") { scale_cases(ctx.tier.pick(false, true)) } else { vec![] };
    let pre: Vec<std::sync::Mutex<Option<ChildOut>>> = scale.iter().map(|_| std::sync::Mutex::new(None)).collect();
    let ahead = ctx.is_generate() && std::env::var_os(SCALE_ENV).is_none() && !scale.is_empty();
    std::thread::scope(|s| {
        if ahead {
            for t in 0..4 {
                let (scale, pre) = (&scale, &pre);
                s.spawn(move || {
                    for i in (t..scale.len()).step_by(4) {
                        *pre[i].lock().unwrap() = Some(scale_child(ctx, &scale[i]));
                    }
                });
            }
        }
        // calibration
        if want("goldens") {
            let mut goldens: Vec<GoldenCase> = seeds().into_iter().map(|(text, expect_ok)| GoldenCase { text, expect_ok, expect: None }).collect();
            goldens.extend(stated_meanings().into_iter().map(|(text, top)| GoldenCase { text, expect_ok: Some(true), expect: Some(top) }));
            goldens.extend(stated_comment_attribution().into_iter().map(|(text, _)| GoldenCase { text: text.to_string(), expect_ok: Some(false), expect: None }));
            run_list(ctx, "goldens", goldens, |g: &GoldenCase, case| golden_oracle(ctx, g, case));
        }
        if want("roundtrip") {
            let n = ctx.tier.pick(150_000u64, 3_000_000u64);
            run_generated(ctx, "roundtrip", n, tree_strategy, |t: &TreeCase, case| roundtrip_oracle(ctx, t, case));
        }
        if want("format_idempotent") {
            let n = ctx.tier.pick(50_000u64, 1_000_000u64);
            run_generated(ctx, "format_idempotent", n, styled_strategy, |c: &StyledCase, case| format_oracle(ctx, c, case));
        }
        if want("parser_total") {
            let n = ctx.tier.pick(220_000u64, 5_000_000u64);
            run_generated(ctx, "parser_total", n, text_strategy, |t: &TextCase, case| text_oracle(ctx, t, case, None));
        }
    });
    if want("scale_probes") {
        let index = |c: &ScaleCase| scale.iter().position(|x| x.shape == c.shape && x.times == c.times);
        run_list(ctx, "scale_probes", scale.clone(), |c: &ScaleCase, case| {
            let got = index(c).and_then(|i| pre[i].lock().unwrap().take());
            scale_oracle(ctx, c, case, got)
        });
    }
}

/// Entry point shared by the libFuzzer target and the `fuzz_raw` replay sub-check.
pub fn fuzz_entry(ctx: &Ctx, data: &[u8]) -> Verdict {
    let t = TextCase { origin: "fuzz".to_string(), text: String::from_utf8_lossy(data).to_string() };
    text_oracle(ctx, &t, &mut Case::default(), None)
}
