//! C15 Packing a horizontal list produces TeX's box dimensions and glue setting.
//!
//! Generated horizontal lists × target widths are packed with `boxworks::ds::HBox::pack`
//! and compared with the reference `hpack` of `crate::models::hpack` (TeX §649–667 with
//! per-order totals, exact rationals).

use crate::engine::*;
use crate::models::hpack::{self as model, Deviations, Item, Packed, Sign, Target};
use boxworks::ds;
use common::{GlueOrder, Scaled};
use proptest::prelude::*;
use serde::{Deserialize, Serialize};

// -------------------------------------------------------------------------------------
// Case representation

const N_GLYPHS: usize = 6;
const PAL: usize = 3;

/// A stretch or shrink amount. `Pos(i)`/`Neg(i)` refer to the case's palette of
/// magnitudes so that exact cancellations (`+a −a`) and sums such as `a+a` are frequent.
#[derive(Clone, Copy, Debug, PartialEq, Eq, Serialize, Deserialize)]
pub enum Amt {
    Zero,
    Pos(u8),
    Neg(u8),
    Raw(i32),
}

impl Amt {
    fn resolve(self, pal: &[i32]) -> i32 {
        match self {
            Amt::Zero => 0,
            Amt::Pos(i) => pal[i as usize % pal.len()],
            Amt::Neg(i) => -pal[i as usize % pal.len()],
            Amt::Raw(v) => v,
        }
    }
    fn negated(self) -> Amt {
        match self {
            Amt::Zero => Amt::Zero,
            Amt::Pos(i) => Amt::Neg(i),
            Amt::Neg(i) => Amt::Pos(i),
            Amt::Raw(v) => Amt::Raw(-v),
        }
    }
}

#[derive(Clone, Debug, PartialEq, Eq, Serialize, Deserialize)]
pub struct BoxSpec {
    pub h: i32,
    pub w: i32,
    pub d: i32,
    pub shift: i32,
    /// Selects a small canned inner list (irrelevant to the enclosing `hpack`).
    pub fill: u8,
}

/// Nodes that may also occur inside a discretionary.
#[derive(Clone, Debug, PartialEq, Eq, Serialize, Deserialize)]
pub enum Elem {
    Char(u8),
    Lig { glyph: u8, orig: String, left: bool, right: bool },
    Kern { w: i32, kind: u8 },
    /// `None` = running dimension (the width never runs in an hlist).
    Rule { h: Option<i32>, w: i32, d: Option<i32> },
    HBox(BoxSpec),
    VBox(BoxSpec),
}

#[derive(Clone, Debug, PartialEq, Eq, Serialize, Deserialize)]
pub enum Node {
    E(Elem),
    Glue { w: i32, st: Amt, sto: u8, sh: Amt, sho: u8, kind: u8 },
    Penalty(i32),
    /// A discretionary followed by its `replace` nodes (replace_count = their number).
    Disc { pre: Vec<Elem>, post: Vec<Elem>, replace: Vec<Elem> },
}

#[derive(Clone, Copy, Debug, PartialEq, Eq, Serialize, Deserialize)]
pub enum Base {
    /// total stretch of TeX's stretch order (highest order with a non-zero total)
    StretchTop,
    /// total shrink of TeX's shrink order
    ShrinkTop,
    Stretch(u8),
    Shrink(u8),
}

/// Target width = natural width + `sign`·total(`base`) + `off`, requested as `Exact`
/// (`\hbox to`) or `Additional` (`\hbox spread`). sign = 0, off = 0 is the natural width.
#[derive(Clone, Copy, Debug, PartialEq, Eq, Serialize, Deserialize)]
pub struct TargetSpec {
    pub base: Base,
    pub sign: i8,
    pub off: i32,
    pub exact: bool,
}

#[derive(Clone, Debug, PartialEq, Eq, Serialize, Deserialize)]
pub struct HpackCase {
    /// Synthetic font metrics: glyph i is character `'a'+i` of font `i % 3`, [width, height, depth].
    pub glyphs: Vec<[i32; 3]>,
    /// Magnitudes referred to by `Amt::Pos`/`Amt::Neg`.
    pub palette: Vec<i32>,
    pub nodes: Vec<Node>,
    pub target: TargetSpec,
}

// -------------------------------------------------------------------------------------
// Case -> boxworks data structures

fn glyph_id(i: u8, n: usize) -> (char, u32) {
    let i = i as usize % n.max(1);
    ((b'a' + i as u8) as char, (i % 3) as u32)
}

struct SynthRepo {
    glyphs: Vec<[i32; 3]>,
}

impl SynthRepo {
    fn get(&self, c: char, font: u32) -> Option<[i32; 3]> {
        let i = (c as u32).checked_sub('a' as u32)? as usize;
        if i < self.glyphs.len() && (i % 3) as u32 == font {
            Some(self.glyphs[i])
        } else {
            None
        }
    }
}

// Only the three required methods are implemented, so `pack` goes through the trait's
// provided `width_height_depth` (anchored code in boxworks/src/lib.rs).
impl boxworks::FontRepo for SynthRepo {
    fn width(&self, c: char, font: u32) -> Option<Scaled> {
        self.get(c, font).map(|g| Scaled(g[0]))
    }
    fn height(&self, c: char, font: u32) -> Option<Scaled> {
        self.get(c, font).map(|g| Scaled(g[1]))
    }
    fn depth(&self, c: char, font: u32) -> Option<Scaled> {
        self.get(c, font).map(|g| Scaled(g[2]))
    }
}

fn glue_order(o: u8) -> GlueOrder {
    match o % 4 {
        0 => GlueOrder::Normal,
        1 => GlueOrder::Fil,
        2 => GlueOrder::Fill,
        _ => GlueOrder::Filll,
    }
}

fn kern_kind(k: u8) -> ds::KernKind {
    match k % 4 {
        0 => ds::KernKind::Normal,
        1 => ds::KernKind::Explicit,
        2 => ds::KernKind::Accent,
        _ => ds::KernKind::Math,
    }
}

fn inner_hlist(fill: u8) -> Vec<ds::Horizontal> {
    let pool: [ds::Horizontal; 4] = [
        ds::Char { char: 'a', font: 0 }.into(),
        ds::Kern { width: Scaled(fill as i32 * 1000), kind: ds::KernKind::Normal }.into(),
        ds::Glue::from(common::Glue { width: Scaled::ONE, stretch: Scaled::ONE, stretch_order: GlueOrder::Fil, ..Default::default() }).into(),
        ds::Penalty(fill as i32).into(),
    ];
    (0..(fill % 4) as usize).map(|k| pool[(fill as usize / 4 + k) % 4].clone()).collect()
}

fn inner_vlist(fill: u8) -> Vec<ds::Vertical> {
    let pool: [ds::Vertical; 4] = [
        ds::Rule { height: Scaled(26214), width: ds::Rule::RUNNING, depth: Scaled(0) }.into(),
        ds::Kern { width: Scaled(fill as i32 * 1000), kind: ds::KernKind::Explicit }.into(),
        ds::Glue::from(common::Glue { width: Scaled::ONE, shrink: Scaled::ONE, ..Default::default() }).into(),
        ds::HBox::default().into(),
    ];
    (0..(fill % 4) as usize).map(|k| pool[(fill as usize / 4 + k) % 4].clone()).collect()
}

fn inner_set(fill: u8) -> (ds::GlueRatio, GlueOrder) {
    if fill % 2 == 1 {
        (ds::GlueRatio { num: Scaled(fill as i32), den: Scaled(7) }, glue_order(fill / 2))
    } else {
        (ds::GlueRatio::default(), GlueOrder::Normal)
    }
}

fn elem_to_ds(e: &Elem, n_glyphs: usize) -> ds::DiscretionaryElem {
    use ds::DiscretionaryElem as D;
    match e {
        Elem::Char(g) => {
            let (char, font) = glyph_id(*g, n_glyphs);
            D::Char(ds::Char { char, font })
        }
        Elem::Lig { glyph, orig, left, right } => {
            let (char, font) = glyph_id(*glyph, n_glyphs);
            D::Ligature(ds::Ligature { char, font, original_chars: orig.as_str().into(), includes_left_boundary: *left, includes_right_boundary: *right })
        }
        Elem::Kern { w, kind } => D::Kern(ds::Kern { width: Scaled(*w), kind: kern_kind(*kind) }),
        Elem::Rule { h, w, d } => D::Rule(ds::Rule {
            height: h.map(Scaled).unwrap_or(ds::Rule::RUNNING),
            width: Scaled(*w),
            depth: d.map(Scaled).unwrap_or(ds::Rule::RUNNING),
        }),
        Elem::HBox(b) => {
            let (glue_ratio, glue_order) = inner_set(b.fill);
            D::HBox(ds::HBox {
                height: Scaled(b.h),
                width: Scaled(b.w),
                depth: Scaled(b.d),
                shift_amount: Scaled(b.shift),
                list: inner_hlist(b.fill),
                glue_ratio,
                glue_order,
            })
        }
        Elem::VBox(b) => {
            let (glue_ratio, glue_order) = inner_set(b.fill);
            D::VBox(ds::VBox {
                height: Scaled(b.h),
                width: Scaled(b.w),
                depth: Scaled(b.d),
                shift_amount: Scaled(b.shift),
                list: inner_vlist(b.fill),
                glue_ratio,
                glue_order,
            })
        }
    }
}

fn glue_kind(k: u8) -> ds::GlueKind {
    match k % 3 {
        0 => ds::GlueKind::Normal,
        1 => ds::GlueKind::ConditionalMath,
        _ => ds::GlueKind::Math,
    }
}

fn build_list(c: &HpackCase) -> Vec<ds::Horizontal> {
    let n = c.glyphs.len();
    let mut out: Vec<ds::Horizontal> = vec![];
    for node in &c.nodes {
        match node {
            Node::E(e) => out.push(elem_to_ds(e, n).into()),
            Node::Glue { w, st, sto, sh, sho, kind } => out.push(
                ds::Glue {
                    value: common::Glue {
                        width: Scaled(*w),
                        stretch: Scaled(st.resolve(&c.palette)),
                        stretch_order: glue_order(*sto),
                        shrink: Scaled(sh.resolve(&c.palette)),
                        shrink_order: glue_order(*sho),
                    },
                    kind: glue_kind(*kind),
                }
                .into(),
            ),
            Node::Penalty(p) => out.push(ds::Penalty(*p).into()),
            Node::Disc { pre, post, replace } => {
                out.push(
                    ds::Discretionary {
                        pre_break: pre.iter().map(|e| elem_to_ds(e, n)).collect(),
                        post_break: post.iter().map(|e| elem_to_ds(e, n)).collect(),
                        replace_count: replace.len() as u32,
                    }
                    .into(),
                );
                for e in replace {
                    out.push(elem_to_ds(e, n).into());
                }
            }
        }
    }
    out
}

// -------------------------------------------------------------------------------------
// Readable rendering

fn sp(v: i64) -> String {
    if v != 0 && v % 65536 == 0 {
        format!("{}pt", v / 65536)
    } else {
        format!("{}sp", v)
    }
}

fn render_items(list: &[ds::Horizontal], items: &[Item]) -> String {
    let mut s = String::new();
    for (n, it) in list.iter().zip(items) {
        if !s.is_empty() {
            s.push(' ');
        }
        use ds::Horizontal as H;
        let tag = match n {
            H::Char(_) => "char",
            H::Ligature(_) => "lig",
            H::HBox(_) => "hbox",
            H::VBox(_) => "vbox",
            H::Rule(_) => "rule",
            H::Kern(_) => "kern",
            H::Glue(_) => "glue",
            H::Penalty(_) => "penalty",
            H::Discretionary(d) => {
                s.push_str(&format!("disc[{}|{}|{}]", d.pre_break.len(), d.post_break.len(), d.replace_count));
                continue;
            }
            _ => "?",
        };
        match *it {
            Item::Char { w, h, d } => s.push_str(&format!("{tag}(w{} h{} d{})", sp(w), sp(h), sp(d))),
            Item::Box { w, h, d, shift } => s.push_str(&format!("{tag}(h{} w{} d{} shift{})", sp(h), sp(w), sp(d), sp(shift))),
            Item::Rule { w, h, d } => {
                let r = |v: i64| if v <= model::NULL_FLAG { "*".to_string() } else { sp(v) };
                s.push_str(&format!("{tag}(h{} w{} d{})", r(h), sp(w), r(d)))
            }
            Item::Kern { w } => s.push_str(&format!("{tag}({})", sp(w))),
            Item::Glue { w, stretch, stretch_order, shrink, shrink_order, .. } => {
                let inf = |v: i64, o: usize| {
                    if o == 0 {
                        sp(v)
                    } else if v % 65536 == 0 {
                        format!("{}{}", v / 65536, model::order_name(o))
                    } else {
                        format!("{}/65536{}", v, model::order_name(o))
                    }
                };
                s.push_str(&format!("{tag}({} plus {} minus {})", sp(w), inf(stretch, stretch_order), inf(shrink, shrink_order)))
            }
            Item::Nothing => s.push_str(tag),
        }
    }
    s
}

// -------------------------------------------------------------------------------------
// Case classification (what the generator reaches; the non-triviality rule)

#[derive(Default, Debug, Clone, Copy)]
struct Shape {
    mixed: bool,
    cancel: bool,
    boundary: bool,
}

fn analyze(items: &[Item], p: &Packed, case: &mut Case) -> Shape {
    let mut sh = Shape::default();
    let mut present = [[0u32; 4]; 2]; // [stretch|shrink][order]
    let mut any_flex = false;
    for it in items {
        match *it {
            Item::Glue { stretch, stretch_order, shrink, shrink_order, .. } => {
                if stretch_order > 0 || stretch != 0 {
                    present[0][stretch_order] += 1;
                }
                if shrink_order > 0 || shrink != 0 {
                    present[1][shrink_order] += 1;
                }
                if stretch != 0 || shrink != 0 {
                    any_flex = true;
                }
                case.class_if(stretch_order > 0 && stretch == 0 || shrink_order > 0 && shrink == 0, "node:glue 0fil/0fill/0filll");
                case.class_if(stretch < 0 || shrink < 0, "node:glue negative stretch/shrink");
            }
            Item::Box { shift, .. } => {
                case.class_if(shift > 0, "node:box shifted down");
                case.class_if(shift < 0, "node:box shifted up");
                case.class_if(shift == 0, "node:box unshifted");
            }
            Item::Rule { h, d, .. } => {
                case.class_if(h <= model::NULL_FLAG || d <= model::NULL_FLAG, "node:rule running");
                case.class_if(h > model::NULL_FLAG && d > model::NULL_FLAG, "node:rule fixed");
            }
            Item::Char { .. } => case.class("node:char/ligature"),
            Item::Kern { .. } => case.class("node:kern"),
            Item::Nothing => case.class("node:penalty/discretionary"),
        }
    }
    let side = if p.excess > 0 {
        Some((0usize, &p.total_stretch))
    } else if p.excess < 0 {
        Some((1usize, &p.total_shrink))
    } else {
        None
    };
    if let Some((s, totals)) = side {
        let kinds = (0..4).filter(|&k| present[s][k] > 0).count();
        sh.mixed = kinds >= 2;
        sh.cancel = (0..4).any(|k| present[s][k] > 0 && totals[k] == 0);
        // The cancelled/zero order lies above TeX's order: the D24 shape.
        case.class_if((0..4).any(|k| present[s][k] > 0 && totals[k] == 0 && k > p.glue_order) && p.is_set(), "zero total above the order TeX uses");
    }
    if p.excess.abs() <= 1 && any_flex {
        sh.boundary = true;
        case.class_if(p.excess == 0, "boundary: excess = 0 with flexible glue");
        case.class_if(p.excess.abs() == 1, "boundary: excess = ±1sp with flexible glue");
    }
    if p.is_set() {
        let gap = p.excess.abs() - p.active_total.abs();
        if gap.abs() <= 1 {
            sh.boundary = true;
            case.class_if(gap == 0, "boundary: |excess| = |total| (ratio exactly 1)");
            case.class_if(gap != 0, "boundary: |excess| = |total| ± 1sp");
        }
    }
    case.class_if(sh.mixed, "nontrivial: two orders on the active side");
    case.class_if(sh.cancel, "nontrivial: a present order has zero total");
    case.class_if(sh.boundary, "nontrivial: exact-boundary target");
    case.class(match (p.excess > 0, p.excess < 0) {
        (true, _) => "excess > 0",
        (_, true) => "excess < 0",
        _ => "excess = 0",
    });
    case.class(match p.glue_sign {
        Sign::Normal if p.excess == 0 => "result: natural (nothing to set)",
        Sign::Normal => "result: unset although excess != 0",
        Sign::Stretching => "result: stretching",
        Sign::Shrinking if p.overfull => "result: overfull (ratio 1)",
        Sign::Shrinking => "result: shrinking",
    });
    if p.is_set() {
        case.class(["order: normal", "order: fil", "order: fill", "order: filll"][p.glue_order]);
        case.class_if(p.active_total < 0, "set on a negative total");
    }
    case.class_if(p.underfull_at(1000), "underfull at \\hbadness=1000");
    case.class_if(p.overfull_branch && !p.overfull, "too wide with zero shrinkability (unset)");
    sh
}

// -------------------------------------------------------------------------------------
// Oracle

fn flag_subsets(ctx: &Ctx) -> Vec<(Deviations, String)> {
    let listed: Vec<&'static str> = Deviations::FLAG_NAMES.iter().copied().filter(|f| ctx.known(&format!("flag:{f}"))).collect();
    let mut out = vec![];
    // smallest subsets first
    for size in 1..=listed.len() {
        for mask in 1u32..(1 << listed.len()) {
            if mask.count_ones() as usize != size {
                continue;
            }
            let mut d = Deviations::NONE;
            let mut names = vec![];
            for (i, f) in listed.iter().enumerate() {
                if mask & (1 << i) != 0 {
                    d = d.with_flag(f);
                    names.push(format!("flag:{f}"));
                }
            }
            out.push((d, names.join("+")));
        }
    }
    out
}

/// Compare `HBox::pack` with the model on one list and target. Shared by every sub-check.
fn check_pack<F: boxworks::FontRepo>(
    ctx: &Ctx,
    repo: &F,
    list: &[ds::Horizontal],
    items: &[Item],
    target: Target,
    want: &Packed,
    describe: &dyn Fn() -> String,
) -> Result<(), Verdict> {
    let pack_width = match target {
        Target::Exact(w) => ds::PackWidth::Exact(Scaled(w as i32)),
        Target::Additional(a) => ds::PackWidth::Additional(Scaled(a as i32)),
    };
    let input = list.to_vec();
    let got = panics::catch(|| ds::HBox::pack(repo, input, pack_width));
    let got = match got {
        Ok(b) => b,
        Err(info) => {
            // A listed deviation may drive the implementation's 32-bit sums out of range.
            if info.message.contains("overflow") {
                for (dev, sig) in flag_subsets(ctx) {
                    if model::hpack(items, target, dev).is_err() {
                        return Err(Verdict::Known(sig));
                    }
                }
            }
            return Err(Verdict::Fail(format!("HBox::pack panicked at {}: {}\n{}", info.site(), info.message, describe())));
        }
    };
    // hpack returns the list it was given (list_ptr(r):=p) in a box that is not shifted.
    if got.list.len() != list.len() || got.list.iter().zip(list).any(|(a, b)| a != b) {
        return Err(Verdict::Fail(format!("the packed box does not contain the input list unchanged\n{}", describe())));
    }
    if got.shift_amount != Scaled::ZERO {
        return Err(Verdict::Fail(format!("shift_amount of a fresh box is {}sp, TeX 0\n{}", got.shift_amount.0, describe())));
    }
    match model::compare_box(want, &got) {
        Ok(()) => Ok(()),
        Err(why) => {
            for (dev, sig) in flag_subsets(ctx) {
                if let Ok(p2) = model::hpack(items, target, dev) {
                    if model::compare_box(&p2, &got).is_ok() {
                        return Err(Verdict::Known(sig));
                    }
                }
            }
            Err(Verdict::Fail(format!(
                "{why}\n{}\nimplementation: width {}sp height {}sp depth {}sp order {:?} ratio {}/{}\nTeX:            width {}sp height {}sp depth {}sp order {} {}",
                describe(),
                got.width.0,
                got.height.0,
                got.depth.0,
                got.glue_order,
                got.glue_ratio.num.0,
                got.glue_ratio.den.0,
                want.width,
                want.height,
                want.depth,
                model::order_name(want.glue_order),
                match want.glue_sign {
                    Sign::Normal => "unset".to_string(),
                    Sign::Stretching => format!("stretching {}/{}", want.set_num, want.set_den),
                    Sign::Shrinking => format!("shrinking {}/{}{}", want.set_num, want.set_den, if want.overfull { " (overfull)" } else { "" }),
                },
            )))
        }
    }
}

fn oracle(ctx: &Ctx, c: &HpackCase, case: &mut Case) -> Verdict {
    if c.glyphs.is_empty() || c.palette.is_empty() || c.glyphs.len() > 26 {
        return Verdict::Skip("malformed case (no glyphs or palette)");
    }
    let repo = SynthRepo { glyphs: c.glyphs.clone() };
    let list = build_list(c);
    let items = match model::items_from_ds(&repo, &list) {
        Ok(i) => i,
        Err(_) => return Verdict::Skip("character without metrics"),
    };
    // Natural width and totals, to resolve the target specification.
    let Ok(p0) = model::hpack(&items, Target::Additional(0), Deviations::NONE) else {
        return Verdict::Skip("a sum exceeds 31 bits");
    };
    let t = c.target;
    let total = match t.base {
        Base::StretchTop => p0.total_stretch[(0..4).rev().find(|&k| p0.total_stretch[k] != 0).unwrap_or(0)],
        Base::ShrinkTop => p0.total_shrink[(0..4).rev().find(|&k| p0.total_shrink[k] != 0).unwrap_or(0)],
        Base::Stretch(k) => p0.total_stretch[k as usize % 4],
        Base::Shrink(k) => p0.total_shrink[k as usize % 4],
    };
    let delta = (t.sign.signum() as i64) * total + t.off as i64;
    let fits = |v: i64| v > i32::MIN as i64 && v <= i32::MAX as i64;
    if !fits(delta) || !fits(p0.natural_width + delta) {
        return Verdict::Skip("a sum exceeds 31 bits");
    }
    let target = if t.exact { Target::Exact(p0.natural_width + delta) } else { Target::Additional(delta) };
    let Ok(want) = model::hpack(&items, target, Deviations::NONE) else {
        return Verdict::Skip("a sum exceeds 31 bits");
    };
    case.class(if delta == 0 && !t.exact {
        "target: natural"
    } else if t.exact {
        "target: exact"
    } else {
        "target: additional"
    });
    case.class_if(list.is_empty(), "empty list");
    let shape = analyze(&items, &want, case);
    let describe = || {
        format!(
            "list: [{}]\ntarget: {} (natural width {}sp, excess {}sp)",
            render_items(&list, &items),
            match target {
                Target::Exact(w) => format!("to {}sp", w),
                Target::Additional(a) => format!("spread {}sp", a),
            },
            want.natural_width,
            want.excess
        )
    };
    case.note = Some(describe());
    case.classes.sort();
    case.classes.dedup();
    let nontrivial = !items.is_empty() && (shape.mixed || shape.cancel || shape.boundary);
    match check_pack(ctx, &repo, &list, &items, target, &want, &describe) {
        Ok(()) => Verdict::pass(nontrivial),
        Err(v) => v,
    }
}

// -------------------------------------------------------------------------------------
// Strategies

fn dim() -> BoxedStrategy<i32> {
    prop_oneof![
        2 => Just(0),
        3 => -8i32..=8,
        4 => (-20i32..=200).prop_map(|k| k * 65536),
        2 => -(1i32 << 24)..=(1i32 << 24),
    ]
    .boxed()
}

/// Heights and depths: mostly non-negative.
fn hd() -> BoxedStrategy<i32> {
    prop_oneof![
        2 => Just(0),
        3 => 0i32..=8,
        4 => (0i32..=30).prop_map(|k| k * 65536),
        2 => 0i32..=(1i32 << 24),
        1 => -(1i32 << 20)..0i32,
    ]
    .boxed()
}

fn shift() -> BoxedStrategy<i32> {
    prop_oneof![
        3 => Just(0),
        2 => 1i32..=8,
        2 => -8i32..=-1,
        2 => (1i32..=30).prop_map(|k| k * 65536),
        2 => (1i32..=30).prop_map(|k| -k * 65536),
        1 => -(1i32 << 24)..=(1i32 << 24),
    ]
    .boxed()
}

fn amt() -> BoxedStrategy<Amt> {
    prop_oneof![
        3 => Just(Amt::Zero),
        5 => (0..PAL as u8).prop_map(Amt::Pos),
        3 => (0..PAL as u8).prop_map(Amt::Neg),
        2 => dim().prop_map(Amt::Raw),
    ]
    .boxed()
}

fn order(finite_only: bool) -> BoxedStrategy<u8> {
    if finite_only {
        Just(0u8).boxed()
    } else {
        prop_oneof![5 => Just(0u8), 3 => Just(1u8), 2 => Just(2u8), 1 => Just(3u8)].boxed()
    }
}

fn box_spec() -> BoxedStrategy<BoxSpec> {
    (hd(), dim(), hd(), shift(), any::<u8>()).prop_map(|(h, w, d, shift, fill)| BoxSpec { h, w, d, shift, fill }).boxed()
}

/// `boxy` = 0: no boxes or rules; 1: everything; 2: mostly boxes and rules.
fn elem(boxy: u8) -> BoxedStrategy<Elem> {
    let ch = (0..N_GLYPHS as u8).prop_map(Elem::Char).boxed();
    let lig = ((0..N_GLYPHS as u8), "[a-f]{0,3}", any::<bool>(), any::<bool>()).prop_map(|(glyph, orig, left, right)| Elem::Lig { glyph, orig, left, right }).boxed();
    let kern = (dim(), 0u8..4).prop_map(|(w, kind)| Elem::Kern { w, kind }).boxed();
    let rule = (proptest::option::weighted(0.7, hd()), dim(), proptest::option::weighted(0.7, hd())).prop_map(|(h, w, d)| Elem::Rule { h, w, d }).boxed();
    let hbox = box_spec().prop_map(Elem::HBox).boxed();
    let vbox = box_spec().prop_map(Elem::VBox).boxed();
    match boxy {
        0 => prop_oneof![5 => ch, 2 => lig, 3 => kern].boxed(),
        1 => prop_oneof![4 => ch, 2 => lig, 3 => kern, 3 => rule, 3 => hbox, 2 => vbox].boxed(),
        _ => prop_oneof![1 => ch, 1 => kern, 4 => rule, 4 => hbox, 3 => vbox].boxed(),
    }
}

fn glue_node(finite_only: bool) -> BoxedStrategy<Node> {
    (dim(), amt(), order(finite_only), amt(), order(finite_only), 0u8..3).prop_map(|(w, st, sto, sh, sho, kind)| Node::Glue { w, st, sto, sh, sho, kind }).boxed()
}

fn penalty() -> BoxedStrategy<Node> {
    prop_oneof![3 => -10001i32..=10001, 1 => any::<i32>()].prop_map(Node::Penalty).boxed()
}

fn disc(boxy: u8) -> BoxedStrategy<Node> {
    // pre- and post-break material is invisible to hpack: let it contain anything.
    (proptest::collection::vec(elem(1), 0..3), proptest::collection::vec(elem(1), 0..3), proptest::collection::vec(elem(boxy), 0..3))
        .prop_map(|(pre, post, replace)| Node::Disc { pre, post, replace })
        .boxed()
}

/// One or two nodes; the two-node form is an exactly cancelling pair of glue items.
fn chunk(boxy: u8, finite_only: bool) -> BoxedStrategy<Vec<Node>> {
    let (we, wg) = match boxy {
        0 => (5, 7),
        1 => (7, 5),
        _ => (8, 3),
    };
    let single = prop_oneof![
        we => elem(boxy).prop_map(Node::E),
        wg => glue_node(finite_only),
        1 => penalty(),
        1 => disc(boxy),
    ];
    let pair = (dim(), dim(), amt(), order(finite_only), amt(), order(finite_only)).prop_map(|(w1, w2, st, sto, sh, sho)| {
        vec![Node::Glue { w: w1, st, sto, sh, sho, kind: 0 }, Node::Glue { w: w2, st: st.negated(), sto, sh: sh.negated(), sho, kind: 0 }]
    });
    prop_oneof![12 => single.prop_map(|n| vec![n]), 1 => pair].boxed()
}

fn nodes(max_chunks: usize) -> BoxedStrategy<Vec<Node>> {
    let list = |boxy: u8, finite_only: bool| proptest::collection::vec(chunk(boxy, finite_only), 0..=max_chunks).prop_map(|v| v.into_iter().flatten().collect::<Vec<Node>>());
    // (no boxes/rules | everything | mostly boxes and rules) × (all four orders | finite glue only)
    prop_oneof![6 => list(0, false), 2 => list(0, true), 5 => list(1, false), 1 => list(1, true), 2 => list(2, false)].boxed()
}

fn target_spec() -> BoxedStrategy<TargetSpec> {
    let base = prop_oneof![
        3 => Just(Base::StretchTop),
        3 => Just(Base::ShrinkTop),
        1 => (0u8..4).prop_map(Base::Stretch),
        1 => (0u8..4).prop_map(Base::Shrink),
    ];
    let sign = prop_oneof![2 => Just(0i8), 3 => Just(1i8), 3 => Just(-1i8)];
    let off = prop_oneof![
        5 => Just(0i32),
        2 => Just(1i32),
        2 => Just(-1i32),
        2 => -(1i32 << 20)..=(1i32 << 20),
        1 => dim(),
    ];
    (base, sign, off, any::<bool>()).prop_map(|(base, sign, off, exact)| TargetSpec { base, sign, off, exact }).boxed()
}

fn palette() -> BoxedStrategy<Vec<i32>> {
    let mag = prop_oneof![3 => 1i32..=6, 4 => (1i32..=30).prop_map(|k| k * 65536), 2 => 1i32..=(1i32 << 24)];
    proptest::collection::vec(mag, PAL).boxed()
}

fn glyphs() -> BoxedStrategy<Vec<[i32; 3]>> {
    let w = prop_oneof![1 => Just(0i32), 6 => 1i32..=(20 * 65536), 1 => -65536i32..0];
    proptest::collection::vec((w, hd(), hd()).prop_map(|(w, h, d)| [w, h, d]), N_GLYPHS).boxed()
}

pub fn case_strategy(max_chunks: usize) -> impl Strategy<Value = HpackCase> {
    (glyphs(), palette(), nodes(max_chunks), target_spec()).prop_map(|(glyphs, palette, nodes, target)| HpackCase { glyphs, palette, nodes, target })
}

// -------------------------------------------------------------------------------------
// Exhaustive small scope: every list of up to L glue items over 16 stretch "sides"
// (amount ∈ {0, 1, −1, 2} sp × four orders) × every excess in −5..=5 × {exact, additional}.
// The shrink side of item j is the (bijectively re-labelled) stretch side of item L−1−j,
// so both sides run through all combinations while differing from each other.

const SIDE_AMOUNTS: [i32; 4] = [0, 1, -1, 2];

fn small_total(max_len: u32) -> u64 {
    let lists: u64 = (0..=max_len).map(|l| 16u64.pow(l)).sum();
    lists * 22
}

fn small_case(mut i: u64) -> HpackCase {
    let t = i % 22;
    i /= 22;
    let exact = t % 2 == 1;
    let off = (t / 2) as i32 - 5;
    let mut len = 0u32;
    while i >= 16u64.pow(len) {
        i -= 16u64.pow(len);
        len += 1;
    }
    let mut sides = vec![];
    for _ in 0..len {
        sides.push((i % 16) as usize);
        i /= 16;
    }
    let mut nodes = vec![Node::E(Elem::Kern { w: 3, kind: 1 })];
    for j in 0..sides.len() {
        let s = sides[j];
        let r = (sides[sides.len() - 1 - j] * 5 + 3) % 16;
        nodes.push(Node::Glue {
            w: 1,
            st: Amt::Raw(SIDE_AMOUNTS[s % 4]),
            sto: (s / 4) as u8,
            sh: Amt::Raw(SIDE_AMOUNTS[r % 4]),
            sho: (r / 4) as u8,
            kind: 0,
        });
    }
    HpackCase { glyphs: vec![[1, 1, 1]], palette: vec![1], nodes, target: TargetSpec { base: Base::StretchTop, sign: 0, off, exact } }
}

// -------------------------------------------------------------------------------------
// Calibration on the repository's TeX-generated goldens (line boxes of broken paragraphs
// and natural-width hboxes in cmr10): the *model* must reproduce TeX's printed box
// (height, depth, glue order, glue set rounded as TeX prints it) before it is trusted,
// and the implementation must agree with the model on the same lists.

#[derive(Clone, Debug, Serialize, Deserialize)]
pub struct GoldenBox {
    pub file: String,
    pub index: u32,
    /// The box in Box language, exactly as the golden file has it.
    pub source: String,
}

fn repo_root() -> String {
    std::env::var("VP_REPO").unwrap_or_else(|_| "/repo".to_string())
}

fn collect_hboxes(list: &[ds::Horizontal], out: &mut Vec<ds::HBox>) {
    for n in list {
        match n {
            ds::Horizontal::HBox(b) => out.push(b.clone()),
            ds::Horizontal::VBox(v) => {
                for m in &v.list {
                    if let ds::Vertical::HBox(b) = m {
                        out.push(b.clone());
                    }
                }
            }
            _ => {}
        }
    }
}

fn load_goldens(ctx: &Ctx) -> Vec<GoldenBox> {
    let root = repo_root();
    let mut files: Vec<String> = vec![];
    let dir = format!("{root}/crates/boxworks-knuthplass/testdata");
    let mut names: Vec<String> = match std::fs::read_dir(&dir) {
        Ok(rd) => rd.filter_map(|e| e.ok()).map(|e| e.file_name().to_string_lossy().to_string()).filter(|n| n.ends_with("_want.txt")).collect(),
        Err(e) => {
            eprintln!("C15: cannot read golden directory {dir}: {e}");
            std::process::exit(2);
        }
    };
    names.sort();
    for n in names {
        files.push(format!("crates/boxworks-knuthplass/testdata/{n}"));
    }
    for n in ["wolf_hall_linebreak_line_penalty.txt", "wolf_hall_linebreak_right_skip.txt", "wolf_hall_linebreak_vlist_penalties.txt", "farewell_to_arms_linebreak_looseness.txt"] {
        files.push(format!("crates/boxworks-bin/tests/{n}"));
    }
    if ctx.tier == Tier::Thorough {
        for n in ["alice_in_wonderland_linebreak.txt", "alice_in_wonderland_hlists.txt", "alice_in_wonderland_hlists_hyphenated.txt"] {
            files.push(format!("crates/boxworks-bin/tests/{n}"));
        }
    }
    let mut out = vec![];
    for f in files {
        let path = format!("{root}/{f}");
        let text = match std::fs::read_to_string(&path) {
            Ok(t) => t,
            Err(e) => {
                eprintln!("C15: cannot read golden {path}: {e}");
                std::process::exit(2);
            }
        };
        let list = match boxworks::lang::parse_horizontal_list(&text) {
            Ok(l) => l,
            Err(e) => {
                eprintln!("C15: golden {path} does not parse: {} errors", e.len());
                std::process::exit(2);
            }
        };
        let mut boxes = vec![];
        collect_hboxes(&list, &mut boxes);
        for (i, b) in boxes.into_iter().enumerate() {
            out.push(GoldenBox { file: f.clone(), index: i as u32, source: format!("{}", ds::Horizontal::HBox(b)) });
        }
    }
    out
}

/// `round(unity·g)` as TeX §186 prints the glue set (half away from zero, capped at 20000).
fn printed_glue_set(p: &Packed) -> i64 {
    if !p.is_set() {
        return 0;
    }
    let n = (p.set_num as i128).abs();
    let d = (p.set_den as i128).abs();
    let v = (2 * 65536 * n + d) / (2 * d);
    v.min(20000 * 65536) as i64
}

fn golden_oracle(ctx: &Ctx, tfm: &[u8], g: &GoldenBox, case: &mut Case) -> Verdict {
    let list = match boxworks::lang::parse_horizontal_list(&g.source) {
        Ok(l) => l,
        Err(_) => return Verdict::Fail(format!("golden box {}#{} does not parse", g.file, g.index)),
    };
    let Some(ds::Horizontal::HBox(gold)) = list.into_iter().next() else {
        return Verdict::Fail(format!("golden box {}#{} is not an hbox", g.file, g.index));
    };
    let mut repo: boxworks_text::TfmFontRepo = Default::default();
    let Ok(file) = tfm::File::deserialize(tfm).0 else {
        return Verdict::Fail("cmr10.tfm does not load".into());
    };
    repo.register_font(0, file);
    let items = match model::items_from_ds(&repo, &gold.list) {
        Ok(i) => i,
        Err(e) => return Verdict::Fail(format!("golden box {}#{}: {}", g.file, g.index, e.0)),
    };
    let target = Target::Exact(gold.width.0 as i64);
    let Ok(want) = model::hpack(&items, target, Deviations::NONE) else {
        return Verdict::Fail("overflow on a golden box".into());
    };
    let shape = analyze(&items, &want, case);
    let describe = || format!("golden {}#{}: [{}] to {}sp", g.file, g.index, render_items(&gold.list, &items), gold.width.0);
    case.note = Some(describe());
    case.classes.sort();
    case.classes.dedup();
    // 1. model against TeX's printed box
    let mut diffs = vec![];
    if want.height != gold.height.0 as i64 {
        diffs.push(format!("height model {} TeX {}", want.height, gold.height.0));
    }
    if want.depth != gold.depth.0 as i64 {
        diffs.push(format!("depth model {} TeX {}", want.depth, gold.depth.0));
    }
    let gold_set_printed = want.is_set() || gold.glue_ratio.num.0 != 0;
    if gold_set_printed && model::order_index(gold.glue_order) != want.glue_order {
        diffs.push(format!("order model {} TeX {:?}", model::order_name(want.glue_order), gold.glue_order));
    }
    if gold.glue_ratio.den != Scaled::ONE {
        diffs.push(format!("golden ratio has denominator {}", gold.glue_ratio.den.0));
    } else if (printed_glue_set(&want) - (gold.glue_ratio.num.0 as i64).abs()).abs() > 1 + (printed_glue_set(&want) >> 22) {
        // TeX holds glue_set in a (single-precision) float, so large ratios are printed with
        // a relative error of about 2^-24; the tolerance is 1 unit + 2^-22 relative.
        diffs.push(format!("glue set model {}/{} prints as {} (scaled), TeX printed {}", want.set_num, want.set_den, printed_glue_set(&want), gold.glue_ratio.num.0));
    }
    if !diffs.is_empty() {
        return Verdict::Fail(format!("MODEL CALIBRATION FAILURE (the reference hpack disagrees with a TeX-generated golden): {}\n{}", diffs.join("; "), describe()));
    }
    // 2. implementation against model
    let nontrivial = !items.is_empty() && (shape.mixed || shape.cancel || shape.boundary);
    match check_pack(ctx, &repo, &gold.list, &items, target, &want, &describe) {
        Ok(()) => Verdict::pass(nontrivial),
        Err(v) => v,
    }
}

// -------------------------------------------------------------------------------------

pub fn run(ctx: &Ctx) {
    ctx.rule(
        "cases = horizontal lists of characters and ligatures (synthetic font: 6 glyphs in 3 fonts with generated width/height/depth), kerns of all kinds, rules (fixed and running height/depth), nested hboxes/vboxes with zero, positive and negative shifts, penalties, discretionaries (followed by their replace nodes) and glue whose stretch and shrink have all four orders and positive, zero and negative amounts drawn from a small per-case palette (so +a −a cancellations, 0fil and sums occur often; cancelling pairs are also inserted explicitly) × a target = natural + s·T + off with s ∈ {0,±1}, T a per-order stretch or shrink total, off ∈ {0,±1sp,random}, requested as Exact or Additional; plus an exhaustive enumeration of all lists of ≤3 (thorough: ≤4) glue items over {0,1,−1,2}sp × 4 orders with every excess in −5..5sp, and every hbox of the repository's TeX-generated goldens. HBox::pack is compared with a transcription of TeX §649–667 (per-order totals, i64, exact rational glue set). non-trivial = non-empty list and (two different orders present on the side being set, or an order that is present has total zero, or an exact-boundary target: excess ∈ {0,±1sp} with flexible glue, or |excess| within 1sp of the total being set); distinct = by case value",
    );
    ctx.assume("mark, insertion, adjust and math nodes are not generated: HBox::pack is documented todo!() on them and the property's quantifier does not list them; whatsits and leader glue (ds::Glue has no leader box) are not generated either");
    ctx.assume("every character node refers to a glyph the font repository knows (TeX never builds a char node for a missing character); a rule's width is never running in an hlist (TeX §138)");
    ctx.assume("individual dimensions are at most 2^24sp (2^25 for shifts combined with heights) and lists have at most ~70 nodes, so every sum TeX forms fits in 31 bits (TeX's own arithmetic is undefined beyond); cases violating this would be skipped and counted");
    ctx.assume("the sign convention of GlueRatio is not part of the property: |ratio| is compared exactly and, unless the box is overfull, the signed fill identity natural·den + num·total = width·den is required (the implementation reports +1 for an overfull box and excess/total otherwise)");
    ctx.assume("an unset box must have glue order normal as in TeX (§658/§664 set glue_order:=o with o=normal when every total is zero)");

    // Calibration on goldens.
    let tfm_path = format!("{}/crates/tfm/corpus/computer-modern/cmr10.tfm", repo_root());
    let tfm = match std::fs::read(&tfm_path) {
        Ok(b) => b,
        Err(e) => {
            eprintln!("C15: cannot read {tfm_path}: {e}");
            std::process::exit(2);
        }
    };
    // Self-test knob (sensitivity experiments only): VP_C15_ONLY=<sub-check> runs just that
    // sub-check when generating, so that each generator's detection power can be measured alone.
    let only = if ctx.is_generate() { std::env::var("VP_C15_ONLY").ok() } else { None };
    let enabled = |sub: &str| only.as_deref().map(|o| o == sub).unwrap_or(true);

    if enabled("golden_boxes") {
        let goldens = if ctx.is_generate() { load_goldens(ctx) } else { vec![] };
        run_list(ctx, "golden_boxes", goldens, |g: &GoldenBox, case| golden_oracle(ctx, &tfm, g, case));
    }

    // Exhaustive small scope.
    if enabled("small_scope") {
        let max_len = ctx.tier.pick(3u32, 4u32);
        run_indexed(ctx, "small_scope", small_total(max_len), true, small_case, |c: &HpackCase, case| oracle(ctx, c, case));
    }

    // Random lists.
    if enabled("lists") {
        let n = ctx.tier.pick(1_500_000u64, 20_000_000u64);
        let max_chunks = ctx.tier.pick(24usize, 32usize);
        run_generated(ctx, "lists", n, || case_strategy(max_chunks), |c: &HpackCase, case| oracle(ctx, c, case));
    }
}
