//! C15 Packing a horizontal list produces TeX's box dimensions and glue setting.
//!
//! Generated horizontal lists × target widths are packed with `boxworks::ds::HBox::pack`
//! and compared with the reference `hpack` of `crate::models::hpack` (TeX §649–667 with
//! per-order totals, exact rationals).

use crate::engine::*;
use crate::models::hpack::{self as model, Deviations, Item, Packed, Sign, Target};
use boxworks::ds;
use common::{GlueOrder, Scaled};
use proptest::prelude::*;
use serde::{Deserialize, Serialize};

// -------------------------------------------------------------------------------------
// Case representation

const N_GLYPHS: usize = 6;
const PAL: usize = 3;

/// A stretch or shrink amount. `Pos(i)`/`Neg(i)` refer to the case's palette of
/// magnitudes so that exact cancellations (`+a −a`) and sums such as `a+a` are frequent.
#[derive(Clone, Copy, Debug, PartialEq, Eq, Serialize, Deserialize)]
pub enum Amt {
    Zero,
    Pos(u8),
    Neg(u8),
    Raw(i32),
}

impl Amt {
    fn resolve(self, pal: &[i32]) -> i32 {
        match self {
            Amt::Zero => 0,
            Amt::Pos(i) => pal[i as usize % pal.len()],
            Amt::Neg(i) => -pal[i as usize % pal.len()],
            Amt::Raw(v) => v,
        }
    }
    fn negated(self) -> Amt {
        match self {
            Amt::Zero => Amt::Zero,
            Amt::Pos(i) => Amt::Neg(i),
            Amt::Neg(i) => Amt::Pos(i),
            Amt::Raw(v) => Amt::Raw(-v),
        }
    }
}

#[derive(Clone, Debug, PartialEq, Eq, Serialize, Deserialize)]
pub struct BoxSpec {
    pub h: i32,
    pub w: i32,
    pub d: i32,
    pub shift: i32,
    /// Selects a small canned inner list (irrelevant to the enclosing `hpack`).
    pub fill: u8,
}

/// Nodes that may also occur inside a discretionary.
#[derive(Clone, Debug, PartialEq, Eq, Serialize, Deserialize)]
pub enum Elem {
    Char(u8),
    Lig { glyph: u8, orig: String, left: bool, right: bool },
    Kern { w: i32, kind: u8 },
    /// `None` = running dimension (the width never runs in an hlist).
    Rule { h: Option<i32>, w: i32, d: Option<i32> },
    HBox(BoxSpec),
    VBox(BoxSpec),
}

#[derive(Clone, Debug, PartialEq, Eq, Serialize, Deserialize)]
pub enum Node {
    E(Elem),
    Glue { w: i32, st: Amt, sto: u8, sh: Amt, sho: u8, kind: u8 },
    Penalty(i32),
    /// A discretionary followed by its `replace` nodes (replace_count = their number).
    Disc { pre: Vec<Elem>, post: Vec<Elem>, replace: Vec<Elem> },
    /// A whatsit node (TeX §1360: invisible to hpack). Outside the property's literal
    /// quantifier; generated in one list mode only.
    Whatsit(u8),
}

#[derive(Clone, Copy, Debug, PartialEq, Eq, Serialize, Deserialize)]
pub enum Base {
    /// total stretch of TeX's stretch order (highest order with a non-zero total)
    StretchTop,
    /// total shrink of TeX's shrink order
    ShrinkTop,
    Stretch(u8),
    Shrink(u8),
}

/// Target width = natural width + `sign`·total(`base`) + `off`, requested as `Exact`
/// (`\hbox to`) or `Additional` (`\hbox spread`). sign = 0, off = 0 is the natural width.
#[derive(Clone, Copy, Debug, PartialEq, Eq, Serialize, Deserialize)]
pub struct TargetSpec {
    pub base: Base,
    pub sign: i8,
    pub off: i32,
    pub exact: bool,
    /// `Some(w)`: the requested dimension itself (`to w` / `spread w`), independent of the
    /// list — huge targets such as `\hbox to\maxdimen`. Overrides base/sign/off.
    #[serde(default)]
    pub abs: Option<i32>,
}

#[derive(Clone, Debug, PartialEq, Eq, Serialize, Deserialize)]
pub struct HpackCase {
    /// Synthetic font metrics: glyph i is character `'a'+i` of font `i % 3`, [width, height, depth].
    pub glyphs: Vec<[i32; 3]>,
    /// Partial glyph metrics: bit 0 of entry i = the font has no height for glyph i, bit 1 =
    /// no depth (`FontRepo::height`/`depth` return `None`; a tfm height/depth index beyond
    /// its table). Missing entries = complete metrics.
    #[serde(default)]
    pub missing: Vec<u8>,
    /// Magnitudes referred to by `Amt::Pos`/`Amt::Neg`.
    pub palette: Vec<i32>,
    pub nodes: Vec<Node>,
    pub target: TargetSpec,
}

// -------------------------------------------------------------------------------------
// Case -> boxworks data structures

fn glyph_id(i: u8, n: usize) -> (char, u32) {
    let i = i as usize % n.max(1);
    ((b'a' + i as u8) as char, (i % 3) as u32)
}

struct SynthRepo {
    glyphs: Vec<[i32; 3]>,
    missing: Vec<u8>,
}

impl SynthRepo {
    fn index(&self, c: char, font: u32) -> Option<usize> {
        let i = (c as u32).checked_sub('a' as u32)? as usize;
        if i < self.glyphs.len() && (i % 3) as u32 == font {
            Some(i)
        } else {
            None
        }
    }
    fn get(&self, c: char, font: u32) -> Option<[i32; 3]> {
        self.index(c, font).map(|i| self.glyphs[i])
    }
    fn lacks(&self, c: char, font: u32, bit: u8) -> bool {
        self.index(c, font).map(|i| self.missing.get(i).copied().unwrap_or(0) & bit != 0).unwrap_or(false)
    }
}

// Only the three required methods are implemented, so `pack` goes through the trait's
// provided `width_height_depth` (anchored code in boxworks/src/lib.rs).
impl boxworks::FontRepo for SynthRepo {
    fn width(&self, c: char, font: u32) -> Option<Scaled> {
        self.get(c, font).map(|g| Scaled(g[0]))
    }
    fn height(&self, c: char, font: u32) -> Option<Scaled> {
        if self.lacks(c, font, 1) {
            return None;
        }
        self.get(c, font).map(|g| Scaled(g[1]))
    }
    fn depth(&self, c: char, font: u32) -> Option<Scaled> {
        if self.lacks(c, font, 2) {
            return None;
        }
        self.get(c, font).map(|g| Scaled(g[2]))
    }
}

fn glue_order(o: u8) -> GlueOrder {
    match o % 4 {
        0 => GlueOrder::Normal,
        1 => GlueOrder::Fil,
        2 => GlueOrder::Fill,
        _ => GlueOrder::Filll,
    }
}

fn kern_kind(k: u8) -> ds::KernKind {
    match k % 4 {
        0 => ds::KernKind::Normal,
        1 => ds::KernKind::Explicit,
        2 => ds::KernKind::Accent,
        _ => ds::KernKind::Math,
    }
}

fn inner_hlist(fill: u8) -> Vec<ds::Horizontal> {
    let pool: [ds::Horizontal; 4] = [
        ds::Char { char: 'a', font: 0 }.into(),
        ds::Kern { width: Scaled(fill as i32 * 1000), kind: ds::KernKind::Normal }.into(),
        ds::Glue::from(common::Glue { width: Scaled::ONE, stretch: Scaled::ONE, stretch_order: GlueOrder::Fil, ..Default::default() }).into(),
        ds::Penalty(fill as i32).into(),
    ];
    (0..(fill % 4) as usize).map(|k| pool[(fill as usize / 4 + k) % 4].clone()).collect()
}

fn inner_vlist(fill: u8) -> Vec<ds::Vertical> {
    let pool: [ds::Vertical; 4] = [
        ds::Rule { height: Scaled(26214), width: ds::Rule::RUNNING, depth: Scaled(0) }.into(),
        ds::Kern { width: Scaled(fill as i32 * 1000), kind: ds::KernKind::Explicit }.into(),
        ds::Glue::from(common::Glue { width: Scaled::ONE, shrink: Scaled::ONE, ..Default::default() }).into(),
        ds::HBox::default().into(),
    ];
    (0..(fill % 4) as usize).map(|k| pool[(fill as usize / 4 + k) % 4].clone()).collect()
}

fn inner_set(fill: u8) -> (ds::GlueRatio, GlueOrder) {
    if fill % 2 == 1 {
        (ds::GlueRatio { num: Scaled(fill as i32), den: Scaled(7) }, glue_order(fill / 2))
    } else {
        (ds::GlueRatio::default(), GlueOrder::Normal)
    }
}

fn elem_to_ds(e: &Elem, n_glyphs: usize) -> ds::DiscretionaryElem {
    use ds::DiscretionaryElem as D;
    match e {
        Elem::Char(g) => {
            let (char, font) = glyph_id(*g, n_glyphs);
            D::Char(ds::Char { char, font })
        }
        Elem::Lig { glyph, orig, left, right } => {
            let (char, font) = glyph_id(*glyph, n_glyphs);
            D::Ligature(ds::Ligature { char, font, original_chars: orig.as_str().into(), includes_left_boundary: *left, includes_right_boundary: *right })
        }
        Elem::Kern { w, kind } => D::Kern(ds::Kern { width: Scaled(*w), kind: kern_kind(*kind) }),
        Elem::Rule { h, w, d } => D::Rule(ds::Rule {
            height: h.map(Scaled).unwrap_or(ds::Rule::RUNNING),
            width: Scaled(*w),
            depth: d.map(Scaled).unwrap_or(ds::Rule::RUNNING),
        }),
        Elem::HBox(b) => {
            let (glue_ratio, glue_order) = inner_set(b.fill);
            D::HBox(ds::HBox {
                height: Scaled(b.h),
                width: Scaled(b.w),
                depth: Scaled(b.d),
                shift_amount: Scaled(b.shift),
                list: inner_hlist(b.fill),
                glue_ratio,
                glue_order,
            })
        }
        Elem::VBox(b) => {
            let (glue_ratio, glue_order) = inner_set(b.fill);
            D::VBox(ds::VBox {
                height: Scaled(b.h),
                width: Scaled(b.w),
                depth: Scaled(b.d),
                shift_amount: Scaled(b.shift),
                list: inner_vlist(b.fill),
                glue_ratio,
                glue_order,
            })
        }
    }
}

/// All six kinds (TeX §149 subtypes). 0..=2 keep their meaning, so old replay files load unchanged.
fn glue_kind(k: u8) -> ds::GlueKind {
    match k % 6 {
        0 => ds::GlueKind::Normal,
        1 => ds::GlueKind::ConditionalMath,
        2 => ds::GlueKind::Math,
        3 => ds::GlueKind::AlignedLeader,
        4 => ds::GlueKind::CenteredLeader,
        _ => ds::GlueKind::ExpandedLeader,
    }
}

#[derive(Debug)]
struct OpaqueWhatsit(#[allow(dead_code)] u8);
impl ds::Whatsit for OpaqueWhatsit {}

fn build_list(c: &HpackCase) -> Vec<ds::Horizontal> {
    let n = c.glyphs.len();
    let mut out: Vec<ds::Horizontal> = vec![];
    for node in &c.nodes {
        match node {
            Node::E(e) => out.push(elem_to_ds(e, n).into()),
            Node::Glue { w, st, sto, sh, sho, kind } => out.push(
                ds::Glue {
                    value: common::Glue {
                        width: Scaled(*w),
                        stretch: Scaled(st.resolve(&c.palette)),
                        stretch_order: glue_order(*sto),
                        shrink: Scaled(sh.resolve(&c.palette)),
                        shrink_order: glue_order(*sho),
                    },
                    kind: glue_kind(*kind),
                }
                .into(),
            ),
            Node::Penalty(p) => out.push(ds::Penalty(*p).into()),
            Node::Whatsit(k) => out.push(ds::Horizontal::Whatsit(std::rc::Rc::new(OpaqueWhatsit(*k)))),
            Node::Disc { pre, post, replace } => {
                out.push(
                    ds::Discretionary {
                        pre_break: pre.iter().map(|e| elem_to_ds(e, n)).collect(),
                        post_break: post.iter().map(|e| elem_to_ds(e, n)).collect(),
                        replace_count: replace.len() as u32,
                    }
                    .into(),
                );
                for e in replace {
                    out.push(elem_to_ds(e, n).into());
                }
            }
        }
    }
    out
}

// -------------------------------------------------------------------------------------
// Readable rendering

fn sp(v: i64) -> String {
    if v != 0 && v % 65536 == 0 {
        format!("{}pt", v / 65536)
    } else {
        format!("{}sp", v)
    }
}

fn render_items(list: &[ds::Horizontal], items: &[Item]) -> String {
    let mut s = String::new();
    for (n, it) in list.iter().zip(items) {
        if !s.is_empty() {
            s.push(' ');
        }
        use ds::Horizontal as H;
        let tag = match n {
            H::Char(_) => "char",
            H::Ligature(_) => "lig",
            H::HBox(_) => "hbox",
            H::VBox(_) => "vbox",
            H::Rule(_) => "rule",
            H::Kern(_) => "kern",
            H::Glue(g) if !matches!(g.kind, ds::GlueKind::Normal | ds::GlueKind::ConditionalMath | ds::GlueKind::Math) => "leaders",
            H::Glue(_) => "glue",
            H::Penalty(_) => "penalty",
            H::Whatsit(_) => "whatsit",
            H::Discretionary(d) => {
                s.push_str(&format!("disc[{}|{}|{}]", d.pre_break.len(), d.post_break.len(), d.replace_count));
                continue;
            }
            _ => "?",
        };
        match *it {
            Item::Char { w, h, d } => s.push_str(&format!("{tag}(w{} h{} d{})", sp(w), sp(h), sp(d))),
            Item::Box { w, h, d, shift } => s.push_str(&format!("{tag}(h{} w{} d{} shift{})", sp(h), sp(w), sp(d), sp(shift))),
            Item::Rule { w, h, d } => {
                let r = |v: i64| if v <= model::NULL_FLAG { "*".to_string() } else { sp(v) };
                s.push_str(&format!("{tag}(h{} w{} d{})", r(h), sp(w), r(d)))
            }
            Item::Kern { w } => s.push_str(&format!("{tag}({})", sp(w))),
            Item::Glue { w, stretch, stretch_order, shrink, shrink_order, .. } => {
                let inf = |v: i64, o: usize| {
                    if o == 0 {
                        sp(v)
                    } else if v % 65536 == 0 {
                        format!("{}{}", v / 65536, model::order_name(o))
                    } else {
                        format!("{}/65536{}", v, model::order_name(o))
                    }
                };
                s.push_str(&format!("{tag}({} plus {} minus {})", sp(w), inf(stretch, stretch_order), inf(shrink, shrink_order)))
            }
            Item::Nothing => s.push_str(tag),
        }
    }
    s
}

// -------------------------------------------------------------------------------------
// Case classification (what the generator reaches; the non-triviality rule)

#[derive(Default, Debug, Clone, Copy)]
struct Shape {
    mixed: bool,
    cancel: bool,
    boundary: bool,
    /// A box maximum is decided by a shift, by the fixed dimension of a half-running rule,
    /// by a ligature, or clamps at 0 against negative candidates only.
    dims: bool,
}

/// The two largest height (or depth) candidates of a list, with multiplicity.
#[derive(Clone, Copy)]
struct Top {
    best: i64,
    second: i64,
}

impl Top {
    const NONE: i64 = i64::MIN;
    fn new() -> Top {
        Top { best: Top::NONE, second: Top::NONE }
    }
    fn push(&mut self, v: i64) {
        if v <= model::NULL_FLAG {
            return; // running dimension: no candidate
        }
        if v > self.best {
            self.second = self.best;
            self.best = v;
        } else if v > self.second {
            self.second = v;
        }
    }
    /// Maximum over the candidates of all *other* items, given this item's candidate.
    fn others(&self, v: i64) -> i64 {
        if v > model::NULL_FLAG && v == self.best {
            self.second
        } else {
            self.best
        }
    }
    /// `v` alone decides the box dimension: it beats the floor 0 and every other item.
    fn strict(&self, v: i64) -> bool {
        v > 0 && v > self.others(v)
    }
}

/// (height, depth) candidates an item offers to the box maxima (§653, §654, §656).
fn candidates(it: &Item) -> Option<(i64, i64)> {
    match *it {
        Item::Char { h, d, .. } => Some((h, d)),
        Item::Box { h, d, shift, .. } => Some((h - shift, d + shift)),
        Item::Rule { h, d, .. } => Some((h, d)),
        Item::Glue { leader: Some((h, d)), .. } => Some((h, d)),
        _ => None,
    }
}

fn analyze(list: &[ds::Horizontal], items: &[Item], p: &Packed, case: &mut Case) -> Shape {
    let mut sh = Shape::default();
    let mut present = [[0u32; 4]; 2]; // [stretch|shrink][order]
    let mut any_flex = false;
    // Which item decides the height and the depth of the box.
    let (mut th, mut td) = (Top::new(), Top::new());
    for it in items {
        if let Some((h, d)) = candidates(it) {
            th.push(h);
            td.push(d);
        }
    }
    case.class_if(th.best != Top::NONE && th.best < 0 || td.best != Top::NONE && td.best < 0, "dims: height or depth clamps at 0 (every candidate negative)");
    sh.dims |= th.best != Top::NONE && th.best < 0 || td.best != Top::NONE && td.best < 0;
    for (node, it) in list.iter().zip(items) {
        use ds::Horizontal as H;
        match (node, *it) {
            (H::HBox(_) | H::VBox(_), Item::Box { h, d, shift, .. }) => {
                let vbox = matches!(node, H::VBox(_));
                case.class(if vbox { "node:vbox" } else { "node:hbox" });
                if shift != 0 {
                    // Would the box dimensions differ had this box not been shifted?
                    let without_h = th.others(h - shift).max(h).max(0);
                    let without_d = td.others(d + shift).max(d).max(0);
                    if without_h != p.height || without_d != p.depth {
                        sh.dims = true;
                        case.class(if vbox { "dims: the shift of a vbox decides the box height or depth" } else { "dims: the shift of an hbox decides the box height or depth" });
                    }
                }
            }
            (H::Rule(_), Item::Rule { h, d, .. }) => {
                let (hr, dr) = (h <= model::NULL_FLAG, d <= model::NULL_FLAG);
                case.class_if(!hr && dr, "node:rule height fixed, depth running");
                case.class_if(hr && !dr, "node:rule height running, depth fixed");
                case.class_if(hr && dr, "node:rule height and depth running");
                if (!hr && dr && th.strict(h)) || (hr && !dr && td.strict(d)) {
                    sh.dims = true;
                    case.class("dims: the fixed dimension of a half-running rule is the strict box maximum");
                }
                case.class_if(!hr && !dr && (th.strict(h) || td.strict(d)), "dims: a fixed rule is the strict height or depth maximum");
            }
            (H::Ligature(_), Item::Char { h, d, .. }) => {
                case.class("node:ligature");
                if th.strict(h) || td.strict(d) {
                    sh.dims = true;
                    case.class("dims: a ligature is the strict height or depth maximum");
                }
            }
            (H::Char(_), Item::Char { h, d, .. }) => {
                case.class("node:char");
                case.class_if(th.strict(h) || td.strict(d), "dims: a character is the strict height or depth maximum");
            }
            (H::Glue(g), Item::Glue { w, stretch, stretch_order, shrink, shrink_order, .. }) => {
                if matches!(g.kind, ds::GlueKind::AlignedLeader | ds::GlueKind::CenteredLeader | ds::GlueKind::ExpandedLeader) {
                    case.class_if(w != 0, "leaders: non-zero width counts in the natural width");
                    let active = match p.glue_sign {
                        Sign::Stretching => stretch_order == p.glue_order && stretch != 0,
                        Sign::Shrinking => shrink_order == p.glue_order && shrink != 0,
                        Sign::Normal => false,
                    };
                    case.class_if(active, "leaders: contribute to the total being set");
                }
                case.class(match g.kind {
                    ds::GlueKind::Normal => "node:glue kind normal",
                    ds::GlueKind::ConditionalMath => "node:glue kind conditional math",
                    ds::GlueKind::Math => "node:glue kind math",
                    ds::GlueKind::AlignedLeader => "node:glue kind aligned leader",
                    ds::GlueKind::CenteredLeader => "node:glue kind centered leader",
                    ds::GlueKind::ExpandedLeader => "node:glue kind expanded leader",
                });
            }
            (H::Whatsit(_), _) => case.class("node:whatsit"),
            (H::Penalty(_), _) => case.class("node:penalty"),
            (H::Discretionary(_), _) => case.class("node:discretionary"),
            _ => {}
        }
    }
    for it in items {
        match *it {
            Item::Glue { stretch, stretch_order, shrink, shrink_order, .. } => {
                if stretch_order > 0 || stretch != 0 {
                    present[0][stretch_order] += 1;
                }
                if shrink_order > 0 || shrink != 0 {
                    present[1][shrink_order] += 1;
                }
                if stretch != 0 || shrink != 0 {
                    any_flex = true;
                }
                case.class_if(stretch_order > 0 && stretch == 0 || shrink_order > 0 && shrink == 0, "node:glue 0fil/0fill/0filll");
                case.class_if(stretch < 0 || shrink < 0, "node:glue negative stretch/shrink");
            }
            Item::Box { shift, .. } => {
                case.class_if(shift > 0, "node:box shifted down");
                case.class_if(shift < 0, "node:box shifted up");
                case.class_if(shift == 0, "node:box unshifted");
            }
            Item::Rule { h, d, .. } => {
                case.class_if(h <= model::NULL_FLAG || d <= model::NULL_FLAG, "node:rule running");
                case.class_if(h > model::NULL_FLAG && d > model::NULL_FLAG, "node:rule fixed");
            }
            Item::Char { .. } => case.class("node:char/ligature"),
            Item::Kern { .. } => case.class("node:kern"),
            Item::Nothing => case.class("node:penalty/discretionary"),
        }
    }
    let side = if p.excess > 0 {
        Some((0usize, &p.total_stretch))
    } else if p.excess < 0 {
        Some((1usize, &p.total_shrink))
    } else {
        None
    };
    if let Some((s, totals)) = side {
        let kinds = (0..4).filter(|&k| present[s][k] > 0).count();
        sh.mixed = kinds >= 2;
        sh.cancel = (0..4).any(|k| present[s][k] > 0 && totals[k] == 0);
        // The cancelled/zero order lies above TeX's order: the D24 shape.
        case.class_if((0..4).any(|k| present[s][k] > 0 && totals[k] == 0 && k > p.glue_order) && p.is_set(), "zero total above the order TeX uses");
    }
    if p.excess.abs() <= 1 && any_flex {
        sh.boundary = true;
        case.class_if(p.excess == 0, "boundary: excess = 0 with flexible glue");
        case.class_if(p.excess.abs() == 1, "boundary: excess = ±1sp with flexible glue");
    }
    if p.is_set() {
        let gap = p.excess.abs() - p.active_total.abs();
        if gap.abs() <= 1 {
            sh.boundary = true;
            case.class_if(gap == 0, "boundary: |excess| = |total| (ratio exactly 1)");
            case.class_if(gap != 0, "boundary: |excess| = |total| ± 1sp");
        }
    }
    case.class_if(sh.mixed, "nontrivial: two orders on the active side");
    case.class_if(sh.cancel, "nontrivial: a present order has zero total");
    case.class_if(sh.boundary, "nontrivial: exact-boundary target");
    case.class_if(sh.dims, "nontrivial: a box maximum decided by a shift, a half-running rule, a ligature or the 0 floor");
    case.class(match (p.excess > 0, p.excess < 0) {
        (true, _) => "excess > 0",
        (_, true) => "excess < 0",
        _ => "excess = 0",
    });
    case.class(match p.glue_sign {
        Sign::Normal if p.excess == 0 => "result: natural (nothing to set)",
        Sign::Normal => "result: unset although excess != 0",
        Sign::Stretching => "result: stretching",
        Sign::Shrinking if p.overfull => "result: overfull (ratio 1)",
        Sign::Shrinking => "result: shrinking",
    });
    if p.is_set() {
        case.class(["order: normal", "order: fil", "order: fill", "order: filll"][p.glue_order]);
        case.class_if(p.active_total < 0, "set on a negative total");
    }
    case.class_if(p.underfull_at(1000), "underfull at \\hbadness=1000");
    case.class_if(p.overfull_branch && !p.overfull, "too wide with zero shrinkability (unset)");
    case.class_if(p.overfull && p.active_total < 0, "overfull on a negative total shrink");
    case.class_if(p.overfull && p.total_stretch[0] != 0, "overfull with finite stretch present (ratio +1 would read as stretching)");
    sh
}

// -------------------------------------------------------------------------------------
// Oracle

fn flag_subsets(ctx: &Ctx) -> Vec<(Deviations, String)> {
    let listed: Vec<&'static str> = Deviations::FLAG_NAMES.iter().copied().filter(|f| ctx.known(&format!("flag:{f}"))).collect();
    let mut out = vec![];
    // smallest subsets first
    for size in 1..=listed.len() {
        for mask in 1u32..(1 << listed.len()) {
            if mask.count_ones() as usize != size {
                continue;
            }
            let mut d = Deviations::NONE;
            let mut names = vec![];
            for (i, f) in listed.iter().enumerate() {
                if mask & (1 << i) != 0 {
                    d = d.with_flag(f);
                    names.push(format!("flag:{f}"));
                }
            }
            out.push((d, names.join("+")));
        }
    }
    out
}

/// Node equality for the "list unchanged" check. `Horizontal::eq` is false for any two
/// whatsits (they are `Rc<dyn Whatsit>`); `pack` is given clones of the same `Rc`s, so
/// identity of the allocation is the right notion there.
fn same_node(a: &ds::Horizontal, b: &ds::Horizontal) -> bool {
    match (a, b) {
        (ds::Horizontal::Whatsit(x), ds::Horizontal::Whatsit(y)) => std::ptr::eq(std::rc::Rc::as_ptr(x) as *const u8, std::rc::Rc::as_ptr(y) as *const u8),
        _ => a == b,
    }
}

/// Compare `HBox::pack` with the model on one list and target. Shared by every sub-check.
fn check_pack<F: boxworks::FontRepo>(
    ctx: &Ctx,
    repo: &F,
    list: &[ds::Horizontal],
    items: &[Item],
    target: Target,
    want: &Packed,
    describe: &dyn Fn() -> String,
) -> Result<(), Verdict> {
    let pack_width = match target {
        Target::Exact(w) => ds::PackWidth::Exact(Scaled(w as i32)),
        Target::Additional(a) => ds::PackWidth::Additional(Scaled(a as i32)),
    };
    let input = list.to_vec();
    let got = panics::catch(|| ds::HBox::pack(repo, input, pack_width));
    let got = match got {
        Ok(b) => b,
        Err(info) => {
            // A listed deviation may drive the implementation's 32-bit sums out of range.
            if info.message.contains("overflow") {
                for (dev, sig) in flag_subsets(ctx) {
                    if model::hpack(items, target, dev).is_err() {
                        return Err(Verdict::Known(sig));
                    }
                }
            }
            return Err(Verdict::Fail(format!("HBox::pack panicked at {}: {}\n{}", info.site(), info.message, describe())));
        }
    };
    // hpack returns the list it was given (list_ptr(r):=p) in a box that is not shifted.
    // The one change TeX itself makes (§666) is tolerated: when it takes the overfull branch of
    // §664 it may append the \overfullrule rule (running height and depth) to the list; the
    // box dimensions were computed before. The property says nothing about that rule, so a
    // future implementation of the crate's TODO(TeX.2021.666) must not alarm here.
    let prefix_same = got.list.len() >= list.len() && got.list.iter().zip(list).all(|(a, b)| same_node(a, b));
    let tail_ok = match &got.list[list.len().min(got.list.len())..] {
        [] => true,
        [ds::Horizontal::Rule(r)] => want.overfull_branch && r.height == ds::Rule::RUNNING && r.depth == ds::Rule::RUNNING,
        _ => false,
    };
    if !prefix_same || !tail_ok {
        return Err(Verdict::Fail(format!("the packed box does not contain the input list unchanged\n{}", describe())));
    }
    if got.shift_amount != Scaled::ZERO {
        return Err(Verdict::Fail(format!("shift_amount of a fresh box is {}sp, TeX 0\n{}", got.shift_amount.0, describe())));
    }
    match model::compare_box(want, &got) {
        Ok(()) => Ok(()),
        Err(why) => {
            for (dev, sig) in flag_subsets(ctx) {
                if let Ok(p2) = model::hpack(items, target, dev) {
                    if model::compare_box(&p2, &got).is_ok() {
                        return Err(Verdict::Known(sig));
                    }
                }
            }
            Err(Verdict::Fail(format!(
                "{why}\n{}\nimplementation: width {}sp height {}sp depth {}sp order {:?} ratio {}/{}\nTeX:            width {}sp height {}sp depth {}sp order {} {}",
                describe(),
                got.width.0,
                got.height.0,
                got.depth.0,
                got.glue_order,
                got.glue_ratio.num.0,
                got.glue_ratio.den.0,
                want.width,
                want.height,
                want.depth,
                model::order_name(want.glue_order),
                match want.glue_sign {
                    Sign::Normal => "unset".to_string(),
                    Sign::Stretching => format!("stretching {}/{}", want.set_num, want.set_den),
                    Sign::Shrinking => format!("shrinking {}/{}{}", want.set_num, want.set_den, if want.overfull { " (overfull)" } else { "" }),
                },
            )))
        }
    }
}

fn oracle(ctx: &Ctx, c: &HpackCase, case: &mut Case) -> Verdict {
    if c.glyphs.is_empty() || c.palette.is_empty() || c.glyphs.len() > 26 {
        return Verdict::Skip("malformed case (no glyphs or palette)");
    }
    let repo = SynthRepo { glyphs: c.glyphs.clone(), missing: c.missing.clone() };
    let list = build_list(c);
    let items = match model::items_from_ds(&repo, &list) {
        Ok(i) => i,
        Err(_) => return Verdict::Skip("character without metrics"),
    };
    // Natural width and totals, to resolve the target specification.
    let Ok(p0) = model::hpack(&items, Target::Additional(0), Deviations::NONE) else {
        return Verdict::Skip("a sum exceeds 31 bits");
    };
    let t = c.target;
    let total = match t.base {
        Base::StretchTop => p0.total_stretch[(0..4).rev().find(|&k| p0.total_stretch[k] != 0).unwrap_or(0)],
        Base::ShrinkTop => p0.total_shrink[(0..4).rev().find(|&k| p0.total_shrink[k] != 0).unwrap_or(0)],
        Base::Stretch(k) => p0.total_stretch[k as usize % 4],
        Base::Shrink(k) => p0.total_shrink[k as usize % 4],
    };
    let fits = |v: i64| v > i32::MIN as i64 && v <= i32::MAX as i64;
    let (target, delta) = match t.abs {
        // The requested dimension itself, as the user of \hbox to / spread gives it.
        Some(w) if t.exact => (Target::Exact(w as i64), w as i64 - p0.natural_width),
        Some(w) => (Target::Additional(w as i64), w as i64),
        None => {
            let delta = (t.sign.signum() as i64) * total + t.off as i64;
            if !fits(delta) || !fits(p0.natural_width + delta) {
                return Verdict::Skip("a sum exceeds 31 bits");
            }
            (if t.exact { Target::Exact(p0.natural_width + delta) } else { Target::Additional(delta) }, delta)
        }
    };
    if !fits(delta) || !fits(p0.natural_width + delta) {
        return Verdict::Skip("a sum exceeds 31 bits");
    }
    let Ok(want) = model::hpack(&items, target, Deviations::NONE) else {
        return Verdict::Skip("a sum exceeds 31 bits");
    };
    case.class(if delta == 0 && !t.exact {
        "target: natural"
    } else if t.exact {
        "target: exact"
    } else {
        "target: additional"
    });
    case.class_if(list.is_empty(), "empty list");
    let has_whatsit = list.iter().any(|n| matches!(n, ds::Horizontal::Whatsit(_)));
    let shape = analyze(&list, &items, &want, case);
    // Partial glyph metrics (FontRepo::width_height_depth's unwrap_or(0) arms).
    for n in &list {
        if let ds::Horizontal::Char(ds::Char { char, font }) | ds::Horizontal::Ligature(ds::Ligature { char, font, .. }) = n {
            let (no_h, no_d) = (repo.lacks(*char, *font, 1), repo.lacks(*char, *font, 2));
            case.class_if(no_h && !no_d, "char: font has no height for the glyph (0)");
            case.class_if(!no_h && no_d, "char: font has no depth for the glyph (0)");
            case.class_if(no_h && no_d, "char: font has neither height nor depth for the glyph (0, 0)");
            case.class_if((no_h || no_d) && repo.get(*char, *font).map(|g| g[0] != 0).unwrap_or(false), "char: partial metrics, non-zero width still counts");
        }
    }
    // Magnitudes beyond 2^24 (not exactly representable in an f32) up to TeX's 2^30−1.
    const F32_EXACT: i64 = 1 << 24;
    let big_item = items.iter().any(|it| match *it {
        Item::Char { w, h, d } => [w, h, d].iter().any(|v| v.abs() > F32_EXACT),
        Item::Box { w, h, d, shift } => [w, h, d, shift].iter().any(|v| v.abs() > F32_EXACT),
        Item::Rule { w, h, d } => [w, h, d].iter().any(|v| *v > model::NULL_FLAG && v.abs() > F32_EXACT),
        Item::Kern { w } => w.abs() > F32_EXACT,
        Item::Glue { w, stretch, shrink, .. } => [w, stretch, shrink].iter().any(|v| v.abs() > F32_EXACT),
        Item::Nothing => false,
    });
    case.class_if(big_item, "big: a single dimension beyond 2^24sp");
    case.class_if(want.natural_width.abs() > F32_EXACT, "big: natural width beyond 2^24sp");
    case.class_if(want.height > F32_EXACT || want.depth > F32_EXACT, "big: box height or depth beyond 2^24sp");
    case.class_if(want.is_set() && !want.overfull && (want.excess.abs() > F32_EXACT || want.active_total.abs() > F32_EXACT), "big: glue set with excess or total beyond 2^24sp (exact ratio demanded)");
    case.class_if(want.width.abs() >= (1 << 29), "big: box width at least 2^29sp");
    case.class_if(want.width.abs() == (1 << 30) - 1, "big: box width = ±\\maxdimen");
    case.class_if(t.abs.is_some(), "target: absolute dimension (independent of the list)");
    let describe = || {
        format!(
            "list: [{}]\ntarget: {} (natural width {}sp, excess {}sp)",
            render_items(&list, &items),
            match target {
                Target::Exact(w) => format!("to {}sp", w),
                Target::Additional(a) => format!("spread {}sp", a),
            },
            want.natural_width,
            want.excess
        ) + if has_whatsit { "\n(the list contains whatsit nodes: outside the property's literal quantifier; TeX §1360: hpack ignores them)" } else { "" }
    };
    case.note = Some(describe());
    case.classes.sort();
    case.classes.dedup();
    let nontrivial = !items.is_empty() && (shape.mixed || shape.cancel || shape.boundary || shape.dims);
    match check_pack(ctx, &repo, &list, &items, target, &want, &describe) {
        Ok(()) => Verdict::pass(nontrivial),
        Err(v) => v,
    }
}

// -------------------------------------------------------------------------------------
// Strategies

fn dim() -> BoxedStrategy<i32> {
    prop_oneof![
        2 => Just(0),
        3 => -8i32..=8,
        4 => (-20i32..=200).prop_map(|k| k * 65536),
        2 => -(1i32 << 24)..=(1i32 << 24),
    ]
    .boxed()
}

/// Heights and depths: mostly non-negative.
fn hd() -> BoxedStrategy<i32> {
    prop_oneof![
        2 => Just(0),
        3 => 0i32..=8,
        4 => (0i32..=30).prop_map(|k| k * 65536),
        2 => 0i32..=(1i32 << 24),
        1 => -(1i32 << 20)..0i32,
    ]
    .boxed()
}

fn shift() -> BoxedStrategy<i32> {
    prop_oneof![
        3 => Just(0),
        2 => 1i32..=8,
        2 => -8i32..=-1,
        2 => (1i32..=30).prop_map(|k| k * 65536),
        2 => (1i32..=30).prop_map(|k| -k * 65536),
        1 => -(1i32 << 24)..=(1i32 << 24),
    ]
    .boxed()
}

fn amt() -> BoxedStrategy<Amt> {
    prop_oneof![
        3 => Just(Amt::Zero),
        5 => (0..PAL as u8).prop_map(Amt::Pos),
        3 => (0..PAL as u8).prop_map(Amt::Neg),
        2 => dim().prop_map(Amt::Raw),
    ]
    .boxed()
}

fn order(finite_only: bool) -> BoxedStrategy<u8> {
    if finite_only {
        Just(0u8).boxed()
    } else {
        prop_oneof![5 => Just(0u8), 3 => Just(1u8), 2 => Just(2u8), 1 => Just(3u8)].boxed()
    }
}

fn box_spec() -> BoxedStrategy<BoxSpec> {
    (hd(), dim(), hd(), shift(), any::<u8>()).prop_map(|(h, w, d, shift, fill)| BoxSpec { h, w, d, shift, fill }).boxed()
}

/// `boxy` = 0: no boxes or rules; 1: everything; 2: mostly boxes and rules.
fn elem(boxy: u8) -> BoxedStrategy<Elem> {
    let ch = (0..N_GLYPHS as u8).prop_map(Elem::Char).boxed();
    let lig = ((0..N_GLYPHS as u8), "[a-f]{0,3}", any::<bool>(), any::<bool>()).prop_map(|(glyph, orig, left, right)| Elem::Lig { glyph, orig, left, right }).boxed();
    let kern = (dim(), 0u8..4).prop_map(|(w, kind)| Elem::Kern { w, kind }).boxed();
    let rule = (proptest::option::weighted(0.7, hd()), dim(), proptest::option::weighted(0.7, hd())).prop_map(|(h, w, d)| Elem::Rule { h, w, d }).boxed();
    let hbox = box_spec().prop_map(Elem::HBox).boxed();
    let vbox = box_spec().prop_map(Elem::VBox).boxed();
    match boxy {
        0 => prop_oneof![5 => ch, 2 => lig, 3 => kern].boxed(),
        1 => prop_oneof![4 => ch, 2 => lig, 3 => kern, 3 => rule, 3 => hbox, 2 => vbox].boxed(),
        _ => prop_oneof![1 => ch, 1 => kern, 4 => rule, 4 => hbox, 3 => vbox].boxed(),
    }
}

fn glue_node(finite_only: bool) -> BoxedStrategy<Node> {
    (dim(), amt(), order(finite_only), amt(), order(finite_only), 0u8..6).prop_map(|(w, st, sto, sh, sho, kind)| Node::Glue { w, st, sto, sh, sho, kind }).boxed()
}

fn penalty() -> BoxedStrategy<Node> {
    prop_oneof![3 => -10001i32..=10001, 1 => any::<i32>()].prop_map(Node::Penalty).boxed()
}

fn disc(boxy: u8) -> BoxedStrategy<Node> {
    // pre- and post-break material is invisible to hpack: let it contain anything.
    (proptest::collection::vec(elem(1), 0..3), proptest::collection::vec(elem(1), 0..3), proptest::collection::vec(elem(boxy), 0..3))
        .prop_map(|(pre, post, replace)| Node::Disc { pre, post, replace })
        .boxed()
}

/// One or two nodes; the two-node form is an exactly cancelling pair of glue items.
fn chunk(boxy: u8, finite_only: bool, whatsits: bool) -> BoxedStrategy<Vec<Node>> {
    let (we, wg) = match boxy {
        0 => (5, 7),
        1 => (7, 5),
        _ => (8, 3),
    };
    let plain = prop_oneof![
        we => elem(boxy).prop_map(Node::E),
        wg => glue_node(finite_only),
        1 => penalty(),
        1 => disc(boxy),
    ];
    let single = if whatsits { prop_oneof![7 => plain, 1 => any::<u8>().prop_map(Node::Whatsit)].boxed() } else { plain.boxed() };
    let pair = (dim(), dim(), amt(), order(finite_only), amt(), order(finite_only)).prop_map(|(w1, w2, st, sto, sh, sho)| {
        vec![Node::Glue { w: w1, st, sto, sh, sho, kind: 0 }, Node::Glue { w: w2, st: st.negated(), sto, sh: sh.negated(), sho, kind: 0 }]
    });
    prop_oneof![12 => single.prop_map(|n| vec![n]), 1 => pair].boxed()
}

fn nodes(max_chunks: usize) -> BoxedStrategy<Vec<Node>> {
    let list = |boxy: u8, finite_only: bool, whatsits: bool| proptest::collection::vec(chunk(boxy, finite_only, whatsits), 0..=max_chunks).prop_map(|v| v.into_iter().flatten().collect::<Vec<Node>>());
    // (no boxes/rules | everything | mostly boxes and rules) × (all four orders | finite glue only),
    // one mode with whatsits, one with dimensions up to TeX's 2^30−1.
    prop_oneof![
        6 => list(0, false, false),
        2 => list(0, true, false),
        5 => list(1, false, false),
        1 => list(1, true, false),
        2 => list(2, false, false),
        1 => list(1, false, true),
        1 => big_list(),
    ]
    .boxed()
}

// Dimensions in (2^24, 2^30): no longer exact in an f32, still legal in TeX (|dimen| < 2^30).
const MAX_DIMEN: i32 = (1 << 30) - 1;
const BIG: [i32; 8] = [MAX_DIMEN, (1 << 29) + 1, (1 << 29) - 1, (1 << 24) + 1, (1 << 25) + 3, (1 << 28) + 12345, (1 << 26) - 1, 3 * (1 << 28) + 1];

fn big_pos() -> BoxedStrategy<i32> {
    prop_oneof![5 => proptest::sample::select(BIG.to_vec()), 2 => (1i32 << 24)..=MAX_DIMEN, 1 => 0i32..=8].boxed()
}

fn big_dim() -> BoxedStrategy<i32> {
    (big_pos(), prop_oneof![3 => Just(1i32), 1 => Just(-1i32)]).prop_map(|(v, s)| v * s).boxed()
}

fn big_amt() -> BoxedStrategy<Amt> {
    prop_oneof![1 => Just(Amt::Zero), 4 => big_dim().prop_map(Amt::Raw), 2 => amt()].boxed()
}

/// At most four nodes so that most sums stay inside 31 bits (the rest is skipped and counted).
fn big_list() -> BoxedStrategy<Vec<Node>> {
    let node = prop_oneof![
        2 => (big_dim(), 0u8..4).prop_map(|(w, kind)| Node::E(Elem::Kern { w, kind })),
        2 => (proptest::option::weighted(0.7, big_pos()), big_dim(), proptest::option::weighted(0.7, big_pos())).prop_map(|(h, w, d)| Node::E(Elem::Rule { h, w, d })),
        2 => (big_pos(), big_dim(), big_pos(), big_dim(), any::<u8>(), any::<bool>()).prop_map(|(h, w, d, shift, fill, v)| {
            let b = BoxSpec { h, w, d, shift, fill };
            Node::E(if v { Elem::VBox(b) } else { Elem::HBox(b) })
        }),
        4 => (big_dim(), big_amt(), order(false), big_amt(), order(false), 0u8..6).prop_map(|(w, st, sto, sh, sho, kind)| Node::Glue { w, st, sto, sh, sho, kind }),
        1 => (0..N_GLYPHS as u8).prop_map(|g| Node::E(Elem::Char(g))),
        1 => glue_node(true),
    ];
    proptest::collection::vec(node, 0..=4).boxed()
}

fn target_spec() -> BoxedStrategy<TargetSpec> {
    let base = prop_oneof![
        3 => Just(Base::StretchTop),
        3 => Just(Base::ShrinkTop),
        1 => (0u8..4).prop_map(Base::Stretch),
        1 => (0u8..4).prop_map(Base::Shrink),
    ];
    let sign = prop_oneof![2 => Just(0i8), 3 => Just(1i8), 3 => Just(-1i8)];
    let off = prop_oneof![
        5 => Just(0i32),
        2 => Just(1i32),
        2 => Just(-1i32),
        2 => -(1i32 << 20)..=(1i32 << 20),
        1 => dim(),
    ];
    // 1 in 12: the dimension is given absolutely (huge targets, \hbox to\maxdimen, to -\maxdimen).
    let abs = prop_oneof![11 => Just(None), 1 => prop_oneof![3 => big_dim(), 1 => Just(MAX_DIMEN), 1 => Just(-MAX_DIMEN), 1 => dim()].prop_map(Some)];
    (base, sign, off, any::<bool>(), abs).prop_map(|(base, sign, off, exact, abs)| TargetSpec { base, sign, off, exact, abs }).boxed()
}

fn palette() -> BoxedStrategy<Vec<i32>> {
    let mag = prop_oneof![3 => 1i32..=6, 4 => (1i32..=30).prop_map(|k| k * 65536), 2 => 1i32..=(1i32 << 24)];
    proptest::collection::vec(mag, PAL).boxed()
}

fn glyphs() -> BoxedStrategy<Vec<[i32; 3]>> {
    let w = prop_oneof![1 => Just(0i32), 6 => 1i32..=(20 * 65536), 1 => -65536i32..0];
    proptest::collection::vec((w, hd(), hd()).prop_map(|(w, h, d)| [w, h, d]), N_GLYPHS).boxed()
}

/// Per glyph: bit 0 = no height, bit 1 = no depth in the font. Most fonts are complete.
fn missing() -> BoxedStrategy<Vec<u8>> {
    prop_oneof![
        3 => Just(vec![]),
        1 => proptest::collection::vec(prop_oneof![3 => Just(0u8), 1 => Just(1u8), 1 => Just(2u8), 1 => Just(3u8)], N_GLYPHS),
    ]
    .boxed()
}

pub fn case_strategy(max_chunks: usize) -> impl Strategy<Value = HpackCase> {
    (glyphs(), missing(), palette(), nodes(max_chunks), target_spec()).prop_map(|(glyphs, missing, palette, nodes, target)| HpackCase { glyphs, missing, palette, nodes, target })
}

// -------------------------------------------------------------------------------------
// Exhaustive small scope: every list of up to L glue items over 16 stretch "sides"
// (amount ∈ {0, 1, −1, 2} sp × four orders) × every excess in −5..=5 × {exact, additional}.
// The shrink side of item j is the (bijectively re-labelled) stretch side of item L−1−j,
// so both sides run through all combinations while differing from each other.

const SIDE_AMOUNTS: [i32; 4] = [0, 1, -1, 2];

fn small_total(max_len: u32) -> u64 {
    let lists: u64 = (0..=max_len).map(|l| 16u64.pow(l)).sum();
    lists * 22
}

fn small_case(mut i: u64) -> HpackCase {
    let t = i % 22;
    i /= 22;
    let exact = t % 2 == 1;
    let off = (t / 2) as i32 - 5;
    let mut len = 0u32;
    while i >= 16u64.pow(len) {
        i -= 16u64.pow(len);
        len += 1;
    }
    let mut sides = vec![];
    for _ in 0..len {
        sides.push((i % 16) as usize);
        i /= 16;
    }
    let mut nodes = vec![Node::E(Elem::Kern { w: 3, kind: 1 })];
    for j in 0..sides.len() {
        let s = sides[j];
        let r = (sides[sides.len() - 1 - j] * 5 + 3) % 16;
        nodes.push(Node::Glue {
            w: 1,
            st: Amt::Raw(SIDE_AMOUNTS[s % 4]),
            sto: (s / 4) as u8,
            sh: Amt::Raw(SIDE_AMOUNTS[r % 4]),
            sho: (r / 4) as u8,
            kind: 0,
        });
    }
    HpackCase { glyphs: vec![[1, 1, 1]], missing: vec![], palette: vec![1], nodes, target: TargetSpec { base: Base::StretchTop, sign: 0, off, exact, abs: None } }
}

// -------------------------------------------------------------------------------------
// Exhaustive small scope for the box dimensions: every list of up to L items over
// rules (height, depth ∈ {running, 0, 1, 2}sp), hboxes and vboxes (height, depth ∈ {−1, 0, 2}sp,
// shift ∈ {0, ±1, ±3}sp), characters and ligatures (height, depth ∈ {0, 1}sp) and two
// characters whose font lacks the height resp. the depth, packed to the natural width
// (as `spread 0pt` and as `to <natural>`). Independent of random weights this reaches:
// half-running rules whose fixed dimension is the box maximum, shifts that decide the
// maximum, hbox vs vbox, ligature vs character, all-negative candidates (floor 0).

const DIMS_GLYPHS: [[i32; 3]; 6] = [[4, 0, 0], [4, 0, 1], [4, 1, 0], [4, 1, 1], [4, 3, 3], [4, 3, 3]];
const DIMS_MISSING: [u8; 6] = [0, 0, 0, 0, 1, 2];

fn dims_elems() -> Vec<Elem> {
    let mut out = vec![];
    let rd = [None, Some(0), Some(1), Some(2)];
    for h in rd {
        for d in rd {
            out.push(Elem::Rule { h, w: 1, d });
        }
    }
    for vbox in [false, true] {
        for h in [-1, 0, 2] {
            for d in [-1, 0, 2] {
                for shift in [0, 1, -1, 3, -3] {
                    let b = BoxSpec { h, w: 2, d, shift, fill: 0 };
                    out.push(if vbox { Elem::VBox(b) } else { Elem::HBox(b) });
                }
            }
        }
    }
    for g in 0..6u8 {
        out.push(Elem::Char(g));
    }
    for g in 0..4u8 {
        out.push(Elem::Lig { glyph: g, orig: "ab".into(), left: false, right: false });
    }
    out
}

fn dims_total(max_len: u32) -> u64 {
    let n = dims_elems().len() as u64;
    (0..=max_len).map(|l| n.pow(l)).sum::<u64>() * 2
}

fn dims_case(elems: &[Elem], mut i: u64) -> HpackCase {
    let exact = i % 2 == 1;
    i /= 2;
    let n = elems.len() as u64;
    let mut len = 0u32;
    while i >= n.pow(len) {
        i -= n.pow(len);
        len += 1;
    }
    let mut nodes = vec![];
    for _ in 0..len {
        nodes.push(Node::E(elems[(i % n) as usize].clone()));
        i /= n;
    }
    HpackCase {
        glyphs: DIMS_GLYPHS.to_vec(),
        missing: DIMS_MISSING.to_vec(),
        palette: vec![1],
        nodes,
        target: TargetSpec { base: Base::StretchTop, sign: 0, off: 0, exact, abs: None },
    }
}

// -------------------------------------------------------------------------------------
// Calibration on the repository's TeX-generated goldens (line boxes of broken paragraphs
// and natural-width hboxes in cmr10): the *model* must reproduce TeX's printed box
// (height, depth, glue order, glue set rounded as TeX prints it) before it is trusted,
// and the implementation must agree with the model on the same lists.

#[derive(Clone, Debug, Serialize, Deserialize)]
pub struct GoldenBox {
    pub file: String,
    pub index: u32,
    /// The box in Box language, exactly as the golden file has it.
    pub source: String,
}

fn repo_root() -> String {
    std::env::var("VP_REPO").unwrap_or_else(|_| "/repo".to_string())
}

fn collect_hboxes(list: &[ds::Horizontal], out: &mut Vec<ds::HBox>) {
    for n in list {
        match n {
            ds::Horizontal::HBox(b) => out.push(b.clone()),
            ds::Horizontal::VBox(v) => {
                for m in &v.list {
                    if let ds::Vertical::HBox(b) = m {
                        out.push(b.clone());
                    }
                }
            }
            _ => {}
        }
    }
}

/// Every hbox of the golden files. Files the harness cannot use (unreadable, not a
/// horizontal list in Box language) are skipped and named in the second result: they say
/// nothing about `HBox::pack`, and code outside C15's anchors (the Box-language parser) must
/// not turn into a C15 alarm.
fn load_goldens(ctx: &Ctx) -> (Vec<GoldenBox>, Vec<String>) {
    let root = repo_root();
    let mut skipped: Vec<String> = vec![];
    let mut files: Vec<String> = vec![];
    let dir = format!("{root}/crates/boxworks-knuthplass/testdata");
    let mut names: Vec<String> = match std::fs::read_dir(&dir) {
        Ok(rd) => rd.filter_map(|e| e.ok()).map(|e| e.file_name().to_string_lossy().to_string()).filter(|n| n.ends_with("_want.txt")).collect(),
        Err(e) => {
            skipped.push(format!("{dir}: cannot read the directory: {e}"));
            vec![]
        }
    };
    names.sort();
    for n in names {
        files.push(format!("crates/boxworks-knuthplass/testdata/{n}"));
    }
    for n in ["wolf_hall_linebreak_line_penalty.txt", "wolf_hall_linebreak_right_skip.txt", "wolf_hall_linebreak_vlist_penalties.txt", "farewell_to_arms_linebreak_looseness.txt"] {
        files.push(format!("crates/boxworks-bin/tests/{n}"));
    }
    if ctx.tier == Tier::Thorough {
        for n in ["alice_in_wonderland_linebreak.txt", "alice_in_wonderland_hlists.txt", "alice_in_wonderland_hlists_hyphenated.txt"] {
            files.push(format!("crates/boxworks-bin/tests/{n}"));
        }
    }
    let mut out = vec![];
    for f in files {
        let path = format!("{root}/{f}");
        let text = match std::fs::read_to_string(&path) {
            Ok(t) => t,
            Err(e) => {
                skipped.push(format!("{f}: cannot read: {e}"));
                continue;
            }
        };
        // The parser is not C15's subject: a panic or an error in it skips the file.
        let list = match panics::catch(|| boxworks::lang::parse_horizontal_list(&text)) {
            Ok(Ok(l)) => l,
            Ok(Err(e)) => {
                skipped.push(format!("{f}: not a horizontal list in Box language ({} errors)", e.len()));
                continue;
            }
            Err(info) => {
                skipped.push(format!("{f}: the Box-language parser panicked at {}", info.site()));
                continue;
            }
        };
        let mut boxes = vec![];
        collect_hboxes(&list, &mut boxes);
        for (i, b) in boxes.into_iter().enumerate() {
            match panics::catch(|| format!("{}", ds::Horizontal::HBox(b))) {
                Ok(source) => out.push(GoldenBox { file: f.clone(), index: i as u32, source }),
                Err(_) => skipped.push(format!("{f}#{i}: the box cannot be printed in Box language")),
            }
        }
    }
    for s in &skipped {
        eprintln!("C15: golden skipped: {s}");
    }
    (out, skipped)
}

/// `round(unity·g)` as TeX §186 prints the glue set (half away from zero, capped at 20000).
fn printed_glue_set(p: &Packed) -> i64 {
    if !p.is_set() {
        return 0;
    }
    let n = (p.set_num as i128).abs();
    let d = (p.set_den as i128).abs();
    let v = (2 * 65536 * n + d) / (2 * d);
    v.min(20000 * 65536) as i64
}

fn golden_oracle(ctx: &Ctx, tfm: &[u8], g: &GoldenBox, case: &mut Case) -> Verdict {
    // Anything the harness cannot model is skipped (and counted), never failed: only a box
    // that the model *can* describe and TeX printed differently is a calibration failure.
    let list = match panics::catch(|| boxworks::lang::parse_horizontal_list(&g.source)) {
        Ok(Ok(l)) => l,
        _ => return Verdict::Skip("golden box does not re-parse from its Box-language form (not C15's subject)"),
    };
    let Some(ds::Horizontal::HBox(gold)) = list.into_iter().next() else {
        return Verdict::Skip("golden box does not re-parse from its Box-language form (not C15's subject)");
    };
    use ds::Horizontal as H;
    if gold.list.iter().any(|n| matches!(n, H::Mark(_) | H::Insertion(_) | H::Adjust(_) | H::Math(_))) {
        return Verdict::Skip("golden box contains mark/insertion/adjust/math nodes (HBox::pack documents todo!() there)");
    }
    if gold.list.iter().any(|n| matches!(n, H::Char(ds::Char { font, .. }) | H::Ligature(ds::Ligature { font, .. }) if *font != 0)) {
        return Verdict::Skip("golden box uses a font other than cmr10 (the only one the harness registers)");
    }
    let mut repo: boxworks_text::TfmFontRepo = Default::default();
    let Ok(Ok(file)) = panics::catch(|| tfm::File::deserialize(tfm).0) else {
        return Verdict::Skip("cmr10.tfm does not load (not C15's subject)");
    };
    repo.register_font(0, file);
    let items = match panics::catch(|| model::items_from_ds(&repo, &gold.list)) {
        Ok(Ok(i)) => i,
        _ => return Verdict::Skip("golden box has a character cmr10 lacks"),
    };
    let target = Target::Exact(gold.width.0 as i64);
    let Ok(want) = model::hpack(&items, target, Deviations::NONE) else {
        return Verdict::Skip("a sum exceeds 31 bits");
    };
    let shape = analyze(&gold.list, &items, &want, case);
    let describe = || format!("golden {}#{}: [{}] to {}sp", g.file, g.index, render_items(&gold.list, &items), gold.width.0);
    case.note = Some(describe());
    case.classes.sort();
    case.classes.dedup();
    // 1. model against TeX's printed box
    let mut diffs = vec![];
    if want.height != gold.height.0 as i64 {
        diffs.push(format!("height model {} TeX {}", want.height, gold.height.0));
    }
    if want.depth != gold.depth.0 as i64 {
        diffs.push(format!("depth model {} TeX {}", want.depth, gold.depth.0));
    }
    let gold_set_printed = want.is_set() || gold.glue_ratio.num.0 != 0;
    if gold_set_printed && model::order_index(gold.glue_order) != want.glue_order {
        diffs.push(format!("order model {} TeX {:?}", model::order_name(want.glue_order), gold.glue_order));
    }
    // The golden's glue set as TeX printed it, in scaled units (round(unity·|num/den|)): the
    // Box-language parser is free to choose num and den (today den = unity).
    if gold.glue_ratio.den.0 == 0 {
        return Verdict::Skip("golden box has a glue ratio with denominator 0 (parser's representation, not C15's subject)");
    }
    let (gn, gd) = ((gold.glue_ratio.num.0 as i128).abs(), (gold.glue_ratio.den.0 as i128).abs());
    let gold_printed = ((2 * 65536 * gn + gd) / (2 * gd)) as i64;
    if (printed_glue_set(&want) - gold_printed).abs() > 1 + (printed_glue_set(&want) >> 22) {
        // TeX holds glue_set in a (single-precision) float, so large ratios are printed with
        // a relative error of about 2^-24; the tolerance is 1 unit + 2^-22 relative.
        diffs.push(format!("glue set model {}/{} prints as {} (scaled), TeX printed {}", want.set_num, want.set_den, printed_glue_set(&want), gold_printed));
    }
    if !diffs.is_empty() {
        return Verdict::Fail(format!("MODEL CALIBRATION FAILURE (the reference hpack disagrees with a TeX-generated golden): {}\n{}", diffs.join("; "), describe()));
    }
    // 2. implementation against model
    let nontrivial = !items.is_empty() && (shape.mixed || shape.cancel || shape.boundary || shape.dims);
    match check_pack(ctx, &repo, &gold.list, &items, target, &want, &describe) {
        Ok(()) => Verdict::pass(nontrivial),
        Err(v) => v,
    }
}

// -------------------------------------------------------------------------------------

pub fn run(ctx: &Ctx) {
    ctx.rule(
        "cases = horizontal lists of characters and ligatures (synthetic font: 6 glyphs in 3 fonts with generated width/height/depth; in a quarter of the cases some glyphs have no height and/or no depth in the font), kerns of all kinds, rules (fixed, half-running and running height/depth), nested hboxes/vboxes with zero, positive and negative shifts, penalties, discretionaries (followed by their replace nodes) and glue of all six kinds (normal, conditional math, math, aligned/centered/expanded leaders) whose stretch and shrink have all four orders and positive, zero and negative amounts drawn from a small per-case palette (so +a −a cancellations, 0fil and sums occur often; cancelling pairs are also inserted explicitly) × a target = natural + s·T + off with s ∈ {0,±1}, T a per-order stretch or shrink total, off ∈ {0,±1sp,random}, or (1 in 12) an absolute dimension up to ±(2^30−1)sp, requested as Exact or Additional; one list mode in 18 has ≤4 nodes with dimensions up to 2^30−1sp (beyond f32 exactness), one in 18 contains whatsits; plus an exhaustive enumeration of all lists of ≤3 (thorough: ≤4) glue items over {0,1,−1,2}sp × 4 orders with every excess in −5..5sp (small_scope), an exhaustive enumeration of all lists of ≤2 (thorough: ≤3) items over 16 rules (h,d ∈ {running,0,1,2}sp), 90 hboxes/vboxes (h,d ∈ {−1,0,2}sp, shift ∈ {0,±1,±3}sp), 6 characters (two with partial metrics) and 4 ligatures at the natural width (dims_small), and every hbox of the repository's TeX-generated goldens. HBox::pack is compared with a transcription of TeX §649–667 (per-order totals, i64, exact rational glue set). non-trivial = non-empty list and (two different orders present on the side being set, or an order that is present has total zero, or an exact-boundary target: excess ∈ {0,±1sp} with flexible glue, or |excess| within 1sp of the total being set, or a box maximum that is decided by the shift of a nested box, by the fixed dimension of a half-running rule, by a ligature, or by the 0 floor against negative candidates only); distinct = by case value",
    );
    ctx.assume("mark, insertion, adjust and math nodes are not generated: HBox::pack is documented todo!() on them and the property's quantifier does not list them");
    ctx.assume("leader glue is generated with all three leader kinds, but ds::Glue carries no leader box: TeX §656's 'leader box height/depth count' has nothing to apply to, so leader glue must behave exactly like ordinary glue (width and stretch/shrink totals)");
    ctx.assume("whatsit nodes (one list mode in 18) are outside the property's literal quantifier; TeX §1360 determines them (hpack does nothing) and HBox::pack documents the same, so they are demanded to be invisible; a failure message names the whatsits so that it can be judged");
    ctx.assume("every character node refers to a glyph whose width the font repository knows (TeX never builds a char node for a missing character); a glyph without height or depth in the repository has height/depth 0, as FontRepo::width_height_depth documents (a TFM's height/depth index 0 is 0pt); a rule's width is never running in an hlist (TeX §138)");
    ctx.assume("individual dimensions are below 2^30sp in absolute value (TeX's limit for a dimension; 2^24sp outside the big list mode and the absolute targets) and every sum TeX forms must fit in 31 bits (TeX's own arithmetic is undefined beyond): cases violating this are skipped and counted");
    ctx.assume("the glue ratio is demanded as the exact rational the crate documents (GlueRatio: 'a real ratio: a numerator and a denominator'), also for dimensions beyond 2^24sp where TeX's own float glue_set is only approximate: |num/den| = |excess/total| exactly");
    ctx.assume("ds::HBox has no glue_sign field; the sign of the ratio is its only carrier. The convention-free reading is demanded: the set width natural + ratio·(total being set) equals the box width when TeX sets the glue and the box is not overfull, and equals natural − total shrink when it is overfull (ratio −1: TeX's glue_set=1.0 with glue_sign=shrinking, printed `glue set - 1.0`, which boxworks::tex::parse_glue_set maps to a negative numerator, as HBox::pack itself does for every other shrinking box). With a negative total the sign of the ratio is the opposite of what TeX's glue_sign would suggest; that follows from the representation and is accepted");
    ctx.assume("an unset box must have glue order normal as in TeX (§658/§664 set glue_order:=o with o=normal when every total is zero)");
    ctx.assume("the packed list must be the input list; the only tolerated change is TeX's own (§666): one trailing rule with running height and depth when TeX takes the overfull branch of §664");

    // Self-test knob (sensitivity experiments only): VP_C15_ONLY=<sub-check> runs just that
    // sub-check when generating, so that each generator's detection power can be measured alone.
    let only = if ctx.is_generate() { std::env::var("VP_C15_ONLY").ok() } else { None };
    if let Some(o) = &only {
        eprintln!("C15: VP_C15_ONLY={o}: only this sub-check runs (self-test knob; the evidence of this run is incomplete)");
        ctx.assume("SELF-TEST RUN: VP_C15_ONLY was set, only one sub-check ran");
    }
    let enabled = |sub: &str| only.as_deref().map(|o| o == sub).unwrap_or(true);

    // Calibration on goldens. Unusable files are skipped and listed in the evidence.
    if enabled("golden_boxes") {
        let tfm_path = format!("{}/crates/tfm/corpus/computer-modern/cmr10.tfm", repo_root());
        match std::fs::read(&tfm_path) {
            Ok(tfm) => {
                let (goldens, skipped) = if ctx.is_generate() { load_goldens(ctx) } else { (vec![], vec![]) };
                run_list(ctx, "golden_boxes", goldens, |g: &GoldenBox, case| golden_oracle(ctx, &tfm, g, case));
                if ctx.is_generate() {
                    ctx.extra("golden_boxes", "files_skipped", serde_json::json!(skipped));
                }
            }
            Err(e) => {
                eprintln!("C15: golden calibration skipped: cannot read {tfm_path}: {e}");
                if ctx.is_generate() {
                    ctx.extra("golden_boxes", "files_skipped", serde_json::json!([format!("{tfm_path}: {e} (whole sub-check skipped)")]));
                }
            }
        }
    }

    // Exhaustive small scope: glue.
    if enabled("small_scope") {
        let max_len = ctx.tier.pick(3u32, 4u32);
        run_indexed(ctx, "small_scope", small_total(max_len), true, small_case, |c: &HpackCase, case| oracle(ctx, c, case));
    }

    // Exhaustive small scope: box dimensions.
    if enabled("dims_small") {
        let max_len = ctx.tier.pick(2u32, 3u32);
        let elems = dims_elems();
        run_indexed(ctx, "dims_small", dims_total(max_len), true, |i| dims_case(&elems, i), |c: &HpackCase, case| oracle(ctx, c, case));
    }

    // Random lists.
    if enabled("lists") {
        let n = ctx.tier.pick(1_500_000u64, 20_000_000u64);
        let max_chunks = ctx.tier.pick(24usize, 32usize);
        run_generated(ctx, "lists", n, || case_strategy(max_chunks), |c: &HpackCase, case| oracle(ctx, c, case));
    }
}
