//! C01 Group scoping: local assignments undone, global ones survive, at any depth.

use crate::engine::*;
use crate::texvm::{self, VmOptions};
use proptest::prelude::*;
use serde::{Deserialize, Serialize};
use std::collections::BTreeMap;

#[derive(Clone, Copy, Debug, PartialEq, Eq, PartialOrd, Ord, Serialize, Deserialize)]
pub enum Tgt {
    Count(u8),     // \count i
    Dimen(u8),     // \dimen i
    Skip,          // \skip0
    Toks(u8),      // \toks i
    CountAliasDef, // \countdef\ca=n   (the binding)
    ViaCountAlias, // \ca=v            (the register behind the binding)
    ToksAliasDef,  // \toksdef\ta=n
    ViaToksAlias,  // \ta={..}
    CharDef,       // \chardef\cd=n
    Macro(u8),     // 0: \ma  1: \mb  2: active ~
    CatCode(u8),   // index into CAT_CHARS
    MathCode,      // \mathcode 65
    EndLineChar,
    GlobalDefs,
    Font,
}

const CAT_CHARS: [u32; 3] = [1, 2, 124];
const COUNT_REGS: [u32; 4] = [0, 1, 2, 5];
const BODIES: [&str; 8] = ["A", "B", "CD", "E", "GH", "I", "JK", "L"];
const FONTS: [(&str, i64); 4] = [("nullfont", 0), ("vpfa", 1), ("vpfb", 2), ("vpfc", 3)];
const MACRO_NAMES: [&str; 3] = ["\\ma", "\\mb", "~"];

#[derive(Clone, Copy, Debug, PartialEq, Eq, Serialize, Deserialize)]
pub enum How {
    Plain,
    /// `\global` prefix
    Global,
    /// macros only: `\gdef`
    Gdef,
    /// macros only: `\global\gdef`
    GlobalGdef,
    /// macros only: `\let\x=\y`
    Let,
    /// macros only: `\global\let\x=\y`
    GlobalLet,
}

#[derive(Clone, Copy, Debug, PartialEq, Eq, Serialize, Deserialize)]
pub enum Op {
    Begin,
    End,
    Assign { t: Tgt, v: u8, how: How },
    Read(Tgt),
}

#[derive(Clone, Debug, Serialize, Deserialize)]
pub struct Program {
    pub ops: Vec<Op>,
}

#[derive(Clone, Debug, PartialEq, Eq)]
enum Val {
    I(i64),
    S(String),
    Glue(i64, i64),
}

type Frame = BTreeMap<String, Val>;

#[derive(Clone, Copy, Default, Debug)]
pub struct Deviations {
    /// `\gdef` is global even when `\globaldefs` is negative (TeX §1218 makes it local).
    pub gdef_ignores_negative_globaldefs: bool,
}

fn count_key(i: u32) -> String {
    format!("count{}", i)
}
fn toks_key(i: u32) -> String {
    format!("toks{}", i)
}

fn initial_frame() -> Frame {
    let mut f = Frame::new();
    for i in COUNT_REGS {
        f.insert(count_key(i), Val::I(0));
    }
    for i in 0..2 {
        f.insert(format!("dimen{}", i), Val::I(0));
    }
    f.insert("skip".into(), Val::Glue(0, 0));
    for i in 0..3 {
        f.insert(toks_key(i), Val::S(String::new()));
    }
    f.insert("ca".into(), Val::I(5));
    f.insert("ta".into(), Val::I(2));
    f.insert("cd".into(), Val::I(65));
    f.insert("m0".into(), Val::S("A".into()));
    f.insert("m1".into(), Val::S("B".into()));
    f.insert("m2".into(), Val::S("T".into()));
    f.insert("cat0".into(), Val::I(15)); // ^^A: invalid? plain-TeX default table below
    f.insert("cat1".into(), Val::I(12));
    f.insert("cat2".into(), Val::I(12));
    f.insert("mathcode".into(), Val::I(0));
    f.insert("endlinechar".into(), Val::I(13));
    f.insert("globaldefs".into(), Val::I(0));
    f.insert("font".into(), Val::I(0));
    f
}

const PREAMBLE: &str = "\\countdef\\ca=5\\relax \\toksdef\\ta=2\\relax \\chardef\\cd=65\\relax \\def\\ma{A}\\def\\mb{B}\\def~{T}";

fn int_value(t: Tgt, v: u8) -> i64 {
    match t {
        Tgt::Count(_) | Tgt::ViaCountAlias => [0i64, 1, -1, 7, 42, -2147483647, 2147483647, 100][(v % 8) as usize],
        Tgt::Dimen(_) => (v % 7) as i64,
        Tgt::CountAliasDef => COUNT_REGS[(v % 4) as usize] as i64,
        Tgt::ToksAliasDef => (v % 3) as i64,
        Tgt::CharDef => 65 + (v % 6) as i64,
        Tgt::CatCode(_) => (v % 16) as i64,
        Tgt::MathCode => [0i64, 1, 32767, 28999][(v % 4) as usize],
        Tgt::EndLineChar => [-1i64, 13, 65, 32, 94][(v % 5) as usize],
        Tgt::GlobalDefs => [0i64, 1, -1][(v % 3) as usize],
        _ => v as i64,
    }
}

struct Emit {
    text: String,
    model: Vec<Frame>,
    expected: String,
    dev: Deviations,
}

impl Emit {
    fn top(&self) -> &Frame {
        self.model.last().unwrap()
    }
    fn geti(&self, k: &str) -> i64 {
        match self.top().get(k) {
            Some(Val::I(i)) => *i,
            other => panic!("model key {k} = {other:?}"),
        }
    }
    fn set(&mut self, key: String, val: Val, global: bool) {
        if global {
            for f in &mut self.model {
                f.insert(key.clone(), val.clone());
            }
        } else {
            self.model.last_mut().unwrap().insert(key, val);
        }
    }
    /// Scope of an assignment, from TeX's rules; `prefixed` = `\global` present.
    fn is_global(&self, prefixed: bool) -> bool {
        let g = self.geti("globaldefs");
        if g > 0 {
            true
        } else if g < 0 {
            false
        } else {
            prefixed
        }
    }
    fn read(&mut self, t: Tgt) {
        let (text, val): (String, String) = match t {
            Tgt::Count(i) => {
                let r = COUNT_REGS[(i % 4) as usize];
                (format!("\\the\\count{};", r), format!("{}", self.geti(&count_key(r))))
            }
            Tgt::Dimen(i) => {
                let i = i % 2;
                (format!("\\the\\dimen{};", i), format!("{}.0pt", self.geti(&format!("dimen{}", i))))
            }
            Tgt::Skip => {
                let s = match self.top().get("skip") {
                    Some(Val::Glue(a, b)) => {
                        if *b == 0 {
                            format!("{}.0pt", a)
                        } else {
                            format!("{}.0pt plus {}.0pt", a, b)
                        }
                    }
                    _ => unreachable!(),
                };
                ("\\the\\skip0;".to_string(), s)
            }
            Tgt::Toks(i) => {
                let i = (i % 3) as u32;
                let s = match self.top().get(&toks_key(i)) {
                    Some(Val::S(s)) => s.clone(),
                    _ => unreachable!(),
                };
                (format!("\\the\\toks{};", i), s)
            }
            Tgt::CountAliasDef | Tgt::ViaCountAlias => {
                let r = self.geti("ca") as u32;
                ("\\the\\ca;".to_string(), format!("{}", self.geti(&count_key(r))))
            }
            Tgt::ToksAliasDef | Tgt::ViaToksAlias => {
                let r = self.geti("ta") as u32;
                let s = match self.top().get(&toks_key(r)) {
                    Some(Val::S(s)) => s.clone(),
                    _ => unreachable!(),
                };
                ("\\the\\ta;".to_string(), s)
            }
            Tgt::CharDef => ("\\the\\cd;".to_string(), format!("{}", self.geti("cd"))),
            Tgt::Macro(i) => {
                let i = i % 3;
                let s = match self.top().get(&format!("m{}", i)) {
                    Some(Val::S(s)) => s.clone(),
                    _ => unreachable!(),
                };
                (format!("{};", MACRO_NAMES[i as usize]), s)
            }
            Tgt::CatCode(i) => {
                let i = i % 3;
                (format!("\\the\\catcode{};", CAT_CHARS[i as usize]), format!("{}", self.geti(&format!("cat{}", i))))
            }
            Tgt::MathCode => ("\\the\\mathcode65;".to_string(), format!("{}", self.geti("mathcode"))),
            Tgt::EndLineChar => ("\\the\\endlinechar;".to_string(), format!("{}", self.geti("endlinechar"))),
            Tgt::GlobalDefs => ("\\the\\globaldefs;".to_string(), format!("{}", self.geti("globaldefs"))),
            Tgt::Font => ("\\vpfont;".to_string(), format!("<probe0={}>", self.geti("font"))),
        };
        self.text.push_str(&text);
        self.expected.push_str(&val);
        self.expected.push(';');
    }
    fn read_all(&mut self) {
        for t in all_targets() {
            // Aliased reads duplicate the plain ones; keep one of each pair.
            if matches!(t, Tgt::ViaCountAlias | Tgt::ViaToksAlias) {
                continue;
            }
            if matches!(t, Tgt::Font) && NO_FONT.with(|f| f.get()) {
                continue;
            }
            self.read(t);
        }
    }
    fn assign(&mut self, t: Tgt, v: u8, how: How) {
        let is_macro = matches!(t, Tgt::Macro(_));
        // Normalise `how` for the target kind.
        let how = if is_macro {
            how
        } else {
            match how {
                How::Plain | How::Let => How::Plain,
                _ => How::Global,
            }
        };
        // \chardef cannot be prefixed by \global in Texlang (fatal error): never prefix it.
        let how = if matches!(t, Tgt::CharDef) { How::Plain } else { how };
        let prefixed = matches!(how, How::Global | How::GlobalGdef | How::GlobalLet);
        let prefix = if prefixed { "\\global" } else { "" };
        let global = self.is_global(prefixed);
        match t {
            Tgt::Count(i) => {
                let r = COUNT_REGS[(i % 4) as usize];
                let val = int_value(t, v);
                self.text.push_str(&format!("{}\\count{}={}\\relax ", prefix, r, val));
                self.set(count_key(r), Val::I(val), global);
            }
            Tgt::ViaCountAlias => {
                let r = self.geti("ca") as u32;
                let val = int_value(t, v);
                self.text.push_str(&format!("{}\\ca={}\\relax ", prefix, val));
                self.set(count_key(r), Val::I(val), global);
            }
            Tgt::Dimen(i) => {
                let i = i % 2;
                let val = int_value(t, v);
                self.text.push_str(&format!("{}\\dimen{}={}pt\\relax ", prefix, i, val));
                self.set(format!("dimen{}", i), Val::I(val), global);
            }
            Tgt::Skip => {
                let a = (v % 5) as i64;
                let b = ((v / 5) % 3) as i64;
                if b == 0 {
                    self.text.push_str(&format!("{}\\skip0={}pt\\relax ", prefix, a));
                } else {
                    self.text.push_str(&format!("{}\\skip0={}pt plus {}pt\\relax ", prefix, a, b));
                }
                self.set("skip".into(), Val::Glue(a, b), global);
            }
            Tgt::Toks(i) => {
                let i = (i % 3) as u32;
                let body = BODIES[(v % 8) as usize];
                self.text.push_str(&format!("{}\\toks{}={{{}}}", prefix, i, body));
                self.set(toks_key(i), Val::S(body.into()), global);
            }
            Tgt::ViaToksAlias => {
                let r = self.geti("ta") as u32;
                let body = BODIES[(v % 8) as usize];
                self.text.push_str(&format!("{}\\ta={{{}}}", prefix, body));
                self.set(toks_key(r), Val::S(body.into()), global);
            }
            Tgt::CountAliasDef => {
                let val = int_value(t, v);
                self.text.push_str(&format!("{}\\countdef\\ca={}\\relax ", prefix, val));
                self.set("ca".into(), Val::I(val), global);
            }
            Tgt::ToksAliasDef => {
                let val = int_value(t, v);
                self.text.push_str(&format!("{}\\toksdef\\ta={}\\relax ", prefix, val));
                self.set("ta".into(), Val::I(val), global);
            }
            Tgt::CharDef => {
                let val = int_value(t, v);
                self.text.push_str(&format!("\\chardef\\cd={}\\relax ", val));
                self.set("cd".into(), Val::I(val), global);
            }
            Tgt::Macro(i) => {
                let i = i % 3;
                let name = MACRO_NAMES[i as usize];
                match how {
                    How::Let | How::GlobalLet => {
                        let src = ((i as usize) + 1 + (v as usize % 2)) % 3;
                        let sval = self.top().get(&format!("m{}", src)).unwrap().clone();
                        self.text.push_str(&format!("{}\\let{}={}\\relax ", prefix, name, MACRO_NAMES[src]));
                        self.set(format!("m{}", i), sval, global);
                    }
                    _ => {
                        let body = BODIES[(v % 8) as usize];
                        let gdef = matches!(how, How::Gdef | How::GlobalGdef);
                        let g = self.geti("globaldefs");
                        let global = if gdef {
                            if g < 0 {
                                self.dev.gdef_ignores_negative_globaldefs
                            } else {
                                true
                            }
                        } else {
                            global
                        };
                        self.text.push_str(&format!("{}\\{}{}{{{}}}", prefix, if gdef { "gdef" } else { "def" }, name, body));
                        self.set(format!("m{}", i), Val::S(body.into()), global);
                    }
                }
            }
            Tgt::CatCode(i) => {
                let i = i % 3;
                let val = int_value(t, v);
                self.text.push_str(&format!("{}\\catcode{}={}\\relax ", prefix, CAT_CHARS[i as usize], val));
                self.set(format!("cat{}", i), Val::I(val), global);
            }
            Tgt::MathCode => {
                let val = int_value(t, v);
                self.text.push_str(&format!("{}\\mathcode65={}\\relax ", prefix, val));
                self.set("mathcode".into(), Val::I(val), global);
            }
            Tgt::EndLineChar => {
                let val = int_value(t, v);
                self.text.push_str(&format!("{}\\endlinechar={}\\relax ", prefix, val));
                self.set("endlinechar".into(), Val::I(val), global);
            }
            Tgt::GlobalDefs => {
                let val = int_value(t, v);
                self.text.push_str(&format!("{}\\globaldefs={}\\relax ", prefix, val));
                self.set("globaldefs".into(), Val::I(val), global);
            }
            Tgt::Font => {
                let (name, id) = FONTS[(v % 4) as usize];
                self.text.push_str(&format!("{}\\{} ", prefix, name));
                self.set("font".into(), Val::I(id), global);
            }
        }
    }
}

fn all_targets() -> Vec<Tgt> {
    let mut v = vec![];
    for i in 0..4 {
        v.push(Tgt::Count(i));
    }
    for i in 0..2 {
        v.push(Tgt::Dimen(i));
    }
    v.push(Tgt::Skip);
    for i in 0..3 {
        v.push(Tgt::Toks(i));
    }
    v.push(Tgt::CountAliasDef);
    v.push(Tgt::ViaCountAlias);
    v.push(Tgt::ToksAliasDef);
    v.push(Tgt::ViaToksAlias);
    v.push(Tgt::CharDef);
    for i in 0..3 {
        v.push(Tgt::Macro(i));
    }
    for i in 0..3 {
        v.push(Tgt::CatCode(i));
    }
    v.push(Tgt::MathCode);
    v.push(Tgt::EndLineChar);
    v.push(Tgt::GlobalDefs);
    v.push(Tgt::Font);
    v
}

pub struct Built {
    pub text: String,
    pub expected: String,
    pub max_depth: usize,
    pub nontrivial: bool,
    pub uses_globaldefs: bool,
}

pub fn build(p: &Program, dev: Deviations) -> Built {
    build_opts(p, dev, None, false).0
}

/// Like `build`, but optionally without font targets (for engines that lack the harness probes)
/// and reporting the byte offset in `text` just before operation `split_at` (after the preamble
/// when `split_at` is 0; the end of the operations when it is >= their number).
pub fn build_opts(p: &Program, dev: Deviations, split_at: Option<usize>, no_font: bool) -> (Built, usize) {
    let ops: Vec<Op> = p.ops.iter().filter(|o| !(no_font && matches!(o, Op::Assign { t: Tgt::Font, .. } | Op::Read(Tgt::Font)))).copied().collect();
    let p = &Program { ops };
    NO_FONT.with(|f| f.set(no_font));
    let r = build_inner(p, dev, split_at);
    NO_FONT.with(|f| f.set(false));
    r
}

thread_local! {
    static NO_FONT: std::cell::Cell<bool> = const { std::cell::Cell::new(false) };
}

fn build_inner(p: &Program, dev: Deviations, split_at: Option<usize>) -> (Built, usize) {
    let mut f0 = initial_frame();
    // category codes of ^^A, ^^B and | under the plain-TeX defaults of the VM
    let defaults = texlang::types::CatCode::PLAIN_TEX_DEFAULTS;
    for (i, c) in CAT_CHARS.iter().enumerate() {
        f0.insert(format!("cat{}", i), Val::I(defaults[*c as usize] as u8 as i64));
    }
    let mut e = Emit { text: String::from(PREAMBLE), model: vec![f0], expected: String::new(), dev };
    let mut max_depth = 0;
    // per open group: targets assigned locally / globally in it
    let mut touched: Vec<BTreeMap<Tgt, (bool, bool)>> = vec![BTreeMap::new()];
    let mut nontrivial = false;
    let mut uses_globaldefs = false;
    let mut split_pos: Option<usize> = None;
    for (op_index, op) in p.ops.iter().enumerate() {
        if split_at == Some(op_index) {
            split_pos = Some(e.text.len());
        }
        match op {
            Op::Begin => {
                if e.model.len() > 8 {
                    continue;
                }
                e.text.push('{');
                let top = e.top().clone();
                e.model.push(top);
                touched.push(BTreeMap::new());
                max_depth = max_depth.max(e.model.len() - 1);
            }
            Op::End => {
                if e.model.len() == 1 {
                    continue;
                }
                e.text.push('}');
                e.model.pop();
                touched.pop();
                e.read_all();
            }
            Op::Assign { t, v, how } => {
                let before_g = e.geti("globaldefs");
                e.assign(*t, *v, *how);
                if matches!(t, Tgt::GlobalDefs) || before_g != 0 {
                    uses_globaldefs = true;
                }
                let depth = e.model.len() - 1;
                let is_g = !matches!(how, How::Plain | How::Let) || before_g > 0;
                let ent = touched.last_mut().unwrap().entry(*t).or_insert((false, false));
                if is_g {
                    ent.1 = true;
                } else {
                    ent.0 = true;
                }
                if depth >= 2 && ent.0 && ent.1 {
                    nontrivial = true;
                }
            }
            Op::Read(t) => e.read(*t),
        }
    }
    let split_pos = split_pos.unwrap_or(e.text.len());
    while e.model.len() > 1 {
        e.text.push('}');
        e.model.pop();
        e.read_all();
    }
    e.read_all();
    e.text.push('%');
    (Built { text: e.text, expected: e.expected, max_depth, nontrivial, uses_globaldefs }, split_pos)
}

fn tgt_strategy() -> impl Strategy<Value = Tgt> {
    let all = all_targets();
    (0..all.len()).prop_map(move |i| all[i])
}

fn how_strategy() -> impl Strategy<Value = How> {
    prop_oneof![
        4 => Just(How::Plain),
        4 => Just(How::Global),
        1 => Just(How::Gdef),
        1 => Just(How::GlobalGdef),
        1 => Just(How::Let),
        1 => Just(How::GlobalLet),
    ]
}

pub fn program_strategy(max_ops: usize) -> impl Strategy<Value = Program> {
    // A focus set of a few targets makes local/global collisions on one target likely.
    (proptest::collection::vec(tgt_strategy(), 1..4), proptest::collection::vec((0u8..10, tgt_strategy(), any::<u8>(), how_strategy(), 0u8..10), 0..max_ops)).prop_map(
        |(focus, raw)| {
            let mut ops = vec![];
            for (kind, t, v, how, f) in raw {
                let t = if f < 7 { focus[(v as usize) % focus.len()] } else { t };
                ops.push(match kind {
                    0..=2 => Op::Begin,
                    3..=4 => Op::End,
                    5..=8 => Op::Assign { t, v: v / 3, how },
                    _ => Op::Read(t),
                });
            }
            Program { ops }
        },
    )
}

fn oracle(ctx: &Ctx, p: &Program, case: &mut Case) -> Verdict {
    let b = build(p, Deviations::default());
    case.class_if(b.max_depth >= 2, "depth>=2");
    case.class_if(b.max_depth >= 4, "depth>=4");
    case.class_if(b.uses_globaldefs, "globaldefs");
    case.class_if(b.nontrivial, "local+global same target depth>=2");
    case.note = Some(b.text.clone());
    let r = texvm::run_program(&VmOptions::default(), &b.text);
    if let Some(e) = &r.error {
        return Verdict::Fail(format!("program failed with error {e:?}\nprogram: {}", b.text));
    }
    let got = texvm::plain(&r.out);
    if got == b.expected {
        return Verdict::pass(b.nontrivial);
    }
    // Known deviations (only those listed in KNOWN_FINDINGS.txt are tried).
    if ctx.known("flag:gdef_ignores_negative_globaldefs") {
        let b2 = build(p, Deviations { gdef_ignores_negative_globaldefs: true });
        if got == b2.expected {
            return Verdict::Known("flag:gdef_ignores_negative_globaldefs".into());
        }
    }
    Verdict::Fail(format!("output differs from the scoping model\nprogram:  {}\nexpected: {}\ngot:      {}\nfirst difference at {}", b.text, b.expected, got, first_diff(&b.expected, &got)))
}

pub fn first_diff(a: &str, b: &str) -> String {
    let mut n = 0;
    let mut field = 0;
    for (x, y) in a.chars().zip(b.chars()) {
        if x != y {
            break;
        }
        if x == ';' {
            field += 1;
        }
        n += 1;
    }
    format!("char {} (read #{})", n, field)
}

pub fn run(ctx: &Ctx) {
    ctx.rule("programs = one-line TeX sources rendered from histories of {, }, local/\\global/\\gdef/\\let/\\globaldefs assignments to count/dimen/skip/toks registers, \\countdef/\\toksdef/\\chardef aliases, macros \\ma \\mb and active ~, \\catcode/\\mathcode entries, \\endlinechar, \\globaldefs and the current font, with reads of every target after every group end; output compared with a stack-of-snapshots model. non-trivial = some target assigned both locally and globally within one group at depth>=2; distinct = by program text");
    ctx.assume("\\global\\chardef is a fatal error in Texlang (not prefixable); \\chardef is therefore made global only through \\globaldefs");
    ctx.assume("dimension and glue values are whole points so printing does not depend on print_scaled (decided by C06)");
    let n = ctx.tier.pick(100_000u64, 1_500_000u64);
    run_generated(ctx, "scoping", n, || program_strategy(60), |p: &Program, case| oracle(ctx, p, case));
    let n2 = ctx.tier.pick(12_000u64, 150_000u64);
    run_generated(ctx, "scoping_long", n2, || program_strategy(250), |p: &Program, case| oracle(ctx, p, case));
}
