//! C01 Group scoping: local assignments undone, global ones survive, at any depth.

use crate::engine::*;
use crate::texvm::{self, HState, OutTok};
use proptest::prelude::*;
use serde::{Deserialize, Serialize};
use std::cell::RefCell;
use std::collections::{BTreeMap, BTreeSet};
use texlang::command;
use texlang::token::{Token, Value};
use texlang::traits::*;
use texlang::types;
use texlang::vm;
use texlang_stdlib::StdLibState;

#[derive(Clone, Copy, Debug, PartialEq, Eq, PartialOrd, Ord, Serialize, Deserialize)]
pub enum Tgt {
    Count(u8),     // \count i
    Dimen(u8),     // \dimen i
    Skip,          // \skip0
    Toks(u8),      // \toks i
    CountAliasDef, // \countdef\ca=n   (the binding)
    ViaCountAlias, // \ca=v            (the register behind the binding)
    ToksAliasDef,  // \toksdef\ta=n
    ViaToksAlias,  // \ta={..}
    CharDef,       // \chardef\cd=n
    Macro(u8),     // 0: \ma  1: \mb  2: active ~  3: \mc (undefined at the start)  4: active ? (undefined at the start)
    CatCode(u8),   // index into CAT_CHARS
    MathCode,      // \mathcode 65
    EndLineChar,
    GlobalDefs,
    Font,
    // appended later; the variants above keep their meaning in stored replay files
    Skip1,       // \skip1
    MathCodeHi,  // \mathcode 300 (entry outside the dense part of the code table)
    MathCharDef, // \mathchardef\md=n
    ActAliasDef, // \countdef:=n or \chardef:=n   (binding of the active character `:`)
    ViaActAlias, // :=v             (the register behind `:` while it is a \countdef alias)
}

/// 955 and 70000 live in the sparse (`high`) part of Texlang's code tables.
const CAT_CHARS: [u32; 5] = [1, 2, 124, 955, 70000];
const COUNT_REGS: [u32; 4] = [0, 1, 2, 5];
const BODIES: [&str; 8] = ["A", "B", "CD", "E", "GH", "I", "JK", "L"];
const FONTS: [(&str, i64); 4] = [("nullfont", 0), ("vpfa", 1), ("vpfb", 2), ("vpfc", 3)];
const MACRO_NAMES: [&str; 5] = ["\\ma", "\\mb", "~", "\\mc", "?"];
const N_MACROS: u8 = 5;
const N_CATS: u8 = 5;
const MAX_INT: i64 = 2147483647;
/// bound (in points) kept on dimension and glue components by the arithmetic operations
const MAX_PT: i64 = 10000;

#[derive(Clone, Copy, Debug, PartialEq, Eq, Serialize, Deserialize)]
pub enum How {
    Plain,
    /// `\global` prefix
    Global,
    /// macros only: `\gdef`
    Gdef,
    /// macros only: `\global\gdef`
    GlobalGdef,
    /// macros only: `\let\x=\y`
    Let,
    /// macros only: `\global\let\x=\y`
    GlobalLet,
    /// count/dimen/skip registers (also through aliases): `\advance`, `\multiply`, `\divide`
    Arith,
    /// the same with a `\global` prefix
    GlobalArith,
    /// macros only: `\let\x=a`, `\let\x=\relax`
    LetChar,
    /// macros only: `\global\let\x=a`, `\global\let\x=\relax`
    GlobalLetChar,
}

#[derive(Clone, Copy, Debug, PartialEq, Eq, Serialize, Deserialize)]
pub enum Op {
    Begin,
    End,
    Assign {
        t: Tgt,
        v: u8,
        how: How,
        /// variation of the spelling: prefix chain (`x % 8`), arithmetic operation / `by` / `\let` source (`x / 8`).
        /// 0 = the basic spelling (what replay files written before this field existed mean).
        #[serde(default)]
        x: u8,
    },
    Read(Tgt),
}

#[derive(Clone, Debug, Serialize, Deserialize)]
pub struct Program {
    pub ops: Vec<Op>,
}

#[derive(Clone, Debug, PartialEq, Eq)]
enum Val {
    I(i64),
    S(String),
    Glue(i64, i64),
    /// the name has no meaning (undefined control sequence / active character)
    Undef,
    /// the name is a `\countdef` alias of this register
    CountReg(u32),
    /// the name is a `\chardef` token with this number
    CharNum(i64),
}

type Frame = BTreeMap<String, Val>;

#[derive(Clone, Copy, Default, Debug)]
pub struct Deviations {
    /// `\gdef` is global even when `\globaldefs` is negative (TeX §1218 makes it local).
    pub gdef_ignores_negative_globaldefs: bool,
    /// `\let\x=\y` with `\y` undefined leaves `\x` as it was (TeX §1221 gives `\x` the undefined meaning,
    /// locally or globally like any other `\let`). The scope prefix is still consumed.
    pub let_undefined_is_noop: bool,
}

fn count_key(i: u32) -> String {
    format!("count{}", i)
}
fn toks_key(i: u32) -> String {
    format!("toks{}", i)
}

fn initial_frame() -> Frame {
    let mut f = Frame::new();
    for i in COUNT_REGS {
        f.insert(count_key(i), Val::I(0));
    }
    for i in 0..2 {
        f.insert(format!("dimen{}", i), Val::I(0));
    }
    f.insert("skip".into(), Val::Glue(0, 0));
    f.insert("skip1".into(), Val::Glue(0, 0));
    for i in 0..3 {
        f.insert(toks_key(i), Val::S(String::new()));
    }
    f.insert("ca".into(), Val::I(5));
    f.insert("ta".into(), Val::I(2));
    f.insert("cd".into(), Val::I(65));
    f.insert("md".into(), Val::I(7));
    f.insert("act".into(), Val::CountReg(1));
    f.insert("m0".into(), Val::S("A".into()));
    f.insert("m1".into(), Val::S("B".into()));
    f.insert("m2".into(), Val::S("T".into()));
    f.insert("m3".into(), Val::Undef);
    f.insert("m4".into(), Val::Undef);
    // category codes: ^^A, ^^B and | from the plain-TeX defaults of the VM; code points above 127 are "other"
    let defaults = texlang::types::CatCode::PLAIN_TEX_DEFAULTS;
    for (i, c) in CAT_CHARS.iter().enumerate() {
        let v = if (*c as usize) < defaults.len() { defaults[*c as usize] as u8 as i64 } else { 12 };
        f.insert(format!("cat{}", i), Val::I(v));
    }
    f.insert("mathcode".into(), Val::I(0));
    f.insert("mathcodehi".into(), Val::I(0));
    f.insert("endlinechar".into(), Val::I(13));
    f.insert("globaldefs".into(), Val::I(0));
    f.insert("font".into(), Val::I(0));
    f
}

/// `?` and `:` become active (and stay so); `?` and `\mc` are left undefined; `\vpbg`, `\vpeg` are implicit braces.
const PREAMBLE: &str = "\\let\\vpbg={\\let\\vpeg=}\\catcode`\\?=13\\relax \\catcode`\\:=13\\relax \\countdef\\ca=5\\relax \\toksdef\\ta=2\\relax \\chardef\\cd=65\\relax \\mathchardef\\md=7\\relax \\countdef:=1\\relax \\def\\ma{A}\\def\\mb{B}\\def~{T}";

fn int_value(t: Tgt, v: u8) -> i64 {
    match t {
        Tgt::Count(_) | Tgt::ViaCountAlias | Tgt::ViaActAlias => [0i64, 1, -1, 7, 42, -2147483647, 2147483647, 100][(v % 8) as usize],
        Tgt::Dimen(_) => (v % 7) as i64,
        Tgt::CountAliasDef => COUNT_REGS[(v % 4) as usize] as i64,
        Tgt::ToksAliasDef => (v % 3) as i64,
        Tgt::CharDef => 65 + (v % 6) as i64,
        Tgt::MathCharDef => [7i64, 1, 32767, 28999][(v % 4) as usize],
        Tgt::CatCode(_) => (v % 16) as i64,
        Tgt::MathCode | Tgt::MathCodeHi => [0i64, 1, 32767, 28999][(v % 4) as usize],
        Tgt::EndLineChar => [-1i64, 13, 65, 32, 94][(v % 5) as usize],
        // sign class from v % 3 (as in older replay files), magnitude from v / 12: TeX only looks at the sign
        Tgt::GlobalDefs => match v % 3 {
            0 => 0,
            1 => [1i64, 2, 7, 2147483647][((v / 12) % 4) as usize],
            _ => [-1i64, -2, -5, -2147483647][((v / 12) % 4) as usize],
        },
        _ => v as i64,
    }
}

/// Target with its index reduced to the range in use (key of the per-group bookkeeping).
fn norm(t: Tgt) -> Tgt {
    match t {
        Tgt::Count(i) => Tgt::Count(i % 4),
        Tgt::Dimen(i) => Tgt::Dimen(i % 2),
        Tgt::Toks(i) => Tgt::Toks(i % 3),
        Tgt::Macro(i) => Tgt::Macro(i % N_MACROS),
        Tgt::CatCode(i) => Tgt::CatCode(i % N_CATS),
        t => t,
    }
}

const KINDS: usize = 14;
fn kind(t: Tgt) -> usize {
    match norm(t) {
        Tgt::Count(_) => 0,
        Tgt::Dimen(_) => 1,
        Tgt::Skip | Tgt::Skip1 => 2,
        Tgt::Toks(_) => 3,
        Tgt::CountAliasDef | Tgt::ToksAliasDef => 4,
        Tgt::ViaCountAlias | Tgt::ViaToksAlias => 5,
        Tgt::CharDef | Tgt::MathCharDef => 6,
        Tgt::Macro(0 | 1 | 3) => 7,
        Tgt::Macro(_) => 8,
        Tgt::CatCode(_) | Tgt::MathCode | Tgt::MathCodeHi => 9,
        Tgt::EndLineChar | Tgt::GlobalDefs => 10,
        Tgt::Font => 11,
        Tgt::ActAliasDef => 12,
        Tgt::ViaActAlias => 13,
    }
}
/// local-then-global on one target inside one group at depth >= 2, by kind of target
const LG: [&str; KINDS] = ["lg:count", "lg:dimen", "lg:skip", "lg:toks", "lg:alias-binding", "lg:via-alias", "lg:chardef", "lg:macro-cs", "lg:macro-active", "lg:code-table", "lg:parameter", "lg:font", "lg:active-alias-binding", "lg:via-active-alias"];
/// global-then-local on one target inside one group at depth >= 2, by kind of target
const GL: [&str; KINDS] = ["gl:count", "gl:dimen", "gl:skip", "gl:toks", "gl:alias-binding", "gl:via-alias", "gl:chardef", "gl:macro-cs", "gl:macro-active", "gl:code-table", "gl:parameter", "gl:font", "gl:active-alias-binding", "gl:via-active-alias"];

/// Spelling of the prefix. `def_like`: the command takes `\long` and `\outer` too.
fn prefix_text(prefixed: bool, def_like: bool, x: u8) -> (&'static str, bool) {
    let k = x % 8;
    let s = match (def_like, prefixed) {
        (true, true) => ["\\global", "\\global", "\\global", "\\global", "\\global\\long", "\\long\\global", "\\outer\\global\\long", "\\global\\global"][k as usize],
        (true, false) => ["", "", "", "", "", "\\long", "\\outer", "\\long\\outer"][k as usize],
        (false, true) => ["\\global", "\\global", "\\global", "\\global", "\\global", "\\global", "\\global\\global", "\\global\\global"][k as usize],
        (false, false) => "",
    };
    (s, !(s.is_empty() || s == "\\global"))
}

/// One arithmetic step on an integer-like quantity: (primitive, operand, result). The operand is bent so that the
/// result stays within `limit` in absolute value (overflow is not this property's business) and, for `exact`,
/// so that a division leaves no remainder (whole points only; printing fractions is C06's business).
fn arith_step(cur: i64, cur2: i64, op: u8, v: u8, limit: i64, exact: bool) -> (&'static str, i64) {
    match op % 3 {
        0 => {
            let mut k = [0i64, 1, -1, 2, 7, -100, 1000, 5][(v % 8) as usize];
            if (cur + k).abs() > limit {
                k = -k;
            }
            ("advance", k)
        }
        1 => {
            let mut m = [1i64, 2, -1, 3, 0, -2][(v % 6) as usize];
            if (cur * m).abs() > limit || (cur2 * m).abs() > limit {
                m = -1;
            }
            ("multiply", m)
        }
        _ => {
            let mut d = [1i64, 2, -1, 3, -2, 7][(v % 6) as usize];
            if exact && (cur % d != 0 || cur2 % d != 0) {
                d = -1;
            }
            ("divide", d)
        }
    }
}

fn glue_text(a: i64, b: i64) -> String {
    if b == 0 {
        format!("{}.0pt", a)
    } else {
        format!("{}.0pt plus {}.0pt", a, b)
    }
}

/// What an assignment did, for the class counters.
#[derive(Default, Clone, Copy)]
struct Done {
    global: bool,
    arith: bool,
    chain: bool,
    let_undefined: bool,
    let_char: bool,
    defines_undefined: bool,
    high_code: bool,
    global_shorthand: bool,
}

struct Emit {
    text: String,
    model: Vec<Frame>,
    /// Per open group: whether each macro name has a meaning under the TRUE rules (no deviation switched on).
    /// The text must not depend on the deviations tried, so this, not `model`, decides whether a read uses the name.
    tdef: Vec<[bool; N_MACROS as usize]>,
    expected: String,
    dev: Deviations,
    /// no harness-only builtins in the text (`\vpfont`, `\vpdef`, font selectors)
    no_probes: bool,
}

impl Emit {
    fn top(&self) -> &Frame {
        self.model.last().unwrap()
    }
    fn geti(&self, k: &str) -> i64 {
        match self.top().get(k) {
            Some(Val::I(i)) => *i,
            other => panic!("model key {k} = {other:?}"),
        }
    }
    fn gets(&self, k: &str) -> String {
        match self.top().get(k) {
            Some(Val::S(s)) => s.clone(),
            other => panic!("model key {k} = {other:?}"),
        }
    }
    fn getglue(&self, k: &str) -> (i64, i64) {
        match self.top().get(k) {
            Some(Val::Glue(a, b)) => (*a, *b),
            other => panic!("model key {k} = {other:?}"),
        }
    }
    fn set_tdef(&mut self, i: u8, defined: bool, global: bool) {
        if global {
            for f in &mut self.tdef {
                f[i as usize] = defined;
            }
        } else {
            self.tdef.last_mut().unwrap()[i as usize] = defined;
        }
    }
    fn set(&mut self, key: String, val: Val, global: bool) {
        if global {
            for f in &mut self.model {
                f.insert(key.clone(), val.clone());
            }
        } else {
            self.model.last_mut().unwrap().insert(key, val);
        }
    }
    /// Scope of an assignment, from TeX's rules; `prefixed` = `\global` present.
    fn is_global(&self, prefixed: bool) -> bool {
        let g = self.geti("globaldefs");
        if g > 0 {
            true
        } else if g < 0 {
            false
        } else {
            prefixed
        }
    }
    fn read(&mut self, t: Tgt) {
        let (text, val): (String, String) = match t {
            Tgt::Count(i) => {
                let r = COUNT_REGS[(i % 4) as usize];
                (format!("\\the\\count{};", r), format!("{}", self.geti(&count_key(r))))
            }
            Tgt::Dimen(i) => {
                let i = i % 2;
                (format!("\\the\\dimen{};", i), format!("{}.0pt", self.geti(&format!("dimen{}", i))))
            }
            Tgt::Skip => {
                let (a, b) = self.getglue("skip");
                ("\\the\\skip0;".to_string(), glue_text(a, b))
            }
            Tgt::Skip1 => {
                let (a, b) = self.getglue("skip1");
                ("\\the\\skip1;".to_string(), glue_text(a, b))
            }
            Tgt::Toks(i) => {
                let i = (i % 3) as u32;
                (format!("\\the\\toks{};", i), self.gets(&toks_key(i)))
            }
            Tgt::CountAliasDef | Tgt::ViaCountAlias => {
                let r = self.geti("ca") as u32;
                ("\\the\\ca;".to_string(), format!("{}", self.geti(&count_key(r))))
            }
            Tgt::ToksAliasDef | Tgt::ViaToksAlias => {
                let r = self.geti("ta") as u32;
                ("\\the\\ta;".to_string(), self.gets(&toks_key(r)))
            }
            Tgt::CharDef => ("\\the\\cd;".to_string(), format!("{}", self.geti("cd"))),
            Tgt::MathCharDef => ("\\the\\md;".to_string(), format!("{}", self.geti("md"))),
            Tgt::ActAliasDef | Tgt::ViaActAlias => {
                let s = match self.top().get("act") {
                    Some(Val::CountReg(r)) => format!("{}", self.geti(&count_key(*r))),
                    Some(Val::CharNum(n)) => format!("{}", n),
                    other => panic!("model key act = {other:?}"),
                };
                ("\\the:;".to_string(), s)
            }
            Tgt::Macro(i) => {
                let i = i % N_MACROS;
                let name = MACRO_NAMES[i as usize];
                let body = match self.top().get(&format!("m{}", i)) {
                    Some(Val::S(s)) => Some(s.clone()),
                    Some(Val::Undef) => None,
                    other => panic!("model key m{i} = {other:?}"),
                };
                // what a deviating model expects where the text uses a name that it holds to be undefined
                // (the run would have ended in an error there): something no output can equal
                const IMPOSSIBLE: &str = "<use of an undefined name>";
                let used = self.tdef.last().unwrap()[i as usize];
                if self.no_probes {
                    // an undefined name cannot be observed without the probe (using it is an error)
                    match (used, body) {
                        (true, Some(s)) => (format!("{};", name), s),
                        (true, None) => (format!("{};", name), IMPOSSIBLE.to_string()),
                        (false, _) => return,
                    }
                } else {
                    match (used, body) {
                        (true, Some(s)) => (format!("\\vpdef{}{};", name, name), format!("<probe1=1>{}", s)),
                        (true, None) => (format!("\\vpdef{}{};", name, name), format!("<probe1=0>{}", IMPOSSIBLE)),
                        (false, Some(_)) => (format!("\\vpdef{};", name), "<probe1=1>".to_string()),
                        (false, None) => (format!("\\vpdef{};", name), "<probe1=0>".to_string()),
                    }
                }
            }
            Tgt::CatCode(i) => {
                let i = i % N_CATS;
                (format!("\\the\\catcode{};", CAT_CHARS[i as usize]), format!("{}", self.geti(&format!("cat{}", i))))
            }
            Tgt::MathCode => ("\\the\\mathcode65;".to_string(), format!("{}", self.geti("mathcode"))),
            Tgt::MathCodeHi => ("\\the\\mathcode300;".to_string(), format!("{}", self.geti("mathcodehi"))),
            Tgt::EndLineChar => ("\\the\\endlinechar;".to_string(), format!("{}", self.geti("endlinechar"))),
            Tgt::GlobalDefs => ("\\the\\globaldefs;".to_string(), format!("{}", self.geti("globaldefs"))),
            Tgt::Font => {
                if self.no_probes {
                    return;
                }
                ("\\vpfont;".to_string(), format!("<probe0={}>", self.geti("font")))
            }
        };
        self.text.push_str(&text);
        self.expected.push_str(&val);
        self.expected.push(';');
    }
    fn read_all(&mut self) {
        for t in all_targets() {
            // Aliased reads duplicate the plain ones; keep one of each pair.
            if matches!(t, Tgt::ViaCountAlias | Tgt::ViaToksAlias | Tgt::ViaActAlias) {
                continue;
            }
            self.read(t);
        }
    }
    fn assign(&mut self, t: Tgt, v: u8, how: How, x: u8) -> Done {
        let mut done = Done::default();
        let t = norm(t);
        // `:=v` needs `:` to be a \countdef alias at this point; otherwise rebind it instead.
        let t = if matches!(t, Tgt::ViaActAlias) && !matches!(self.top().get("act"), Some(Val::CountReg(_))) { Tgt::ActAliasDef } else { t };
        let is_macro = matches!(t, Tgt::Macro(_));
        let arith_ok = matches!(t, Tgt::Count(_) | Tgt::ViaCountAlias | Tgt::ViaActAlias | Tgt::Dimen(_) | Tgt::Skip | Tgt::Skip1);
        // Normalise `how` for the target kind.
        let how = match how {
            How::Arith if arith_ok => How::Arith,
            How::GlobalArith if arith_ok => How::GlobalArith,
            How::Arith => How::Plain,
            How::GlobalArith => How::Global,
            h if is_macro => h,
            How::Plain | How::Let | How::LetChar => How::Plain,
            _ => How::Global,
        };
        let prefixed = matches!(how, How::Global | How::GlobalGdef | How::GlobalLet | How::GlobalArith | How::GlobalLetChar);
        let def_like = is_macro && matches!(how, How::Plain | How::Global | How::Gdef | How::GlobalGdef);
        let (prefix, chain) = prefix_text(prefixed, def_like, x);
        done.chain = chain;
        let global = self.is_global(prefixed);
        done.global = global;
        let xo = x / 8;
        if matches!(how, How::Arith | How::GlobalArith) {
            done.arith = true;
            let by = if (xo / 3) % 3 == 2 { " " } else { " by " };
            match t {
                Tgt::Count(_) | Tgt::ViaCountAlias | Tgt::ViaActAlias => {
                    let (lhs, r) = match t {
                        Tgt::Count(i) => {
                            let r = COUNT_REGS[i as usize];
                            (format!("\\count{}", r), r)
                        }
                        Tgt::ViaCountAlias => ("\\ca".to_string(), self.geti("ca") as u32),
                        _ => match self.top().get("act") {
                            Some(Val::CountReg(r)) => (":".to_string(), *r),
                            _ => unreachable!(),
                        },
                    };
                    let cur = self.geti(&count_key(r));
                    let (prim, n) = arith_step(cur, 0, xo, v, MAX_INT, false);
                    let new = match prim {
                        "advance" => cur + n,
                        "multiply" => cur * n,
                        _ => cur / n, // truncates towards zero like TeX's x_over_n (§106)
                    };
                    self.text.push_str(&format!("{}\\{}{}{}{}\\relax ", prefix, prim, lhs, by, n));
                    self.set(count_key(r), Val::I(new), global);
                }
                Tgt::Dimen(i) => {
                    let key = format!("dimen{}", i);
                    let cur = self.geti(&key);
                    let (prim, n) = arith_step(cur, 0, xo, v, MAX_PT, true);
                    let (new, unit) = match prim {
                        "advance" => (cur + n, "pt"),
                        "multiply" => (cur * n, ""),
                        _ => (cur / n, ""),
                    };
                    self.text.push_str(&format!("{}\\{}\\dimen{}{}{}{}\\relax ", prefix, prim, i, by, n, unit));
                    self.set(key, Val::I(new), global);
                }
                _ => {
                    let (key, reg) = if matches!(t, Tgt::Skip) { ("skip", 0) } else { ("skip1", 1) };
                    let (a, b) = self.getglue(key);
                    let (prim, n) = arith_step(a, b, xo, v, MAX_PT, true);
                    match prim {
                        "advance" => {
                            let mut j = [0i64, 1, 2][((v / 8) % 3) as usize];
                            if (b + j).abs() > MAX_PT {
                                j = -j;
                            }
                            if j == 0 {
                                self.text.push_str(&format!("{}\\advance\\skip{}{}{}pt\\relax ", prefix, reg, by, n));
                            } else {
                                self.text.push_str(&format!("{}\\advance\\skip{}{}{}pt plus {}pt\\relax ", prefix, reg, by, n, j));
                            }
                            self.set(key.into(), Val::Glue(a + n, b + j), global);
                        }
                        "multiply" => {
                            self.text.push_str(&format!("{}\\multiply\\skip{}{}{}\\relax ", prefix, reg, by, n));
                            self.set(key.into(), Val::Glue(a * n, b * n), global);
                        }
                        _ => {
                            self.text.push_str(&format!("{}\\divide\\skip{}{}{}\\relax ", prefix, reg, by, n));
                            self.set(key.into(), Val::Glue(a / n, b / n), global);
                        }
                    }
                }
            }
            return done;
        }
        match t {
            Tgt::Count(i) => {
                let r = COUNT_REGS[i as usize];
                let val = int_value(t, v);
                self.text.push_str(&format!("{}\\count{}={}\\relax ", prefix, r, val));
                self.set(count_key(r), Val::I(val), global);
            }
            Tgt::ViaCountAlias => {
                let r = self.geti("ca") as u32;
                let val = int_value(t, v);
                self.text.push_str(&format!("{}\\ca={}\\relax ", prefix, val));
                self.set(count_key(r), Val::I(val), global);
            }
            Tgt::ViaActAlias => {
                let r = match self.top().get("act") {
                    Some(Val::CountReg(r)) => *r,
                    _ => unreachable!(),
                };
                let val = int_value(t, v);
                self.text.push_str(&format!("{}:={}\\relax ", prefix, val));
                self.set(count_key(r), Val::I(val), global);
            }
            Tgt::ActAliasDef => {
                if v % 2 == 0 {
                    let r = COUNT_REGS[((v / 2) % 4) as usize];
                    self.text.push_str(&format!("{}\\countdef:={}\\relax ", prefix, r));
                    self.set("act".into(), Val::CountReg(r), global);
                } else {
                    let n = 65 + ((v / 2) % 6) as i64;
                    self.text.push_str(&format!("{}\\chardef:={}\\relax ", prefix, n));
                    self.set("act".into(), Val::CharNum(n), global);
                    done.global_shorthand = prefixed;
                }
            }
            Tgt::Dimen(i) => {
                let val = int_value(t, v);
                self.text.push_str(&format!("{}\\dimen{}={}pt\\relax ", prefix, i, val));
                self.set(format!("dimen{}", i), Val::I(val), global);
            }
            Tgt::Skip | Tgt::Skip1 => {
                let (key, reg) = if matches!(t, Tgt::Skip) { ("skip", 0) } else { ("skip1", 1) };
                let a = (v % 5) as i64;
                let b = ((v / 5) % 3) as i64;
                if b == 0 {
                    self.text.push_str(&format!("{}\\skip{}={}pt\\relax ", prefix, reg, a));
                } else {
                    self.text.push_str(&format!("{}\\skip{}={}pt plus {}pt\\relax ", prefix, reg, a, b));
                }
                self.set(key.into(), Val::Glue(a, b), global);
            }
            Tgt::Toks(i) => {
                let i = i as u32;
                let body = BODIES[(v % 8) as usize];
                self.text.push_str(&format!("{}\\toks{}={{{}}}", prefix, i, body));
                self.set(toks_key(i), Val::S(body.into()), global);
            }
            Tgt::ViaToksAlias => {
                let r = self.geti("ta") as u32;
                let body = BODIES[(v % 8) as usize];
                self.text.push_str(&format!("{}\\ta={{{}}}", prefix, body));
                self.set(toks_key(r), Val::S(body.into()), global);
            }
            Tgt::CountAliasDef => {
                let val = int_value(t, v);
                self.text.push_str(&format!("{}\\countdef\\ca={}\\relax ", prefix, val));
                self.set("ca".into(), Val::I(val), global);
            }
            Tgt::ToksAliasDef => {
                let val = int_value(t, v);
                self.text.push_str(&format!("{}\\toksdef\\ta={}\\relax ", prefix, val));
                self.set("ta".into(), Val::I(val), global);
            }
            Tgt::CharDef => {
                // TeX §1210/§1224: shorthand definitions take \global like any other assignment
                let val = int_value(t, v);
                self.text.push_str(&format!("{}\\chardef\\cd={}\\relax ", prefix, val));
                self.set("cd".into(), Val::I(val), global);
                done.global_shorthand = prefixed;
            }
            Tgt::MathCharDef => {
                let val = int_value(t, v);
                self.text.push_str(&format!("{}\\mathchardef\\md={}\\relax ", prefix, val));
                self.set("md".into(), Val::I(val), global);
                done.global_shorthand = prefixed;
            }
            Tgt::Macro(i) => {
                let name = MACRO_NAMES[i as usize];
                let key = format!("m{}", i);
                match how {
                    How::Let | How::GlobalLet => {
                        let src = ((i as usize) + 1 + (v as usize % 4)) % (N_MACROS as usize);
                        let sval = self.top().get(&format!("m{}", src)).unwrap().clone();
                        self.text.push_str(&format!("{}\\let{}={}\\relax ", prefix, name, MACRO_NAMES[src]));
                        let src_defined = self.tdef.last().unwrap()[src];
                        done.let_undefined = !src_defined;
                        done.defines_undefined = src_defined && !self.tdef.last().unwrap()[i as usize];
                        self.set_tdef(i, src_defined, global);
                        if matches!(sval, Val::Undef) {
                            if !self.dev.let_undefined_is_noop {
                                self.set(key, Val::Undef, global);
                            }
                        } else {
                            self.set(key, sval, global);
                        }
                    }
                    How::LetChar | How::GlobalLetChar => {
                        done.let_char = true;
                        done.defines_undefined = !self.tdef.last().unwrap()[i as usize];
                        self.set_tdef(i, true, global);
                        let (rhs, val) = [("a", "a"), ("\\relax ", ""), ("b", "b")][(xo % 3) as usize];
                        self.text.push_str(&format!("{}\\let{}={}", prefix, name, rhs));
                        self.set(key, Val::S(val.into()), global);
                    }
                    _ => {
                        let body = BODIES[(v % 8) as usize];
                        let gdef = matches!(how, How::Gdef | How::GlobalGdef);
                        let g = self.geti("globaldefs");
                        let true_global = if gdef { g >= 0 } else { global };
                        let global = if gdef && g < 0 { self.dev.gdef_ignores_negative_globaldefs } else { true_global };
                        done.global = true_global;
                        done.defines_undefined = !self.tdef.last().unwrap()[i as usize];
                        self.set_tdef(i, true, true_global);
                        self.text.push_str(&format!("{}\\{}{}{{{}}}", prefix, if gdef { "gdef" } else { "def" }, name, body));
                        self.set(key, Val::S(body.into()), global);
                    }
                }
            }
            Tgt::CatCode(i) => {
                let val = int_value(t, v);
                self.text.push_str(&format!("{}\\catcode{}={}\\relax ", prefix, CAT_CHARS[i as usize], val));
                self.set(format!("cat{}", i), Val::I(val), global);
                done.high_code = CAT_CHARS[i as usize] >= 128;
            }
            Tgt::MathCode => {
                let val = int_value(t, v);
                self.text.push_str(&format!("{}\\mathcode65={}\\relax ", prefix, val));
                self.set("mathcode".into(), Val::I(val), global);
            }
            Tgt::MathCodeHi => {
                let val = int_value(t, v);
                self.text.push_str(&format!("{}\\mathcode300={}\\relax ", prefix, val));
                self.set("mathcodehi".into(), Val::I(val), global);
                done.high_code = true;
            }
            Tgt::EndLineChar => {
                let val = int_value(t, v);
                self.text.push_str(&format!("{}\\endlinechar={}\\relax ", prefix, val));
                self.set("endlinechar".into(), Val::I(val), global);
            }
            Tgt::GlobalDefs => {
                let val = int_value(t, v);
                self.text.push_str(&format!("{}\\globaldefs={}\\relax ", prefix, val));
                self.set("globaldefs".into(), Val::I(val), global);
            }
            Tgt::Font => {
                let (name, id) = FONTS[(v % 4) as usize];
                self.text.push_str(&format!("{}\\{} ", prefix, name));
                self.set("font".into(), Val::I(id), global);
            }
        }
        done
    }
}

fn all_targets() -> Vec<Tgt> {
    let mut v = vec![];
    for i in 0..4 {
        v.push(Tgt::Count(i));
    }
    for i in 0..2 {
        v.push(Tgt::Dimen(i));
    }
    v.push(Tgt::Skip);
    v.push(Tgt::Skip1);
    for i in 0..3 {
        v.push(Tgt::Toks(i));
    }
    v.push(Tgt::CountAliasDef);
    v.push(Tgt::ViaCountAlias);
    v.push(Tgt::ToksAliasDef);
    v.push(Tgt::ViaToksAlias);
    v.push(Tgt::CharDef);
    v.push(Tgt::MathCharDef);
    v.push(Tgt::ActAliasDef);
    v.push(Tgt::ViaActAlias);
    for i in 0..N_MACROS {
        v.push(Tgt::Macro(i));
    }
    for i in 0..N_CATS {
        v.push(Tgt::CatCode(i));
    }
    v.push(Tgt::MathCode);
    v.push(Tgt::MathCodeHi);
    v.push(Tgt::EndLineChar);
    v.push(Tgt::GlobalDefs);
    v.push(Tgt::Font);
    v
}

pub struct Built {
    pub text: String,
    pub expected: String,
    pub max_depth: usize,
    pub nontrivial: bool,
    pub uses_globaldefs: bool,
    /// shapes reached by this program (class counters)
    pub classes: Vec<&'static str>,
}

pub fn build(p: &Program, dev: Deviations) -> Built {
    build_opts(p, dev, None, false).0
}

/// Like `build`, but optionally without font targets and without any harness-only builtin in the text
/// (`no_font`: for engines that lack the harness probes `\vpfont`, `\vpdef` and the font selectors; an
/// undefined name is then simply not read) and reporting the byte offset in `text` just before operation
/// `split_at` (after the preamble when `split_at` is 0; the end of the operations when it is >= their number).
pub fn build_opts(p: &Program, dev: Deviations, split_at: Option<usize>, no_font: bool) -> (Built, usize) {
    let ops: Vec<Op> = p.ops.iter().filter(|o| !(no_font && matches!(o, Op::Assign { t: Tgt::Font, .. } | Op::Read(Tgt::Font)))).copied().collect();
    let p = &Program { ops };
    build_inner(p, dev, split_at, no_font)
}

fn build_inner(p: &Program, dev: Deviations, split_at: Option<usize>, no_probes: bool) -> (Built, usize) {
    let mut e = Emit { text: String::from(PREAMBLE), model: vec![initial_frame()], tdef: vec![[true, true, true, false, false]], expected: String::new(), dev, no_probes };
    let mut max_depth = 0;
    // per open group: targets assigned locally / globally in it
    let mut touched: Vec<BTreeMap<Tgt, (bool, bool)>> = vec![BTreeMap::new()];
    let mut nontrivial = false;
    let mut uses_globaldefs = false;
    let mut classes: BTreeSet<&'static str> = BTreeSet::new();
    let mut split_pos: Option<usize> = None;
    for (op_index, op) in p.ops.iter().enumerate() {
        if split_at == Some(op_index) {
            split_pos = Some(e.text.len());
        }
        match op {
            Op::Begin => {
                if e.model.len() > 8 {
                    continue;
                }
                // every fourth position opens the group with an implicit brace (same group in TeX, §1063)
                if op_index % 4 == 3 {
                    e.text.push_str("\\vpbg ");
                    classes.insert("group opened or closed by an implicit brace");
                } else {
                    e.text.push('{');
                }
                let top = e.top().clone();
                e.model.push(top);
                let top = *e.tdef.last().unwrap();
                e.tdef.push(top);
                touched.push(BTreeMap::new());
                max_depth = max_depth.max(e.model.len() - 1);
            }
            Op::End => {
                if e.model.len() == 1 {
                    continue;
                }
                if op_index % 4 == 2 {
                    e.text.push_str("\\vpeg ");
                    classes.insert("group opened or closed by an implicit brace");
                } else {
                    e.text.push('}');
                }
                e.model.pop();
                e.tdef.pop();
                touched.pop();
                e.read_all();
            }
            Op::Assign { t, v, how, x } => {
                let before_g = e.geti("globaldefs");
                let done = e.assign(*t, *v, *how, *x);
                if matches!(t, Tgt::GlobalDefs) || before_g != 0 {
                    uses_globaldefs = true;
                }
                let depth = e.model.len() - 1;
                let ent = touched.last_mut().unwrap().entry(norm(*t)).or_insert((false, false));
                // by the scope the assignment really has (after \globaldefs), not by its spelling
                if done.global {
                    if depth >= 2 && ent.0 {
                        classes.insert(LG[kind(*t)]);
                    }
                    ent.1 = true;
                } else {
                    if depth >= 2 && ent.1 {
                        classes.insert(GL[kind(*t)]);
                    }
                    ent.0 = true;
                }
                if depth >= 2 && ent.0 && ent.1 {
                    nontrivial = true;
                }
                if depth >= 1 {
                    if done.arith {
                        classes.insert(if done.global { "global \\advance/\\multiply/\\divide in a group" } else { "local \\advance/\\multiply/\\divide in a group" });
                    }
                    if done.chain {
                        classes.insert("prefix chain (\\long/\\outer/\\global\\global) in a group");
                    }
                    if done.global_shorthand {
                        classes.insert("\\global\\chardef / \\global\\mathchardef in a group");
                    }
                    if done.high_code {
                        classes.insert("code-table entry above 127 assigned in a group");
                    }
                    if done.defines_undefined {
                        classes.insert(if done.global { "undefined name defined globally in a group" } else { "undefined name defined locally in a group" });
                    }
                    if done.let_undefined {
                        classes.insert("\\let from an undefined name in a group");
                    }
                    if done.let_char {
                        classes.insert("\\let to a character or \\relax in a group");
                    }
                    if matches!(kind(*t), 12 | 13) {
                        classes.insert("\\countdef/\\chardef on an active character in a group");
                    }
                }
            }
            Op::Read(t) => e.read(*t),
        }
    }
    let split_pos = split_pos.unwrap_or(e.text.len());
    while e.model.len() > 1 {
        e.text.push('}');
        e.model.pop();
        e.tdef.pop();
        e.read_all();
    }
    e.read_all();
    e.text.push('%');
    (Built { text: e.text, expected: e.expected, max_depth, nontrivial, uses_globaldefs, classes: classes.into_iter().collect() }, split_pos)
}

fn tgt_strategy() -> impl Strategy<Value = Tgt> {
    let all = all_targets();
    // \globaldefs changes the scope of everything that follows: keep it as frequent as it was with fewer targets
    (0..all.len() + 2).prop_map(move |i| if i < all.len() { all[i] } else { Tgt::GlobalDefs })
}

fn how_strategy() -> impl Strategy<Value = How> {
    prop_oneof![
        8 => Just(How::Plain),
        8 => Just(How::Global),
        2 => Just(How::Gdef),
        2 => Just(How::GlobalGdef),
        2 => Just(How::Let),
        2 => Just(How::GlobalLet),
        3 => Just(How::Arith),
        3 => Just(How::GlobalArith),
        1 => Just(How::LetChar),
        1 => Just(How::GlobalLetChar),
    ]
}

pub fn program_strategy(max_ops: usize) -> impl Strategy<Value = Program> {
    // A focus set of a few targets makes local/global collisions on one target likely.
    (proptest::collection::vec(tgt_strategy(), 1..4), proptest::collection::vec((0u8..10, tgt_strategy(), any::<u8>(), how_strategy(), 0u8..10, any::<u8>()), 0..max_ops)).prop_map(|(focus, raw)| {
        let mut ops = vec![];
        for (kind, t, v, how, f, x) in raw {
            let t = if f < 7 { focus[(v as usize) % focus.len()] } else { t };
            ops.push(match kind {
                0..=2 => Op::Begin,
                3..=4 => Op::End,
                5..=8 => Op::Assign { t, v: v / 3, how, x },
                _ => Op::Read(t),
            });
        }
        Program { ops }
    })
}

// ---------------------------------------------------------------------------------------------
// Engines

thread_local! {
    static OUT: RefCell<Vec<OutTok>> = const { RefCell::new(vec![]) };
}

/// Where the probes of an engine put their output (the same place as its character handler).
trait ProbeSink: TexlangState + Sized {
    fn emit(input: &mut vm::ExecutionInput<Self>, o: OutTok);
}
impl ProbeSink for HState {
    fn emit(input: &mut vm::ExecutionInput<Self>, o: OutTok) {
        input.state_mut().out.push(o);
    }
}
impl ProbeSink for StdLibState {
    fn emit(_input: &mut vm::ExecutionInput<Self>, o: OutTok) {
        OUT.with(|v| v.borrow_mut().push(o));
    }
}

/// `\vpdef<token>`: record whether the (unexpanded) control sequence or active character has a meaning.
fn vpdef_fn<S: ProbeSink>(_t: Token, input: &mut vm::ExecutionInput<S>) -> texlang::prelude::Result<()> {
    let defined = match input.unexpanded().next()? {
        Some(t) => match t.value() {
            Value::CommandRef(r) => input.commands_map().get_command(&r).is_some() as i64,
            _ => 2,
        },
        None => 3,
    };
    S::emit(input, OutTok::Probe(1, defined));
    Ok(())
}

/// `\vpfont` for the shipped state type.
fn vpfont_fn<S: ProbeSink>(_t: Token, input: &mut vm::ExecutionInput<S>) -> texlang::prelude::Result<()> {
    let f = input.vm().current_font();
    S::emit(input, OutTok::Probe(0, f.0 as i64));
    Ok(())
}

struct CaptureStd;
impl vm::Handlers<StdLibState> for CaptureStd {
    fn character_handler(input: &mut vm::ExecutionInput<StdLibState>, token: Token, _c: char) -> texlang::prelude::Result<()> {
        let o = texvm::tok_to_out(input.vm(), token);
        OUT.with(|v| v.borrow_mut().push(o));
        Ok(())
    }
    fn unexpanded_expansion_command(input: &mut vm::ExecutionInput<StdLibState>, token: Token) -> texlang::prelude::Result<()> {
        let o = texvm::tok_to_out(input.vm(), token);
        OUT.with(|v| v.borrow_mut().push(o));
        Ok(())
    }
}

#[derive(Clone, Copy, Debug, PartialEq, Eq, Serialize, Deserialize)]
pub enum Engine {
    /// harness state type (`texvm::HState`) with the probes
    Harness,
    /// the shipped `StdLibState` with its default built-ins plus the probes and four font selectors
    StdLibProbes,
    /// the shipped `StdLibState`, nothing added, run through `script::run_to_string`
    StdLibScript,
}

/// (output as plain text, error title)
fn run_engine(engine: Engine, text: &str) -> (String, Option<String>) {
    match engine {
        Engine::Harness => {
            let mut m = texvm::built_ins(false);
            m.insert("vpdef", command::BuiltIn::new_execution(vpdef_fn::<HState>));
            let mut vm = Box::new(vm::VM::<HState>::new_with_built_in_commands(m));
            vm.state.budget.set(texvm::VmOptions::default().budget);
            let r = texvm::run_source(&mut vm, "input.tex", text);
            (texvm::plain(&r.out), r.error)
        }
        Engine::StdLibProbes => {
            let mut m = StdLibState::default_built_in_commands();
            m.insert("vpdef", command::BuiltIn::new_execution(vpdef_fn::<StdLibState>));
            m.insert("vpfont", command::BuiltIn::new_execution(vpfont_fn::<StdLibState>));
            m.insert("nullfont", command::BuiltIn::new_font(types::Font::NULL_FONT));
            m.insert("vpfa", command::BuiltIn::new_font(types::Font(1)));
            m.insert("vpfb", command::BuiltIn::new_font(types::Font(2)));
            m.insert("vpfc", command::BuiltIn::new_font(types::Font(3)));
            let mut vm = Box::new(vm::VM::<StdLibState>::new_with_built_in_commands(m));
            OUT.with(|v| v.borrow_mut().clear());
            if vm.push_source("input.tex".to_string(), text.to_string()).is_err() {
                panic!("push_source failed");
            }
            let r = vm.run::<CaptureStd>();
            let out = OUT.with(|v| std::mem::take(&mut *v.borrow_mut()));
            (texvm::plain(&out), r.err().map(|e| e.error.title()))
        }
        Engine::StdLibScript => {
            let mut vm = Box::new(vm::VM::<StdLibState>::new());
            if vm.push_source("input.tex".to_string(), text.to_string()).is_err() {
                panic!("push_source failed");
            }
            match texlang_stdlib::script::run_to_string(&mut vm) {
                Ok(s) => (s, None),
                Err(e) => (String::new(), Some(e.error.title())),
            }
        }
    }
}

fn oracle(ctx: &Ctx, p: &Program, engine: Engine, case: &mut Case) -> Verdict {
    let no_probes = engine == Engine::StdLibScript;
    let b = build_opts(p, Deviations::default(), None, no_probes).0;
    case.class_if(b.max_depth >= 2, "depth>=2");
    case.class_if(b.max_depth >= 4, "depth>=4");
    case.class_if(b.max_depth == 8, "depth=8");
    case.class_if(b.uses_globaldefs, "globaldefs");
    case.class_if(b.nontrivial, "local+global same target depth>=2");
    for c in &b.classes {
        case.class(c);
    }
    match engine {
        Engine::Harness => {}
        Engine::StdLibProbes => case.class("engine: StdLibState + probes"),
        Engine::StdLibScript => case.class("engine: StdLibState, script::run_to_string"),
    }
    case.note = Some(b.text.clone());
    let (got, error) = run_engine(engine, &b.text);
    if let Some(e) = &error {
        return Verdict::Fail(format!("program failed with error {e:?}\nprogram: {}\noutput so far: {}", b.text, got));
    }
    if got == b.expected {
        return Verdict::pass(b.nontrivial);
    }
    // Known deviations (only those listed in KNOWN_FINDINGS.txt are tried; a case may need more than one).
    let k1 = ctx.known("flag:gdef_ignores_negative_globaldefs");
    let k2 = ctx.known("flag:let_undefined_is_noop");
    for (d1, d2) in [(true, false), (false, true), (true, true)] {
        if (d1 && !k1) || (d2 && !k2) {
            continue;
        }
        let b2 = build_opts(p, Deviations { gdef_ignores_negative_globaldefs: d1, let_undefined_is_noop: d2 }, None, no_probes).0;
        if got == b2.expected {
            return Verdict::Known(if d2 { "flag:let_undefined_is_noop" } else { "flag:gdef_ignores_negative_globaldefs" }.into());
        }
    }
    Verdict::Fail(format!("output differs from the scoping model\nprogram:  {}\nexpected: {}\ngot:      {}\nfirst difference at {}", b.text, b.expected, got, first_diff(&b.expected, &got)))
}

pub fn first_diff(a: &str, b: &str) -> String {
    let mut n = 0;
    let mut field = 0;
    for (x, y) in a.chars().zip(b.chars()) {
        if x != y {
            break;
        }
        if x == ';' {
            field += 1;
        }
        n += 1;
    }
    format!("char {} (read #{})", n, field)
}

#[derive(Clone, Debug, Serialize, Deserialize)]
pub struct StdCase {
    pub program: Program,
    pub engine: Engine,
}

pub fn run(ctx: &Ctx) {
    ctx.rule("programs = one-line TeX sources rendered from histories of {, } (every fourth one spelled as an implicit brace \\vpbg/\\vpeg), local/\\global/\\gdef/\\let/\\globaldefs assignments (prefix chains \\global\\global, \\long\\global, \\outer\\global\\long included) to count/dimen/skip/toks registers, also by \\advance/\\multiply/\\divide, \\countdef/\\toksdef/\\chardef/\\mathchardef aliases on control sequences and on the active character `:`, macros \\ma \\mb, active ~, and \\mc, active ? which start undefined (\\def, \\gdef, \\let to a macro, a character, \\relax or an undefined name), \\catcode/\\mathcode entries below and above 128, \\endlinechar, \\globaldefs and the current font, with reads of every target (and of whether each macro name is defined) after every group end; output compared with a stack-of-snapshots model. Run on the harness state type and, in sub-check scoping_stdlib, on the shipped StdLibState (with the probes added, and unchanged through script::run_to_string). non-trivial = some target assigned both locally and globally (by effective scope) within one group at depth>=2; distinct = by program text");
    ctx.assume("dimension and glue values are whole points so printing does not depend on print_scaled (decided by C06); operands of \\advance/\\multiply/\\divide are bent so that no overflow and no fractional point arises");
    ctx.assume("initial values of \\catcode for code points above 127 (12) and of \\mathcode (0) are Texlang's documented defaults; only their restoration is checked");
    let n = ctx.tier.pick(80_000u64, 1_500_000u64);
    run_generated(ctx, "scoping", n, || program_strategy(60), |p: &Program, case| oracle(ctx, p, Engine::Harness, case));
    let n2 = ctx.tier.pick(10_000u64, 150_000u64);
    run_generated(ctx, "scoping_long", n2, || program_strategy(250), |p: &Program, case| oracle(ctx, p, Engine::Harness, case));
    let n3 = ctx.tier.pick(10_000u64, 200_000u64);
    run_generated(
        ctx,
        "scoping_stdlib",
        n3,
        || (program_strategy(60), prop_oneof![Just(Engine::StdLibProbes), Just(Engine::StdLibScript)]).prop_map(|(program, engine)| StdCase { program, engine }),
        |c: &StdCase, case| oracle(ctx, &c.program, c.engine, case),
    );
}
