//! C02 Macro parameters bind and substitute exactly as in TeX.

use crate::engine::*;
use crate::texvm::{self, OutTok, VmOptions};
use proptest::prelude::*;
use serde::{Deserialize, Serialize};

#[derive(Clone, Copy, Debug, PartialEq, Eq, Serialize, Deserialize)]
pub enum Tok {
    L(char),
    O(char),
    Sp,
    /// control symbol `\c` (c is not a letter)
    Cs(char),
    Open,
    Close,
    /// a category-6 `#` token (only arises from `##` in a replacement text)
    Hash,
}

#[derive(Clone, Debug, Serialize, Deserialize)]
pub enum ATree {
    T(Tok),
    G(Vec<ATree>),
}

#[derive(Clone, Debug, Serialize, Deserialize)]
pub enum RTok {
    T(Tok),
    /// parameter reference; index is taken modulo the number of parameters
    P(u8),
    HashHash,
    G(Vec<RTok>),
}

#[derive(Clone, Debug, Serialize, Deserialize)]
pub struct MacroCase {
    pub prefix: Vec<Tok>,
    /// per parameter: None = undelimited, Some(d) = delimited by d
    pub params: Vec<Option<Vec<Tok>>>,
    /// parameter text ends with `#{`
    pub brace_delim: bool,
    pub repl: Vec<RTok>,
    pub args: Vec<Vec<ATree>>,
    pub tail: Vec<ATree>,
    pub gdef: bool,
    /// Some(f): the call is issued from the body of a forwarding macro \\w#1#2 whose two arguments are
    /// the stream split at a depth-0 position (fraction f); the halves are lexed separately, so space
    /// tokens can be adjacent at the junction (impossible in directly typed source).
    #[serde(default)]
    pub wrap_split: Option<(u16, bool)>,
}

fn flatten(ts: &[ATree], out: &mut Vec<Tok>) {
    for t in ts {
        match t {
            ATree::T(Tok::Open) | ATree::T(Tok::Close) | ATree::T(Tok::Hash) => out.push(Tok::O('.')),
            ATree::T(t) => out.push(*t),
            ATree::G(inner) => {
                out.push(Tok::Open);
                flatten(inner, out);
                out.push(Tok::Close);
            }
        }
    }
}

fn collapse_spaces(v: &[Tok]) -> Vec<Tok> {
    let mut out: Vec<Tok> = vec![];
    for t in v {
        if *t == Tok::Sp && out.last() == Some(&Tok::Sp) {
            continue;
        }
        out.push(*t);
    }
    out
}

fn clean_delim(v: &[Tok]) -> Vec<Tok> {
    let v: Vec<Tok> = v.iter().map(|t| match t {
        Tok::Open | Tok::Close | Tok::Hash => Tok::O(','),
        t => *t,
    }).collect();
    collapse_spaces(&v)
}

#[derive(Clone, Debug)]
enum FlatR {
    T(Tok),
    P(usize),
}

fn flatten_repl(r: &[RTok], nparams: usize, out: &mut Vec<FlatR>) {
    for x in r {
        match x {
            RTok::T(Tok::Open) | RTok::T(Tok::Close) | RTok::T(Tok::Hash) => out.push(FlatR::T(Tok::O('.'))),
            RTok::T(t) => out.push(FlatR::T(*t)),
            RTok::P(i) => {
                if nparams == 0 {
                    out.push(FlatR::T(Tok::L('x')));
                } else {
                    out.push(FlatR::P(*i as usize % nparams));
                }
            }
            RTok::HashHash => out.push(FlatR::T(Tok::Hash)),
            RTok::G(inner) => {
                out.push(FlatR::T(Tok::Open));
                flatten_repl(inner, nparams, out);
                out.push(FlatR::T(Tok::Close));
            }
        }
    }
}

fn collapse_repl(v: Vec<FlatR>) -> Vec<FlatR> {
    let mut out: Vec<FlatR> = vec![];
    for t in v {
        if let (FlatR::T(Tok::Sp), Some(FlatR::T(Tok::Sp))) = (&t, out.last()) {
            continue;
        }
        out.push(t);
    }
    out
}

fn render_tok(t: &Tok, s: &mut String) {
    match t {
        Tok::L(c) | Tok::O(c) => s.push(*c),
        Tok::Sp => s.push(' '),
        Tok::Cs(c) => {
            s.push('\\');
            s.push(*c);
        }
        Tok::Open => s.push('{'),
        Tok::Close => s.push('}'),
        Tok::Hash => s.push_str("##"),
    }
}

pub struct Built {
    pub text: String,
    pub prefix: Vec<Tok>,
    pub params: Vec<Option<Vec<Tok>>>,
    pub repl: Vec<FlatRPub>,
    pub stream: Vec<Tok>,
}

#[derive(Clone, Debug)]
pub enum FlatRPub {
    T(Tok),
    P(usize),
}

pub fn build(c: &MacroCase) -> Built {
    let prefix = clean_delim(&c.prefix);
    let nparams = c.params.len().min(9);
    let mut params: Vec<Option<Vec<Tok>>> = c.params.iter().take(9).map(|p| p.as_ref().map(|d| clean_delim(d)).filter(|d| !d.is_empty())).collect();
    // the parameter text as TeX will see it
    let mut text = String::from(if c.gdef { "\\gdef\\*" } else { "\\def\\*" });
    for t in &prefix {
        render_tok(t, &mut text);
    }
    for (i, p) in params.iter().enumerate() {
        text.push('#');
        text.push_str(&format!("{}", i + 1));
        if let Some(d) = p {
            for t in d {
                render_tok(t, &mut text);
            }
        }
    }
    if c.brace_delim {
        text.push('#');
    }
    text.push('{');
    let mut flat = vec![];
    flatten_repl(&c.repl, nparams, &mut flat);
    let flat = collapse_repl(flat);
    for r in &flat {
        match r {
            FlatR::T(t) => render_tok(t, &mut text),
            FlatR::P(i) => text.push_str(&format!("#{}", i + 1)),
        }
    }
    text.push('}');
    // Effective specification including the `#{` brace.
    let mut eff_prefix = prefix.clone();
    if c.brace_delim {
        match params.last_mut() {
            None => eff_prefix.push(Tok::Open),
            Some(p) => match p {
                None => *p = Some(vec![Tok::Open]),
                Some(d) => d.push(Tok::Open),
            },
        }
    }
    // The stream after the call.
    let mut stream: Vec<Tok> = vec![];
    stream.extend(prefix.iter().copied());
    for (i, p) in c.params.iter().take(9).enumerate() {
        let empty = vec![];
        let a = c.args.get(i).unwrap_or(&empty);
        flatten(a, &mut stream);
        if let Some(d) = p {
            stream.extend(clean_delim(d));
        }
    }
    if c.brace_delim {
        stream.push(Tok::Open);
    }
    flatten(&c.tail, &mut stream);
    if c.brace_delim {
        stream.push(Tok::Close);
    }
    let stream = match c.wrap_split {
        None => {
            let stream = collapse_spaces(&stream);
            text.push_str("\\expandafter\\vpcapture\\*");
            for t in &stream {
                render_tok(t, &mut text);
            }
            text.push_str("\\vpstop%");
            stream
        }
        Some((f, pad)) => {
            // depth-0 split positions of the raw stream
            let mut positions = vec![0usize];
            let mut depth = 0i32;
            for (i, t) in stream.iter().enumerate() {
                match t {
                    Tok::Open => depth += 1,
                    Tok::Close => depth -= 1,
                    _ => {}
                }
                if depth == 0 {
                    positions.push(i + 1);
                }
            }
            let p = positions[((f as usize) * positions.len()) >> 16];
            let mut s1 = collapse_spaces(&stream[..p]);
            let mut s2 = collapse_spaces(&stream[p..]);
            if pad {
                // make sure two space tokens meet at the junction
                if s1.last() != Some(&Tok::Sp) && !matches!(s1.last(), Some(Tok::Cs(_))) && !s1.is_empty() {
                    s1.push(Tok::Sp);
                }
                if s2.first() != Some(&Tok::Sp) {
                    s2.insert(0, Tok::Sp);
                }
            }
            text.push_str("\\def\\w#1#2{\\expandafter\\vpcapture\\*#1#2\\vpstop}\\w{");
            for t in &s1 {
                render_tok(t, &mut text);
            }
            text.push_str("}{");
            for t in &s2 {
                render_tok(t, &mut text);
            }
            text.push_str("}%");
            let mut joined = s1;
            joined.extend(s2);
            joined
        }
    };
    let repl = flat.into_iter().map(|r| match r {
        FlatR::T(t) => FlatRPub::T(t),
        FlatR::P(i) => FlatRPub::P(i),
    }).collect();
    Built { text, prefix: eff_prefix, params, repl, stream }
}

#[derive(Debug, PartialEq, Eq)]
pub enum ModelErr {
    PrefixMismatch,
    NoMatch,
    ExtraRightBrace,
    EndOfInput,
}

#[derive(Default, Clone, Copy)]
pub struct Deviations {
    /// strip braces whenever the argument starts with `{` and ends with `}` (D3)
    pub strip_when_first_and_last_are_braces: bool,
}

pub struct ModelOut {
    pub tokens: Vec<Tok>,
    pub args: Vec<Vec<Tok>>,
    pub partial_delim_in_arg: bool,
    pub arg_has_group_delimited: bool,
    pub stripped: bool,
    pub multi_group_delimited: bool,
}

/// TeX's macro_call (§389–399) on token lists.
pub fn macro_call(b: &Built, dev: Deviations) -> Result<ModelOut, ModelErr> {
    let s = &b.stream;
    let mut p = 0usize;
    for t in &b.prefix {
        if p >= s.len() {
            return Err(ModelErr::EndOfInput);
        }
        if s[p] != *t {
            return Err(ModelErr::PrefixMismatch);
        }
        p += 1;
    }
    let mut args: Vec<Vec<Tok>> = vec![];
    let mut partial = false;
    let mut has_group = false;
    let mut stripped = false;
    let mut multi_group = false;
    let mut trailing_open = false;
    for (pi, param) in b.params.iter().enumerate() {
        match param {
            None => {
                while p < s.len() && s[p] == Tok::Sp {
                    p += 1;
                }
                if p >= s.len() {
                    return Err(ModelErr::EndOfInput);
                }
                match s[p] {
                    Tok::Open => {
                        let end = match_group(s, p).ok_or(ModelErr::EndOfInput)?;
                        args.push(s[p + 1..end].to_vec());
                        p = end + 1;
                    }
                    Tok::Close => return Err(ModelErr::ExtraRightBrace),
                    t => {
                        args.push(vec![t]);
                        p += 1;
                    }
                }
            }
            Some(d) => {
                let mut units = 0usize;
                let mut last_unit_group = false;
                let start = p;
                let mut groups = 0usize;
                loop {
                    if p >= s.len() {
                        return Err(ModelErr::NoMatch);
                    }
                    if p + d.len() <= s.len() && s[p..p + d.len()] == d[..] {
                        break;
                    }
                    // partial occurrence of the delimiter's first token(s)
                    if s[p] == d[0] {
                        partial = true;
                    }
                    match s[p] {
                        Tok::Open => {
                            let end = match_group(s, p).ok_or(ModelErr::NoMatch)?;
                            p = end + 1;
                            units += 1;
                            groups += 1;
                            last_unit_group = true;
                        }
                        Tok::Close => return Err(ModelErr::ExtraRightBrace),
                        _ => {
                            p += 1;
                            units += 1;
                            last_unit_group = false;
                        }
                    }
                }
                let mut arg = s[start..p].to_vec();
                if groups > 0 {
                    has_group = true;
                }
                if groups >= 2 || (groups == 1 && units >= 2) {
                    multi_group = true;
                }
                let strip = if dev.strip_when_first_and_last_are_braces {
                    arg.len() >= 2 && arg[0] == Tok::Open && arg[arg.len() - 1] == Tok::Close
                } else {
                    units == 1 && last_unit_group
                };
                if strip {
                    arg = arg[1..arg.len() - 1].to_vec();
                    stripped = true;
                }
                args.push(arg);
                p += d.len();
                if d.last() == Some(&Tok::Open) && pi + 1 == b.params.len() {
                    trailing_open = true;
                }
            }
        }
    }
    if b.params.is_empty() && b.prefix.last() == Some(&Tok::Open) {
        trailing_open = true;
    }
    let mut out: Vec<Tok> = vec![];
    for r in &b.repl {
        match r {
            FlatRPub::T(t) => out.push(*t),
            FlatRPub::P(i) => out.extend(args[*i].iter().copied()),
        }
    }
    if trailing_open {
        out.push(Tok::Open);
    }
    out.extend(s[p..].iter().copied());
    Ok(ModelOut { tokens: out, args, partial_delim_in_arg: partial, arg_has_group_delimited: has_group, stripped, multi_group_delimited: multi_group })
}

fn match_group(s: &[Tok], open: usize) -> Option<usize> {
    let mut depth = 0i32;
    for (i, t) in s.iter().enumerate().skip(open) {
        match t {
            Tok::Open => depth += 1,
            Tok::Close => {
                depth -= 1;
                if depth == 0 {
                    return Some(i);
                }
            }
            _ => {}
        }
    }
    None
}

fn to_out(t: &Tok) -> OutTok {
    match t {
        Tok::L(c) => OutTok::Ch(*c, 11),
        Tok::O(c) => OutTok::Ch(*c, 12),
        Tok::Sp => OutTok::Ch(' ', 10),
        Tok::Cs(c) => OutTok::Cs(c.to_string()),
        Tok::Open => OutTok::Ch('{', 1),
        Tok::Close => OutTok::Ch('}', 2),
        Tok::Hash => OutTok::Ch('#', 6),
    }
}

fn tok_strategy() -> impl Strategy<Value = Tok> {
    prop_oneof![
        3 => Just(Tok::L('a')),
        2 => Just(Tok::L('b')),
        2 => Just(Tok::O('.')),
        1 => Just(Tok::O(',')),
        2 => Just(Tok::Sp),
        1 => Just(Tok::Cs('!')),
        1 => Just(Tok::Cs(';')),
    ]
}

fn atree_strategy() -> impl Strategy<Value = ATree> {
    let leaf = tok_strategy().prop_map(ATree::T);
    leaf.prop_recursive(3, 12, 4, |inner| proptest::collection::vec(inner, 0..4).prop_map(ATree::G))
}

fn arg_strategy() -> impl Strategy<Value = Vec<ATree>> {
    prop_oneof![
        1 => Just(vec![]),
        2 => tok_strategy().prop_map(|t| vec![ATree::T(t)]),
        3 => proptest::collection::vec(atree_strategy(), 0..3).prop_map(|v| vec![ATree::G(v)]),
        3 => (proptest::collection::vec(atree_strategy(), 0..3), proptest::collection::vec(atree_strategy(), 0..3)).prop_map(|(a, b)| vec![ATree::G(a), ATree::G(b)]),
        2 => (proptest::collection::vec(atree_strategy(), 0..3), tok_strategy()).prop_map(|(a, t)| vec![ATree::G(a), ATree::T(t)]),
        2 => (proptest::collection::vec(atree_strategy(), 0..3)).prop_map(|a| vec![ATree::T(Tok::Sp), ATree::G(a)]),
        3 => proptest::collection::vec(atree_strategy(), 0..5),
    ]
}

fn rtok_strategy() -> impl Strategy<Value = RTok> {
    let leaf = prop_oneof![
        4 => tok_strategy().prop_map(RTok::T),
        4 => (0u8..9).prop_map(RTok::P),
        1 => Just(RTok::HashHash),
    ];
    leaf.prop_recursive(2, 8, 3, |inner| proptest::collection::vec(inner, 0..3).prop_map(RTok::G))
}

pub fn case_strategy() -> impl Strategy<Value = MacroCase> {
    (
        proptest::collection::vec(tok_strategy(), 0..3),
        proptest::collection::vec(prop_oneof![2 => Just(None), 3 => proptest::collection::vec(tok_strategy(), 1..4).prop_map(Some)], 0..10),
        proptest::bool::weighted(0.15),
        proptest::collection::vec(rtok_strategy(), 0..7),
        proptest::collection::vec(arg_strategy(), 9),
        proptest::collection::vec(atree_strategy(), 0..4),
        proptest::bool::weighted(0.2),
        proptest::option::weighted(0.3, (any::<u16>(), any::<bool>())),
    )
        .prop_map(|(prefix, mut params, brace_delim, repl, args, tail, gdef, wrap_split)| {
            // bias toward few parameters
            if params.len() > 3 && prefix.len() % 2 == 0 {
                params.truncate(3);
            }
            MacroCase { prefix, params, brace_delim, repl, args, tail, gdef, wrap_split }
        })
}

fn oracle(ctx: &Ctx, c: &MacroCase, case: &mut Case) -> Verdict {
    let b = build(c);
    case.note = Some(b.text.clone());
    let model = macro_call(&b, Deviations::default());
    let r = texvm::run_program(&VmOptions::default(), &b.text);
    match model {
        Err(e) => {
            // TeX itself reports an error for this call; the property quantifies over matching
            // calls only. Require a clean error or clean completion (no panic: a panic would have
            // propagated to the engine as a failure).
            case.class(match e {
                ModelErr::PrefixMismatch => "tex_error:prefix",
                ModelErr::NoMatch => "tex_error:no_match",
                ModelErr::ExtraRightBrace => "tex_error:extra_brace",
                ModelErr::EndOfInput => "tex_error:eof",
            });
            Verdict::Skip("call does not match (TeX error)")
        }
        Ok(m) => {
            let nontrivial = (m.arg_has_group_delimited) || c.brace_delim || m.partial_delim_in_arg;
            case.class_if(m.arg_has_group_delimited, "delimited arg with group");
            case.class_if(m.multi_group_delimited, "delimited arg with >=2 units incl. a group");
            case.class_if(m.stripped, "braces stripped");
            case.class_if(c.brace_delim, "#{");
            case.class_if(m.partial_delim_in_arg, "partial delimiter in arg");
            case.class_if(b.params.len() >= 4, "params>=4");
            case.class_if(c.wrap_split.is_some(), "call issued from a forwarding macro");
            case.class_if(b.stream.windows(2).any(|w| w[0] == Tok::Sp && w[1] == Tok::Sp), "adjacent space tokens in the stream");
            let expected: Vec<OutTok> = m.tokens.iter().map(to_out).collect();
            if r.error.is_none() && r.out == expected {
                return Verdict::pass(nontrivial);
            }
            if ctx.known("flag:strip_when_first_and_last_are_braces") {
                if let Ok(m2) = macro_call(&b, Deviations { strip_when_first_and_last_are_braces: true }) {
                    let e2: Vec<OutTok> = m2.tokens.iter().map(to_out).collect();
                    // unbalanced result may also surface as an error later; only exact reproduction counts
                    if r.error.is_none() && r.out == e2 {
                        return Verdict::Known("flag:strip_when_first_and_last_are_braces".into());
                    }
                }
            }
            Verdict::Fail(format!(
                "macro expansion differs from TeX's macro_call\nprogram:  {}\nexpected: {}\ngot:      {}{}",
                b.text,
                texvm::render(&expected),
                texvm::render(&r.out),
                match &r.error {
                    Some(e) => format!("\nerror:    {}", e),
                    None => String::new(),
                }
            ))
        }
    }
}

pub fn run(ctx: &Ctx) {
    ctx.rule("cases = (parameter text: prefix x up to 9 parameters each undelimited or delimited by 1-3 tokens x optional #{) x replacement text over literals, #n, ##, groups x argument tuple (empty, token, group, several groups, nested, leading space, random trees) x tail; rendered as a one-line program `\\def\\*..{..}\\expandafter\\vpcapture\\*<stream>\\vpstop` and the captured unexpanded tokens compared with a transcription of TeX's macro_call; non-trivial = a delimited parameter binds an argument containing a group, or #{ is used, or the delimiter's first token occurs inside the argument; distinct by program text");
    ctx.assume("calls on which TeX itself reports an error (no match, extra }) are outside the quantifier: skipped and counted");
    ctx.assume("control symbols are used instead of control words so the rendered text provably re-lexes to the generated tokens");
    let n = ctx.tier.pick(150_000u64, 3_000_000u64);
    run_generated(ctx, "macro_call", n, case_strategy, |c: &MacroCase, case| oracle(ctx, c, case));
}
