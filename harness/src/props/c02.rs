//! C02 Macro parameters bind and substitute exactly as in TeX.
//!
//! Sub-checks:
//! * `macro_call` — random (specification, argument tuple) pairs rendered as a one-line program in one of
//!   several call shapes (see [`MacroCase`]), compared token for token with a transcription of TeX's
//!   `macro_call` (tex.web §389–399);
//! * `texbook` — fixed vectors (TeXbook pp. 203–204, exercises 20.3/20.5/20.6, the repository's TeX-verified
//!   `def.rs` goldens transliterated to control symbols, DESIGN A.2): the hand-written expected token list must
//!   be produced by BOTH the reference model and the VM, so the model is anchored to TeX and not only to the
//!   implementation it is compared with.

use crate::engine::*;
use crate::texvm::{self, OutTok, VmOptions};
use proptest::prelude::*;
use serde::{Deserialize, Serialize};

#[derive(Clone, Copy, Debug, PartialEq, Eq, Serialize, Deserialize)]
pub enum Tok {
    L(char),
    O(char),
    Sp,
    /// control symbol `\c` (c is not a letter)
    Cs(char),
    Open,
    Close,
    /// a category-6 `#` token (from `##` in a replacement text, or a `#` typed in a call-time argument)
    Hash,
    /// a character of category 3, 4, 7 or 8 (`$`, `&`, `_`; `^` is not used: `^^` is lexer notation)
    C(char, u8),
    /// active character (`~`)
    Active(char),
}

#[derive(Clone, Debug, Serialize, Deserialize)]
pub enum ATree {
    T(Tok),
    G(Vec<ATree>),
}

#[derive(Clone, Debug, Serialize, Deserialize)]
pub enum RTok {
    T(Tok),
    /// parameter reference; index is taken modulo the number of parameters
    P(u8),
    HashHash,
    G(Vec<RTok>),
}

#[derive(Clone, Debug, Serialize, Deserialize)]
pub struct MacroCase {
    pub prefix: Vec<Tok>,
    /// per parameter: None = undelimited, Some(d) = delimited by d
    pub params: Vec<Option<Vec<Tok>>>,
    /// parameter text ends with `#{`
    pub brace_delim: bool,
    pub repl: Vec<RTok>,
    pub args: Vec<Vec<ATree>>,
    pub tail: Vec<ATree>,
    pub gdef: bool,
    /// Some((f, pad)): the call is issued from the body of a forwarding macro; the stream is split at a
    /// depth-0 position (fraction f) and the halves are lexed separately, so space tokens can be adjacent
    /// at the junction (impossible in directly typed source). `wrap_kind` selects the forwarding shape.
    #[serde(default)]
    pub wrap_split: Option<(u16, bool)>,
    /// 0: `\w#1#2` — both halves are arguments of `\w`, every token of the call comes from the expansion stack;
    /// 1: `\w#1` — the first half comes from the expansion stack, the second half is still unread source
    ///    text that the call itself pulls through the lexer;
    /// 2: as 0 but the two halves are lexed under different category codes of `,` (letter / other), and the
    ///    definition under `regime & 1`; `.` and `b` are rendered as `,` too so commas are frequent.
    #[serde(default)]
    pub wrap_kind: u8,
    /// the macro under test is dispatched by the main loop (`stream::next_expanded`): its replacement text
    /// starts with the capture command and the call is written without `\expandafter`
    #[serde(default)]
    pub main_loop: bool,
    /// the call (same stream) is issued twice in the same VM
    #[serde(default)]
    pub twice: bool,
    /// wrap_kind 2 only: bit 0 = `,` is a letter while `\*` is defined, bit 1 = `,` is a letter in the first half
    #[serde(default)]
    pub regime: u8,
    /// the macro under test is the active character `~` instead of the control symbol `\*`
    #[serde(default)]
    pub active_name: bool,
}

fn flatten(ts: &[ATree], out: &mut Vec<Tok>) {
    for t in ts {
        match t {
            ATree::T(Tok::Open) | ATree::T(Tok::Close) => out.push(Tok::O('.')),
            ATree::T(t) => out.push(*t),
            ATree::G(inner) => {
                out.push(Tok::Open);
                flatten(inner, out);
                out.push(Tok::Close);
            }
        }
    }
}

fn collapse_spaces(v: &[Tok]) -> Vec<Tok> {
    let mut out: Vec<Tok> = vec![];
    for t in v {
        if *t == Tok::Sp && out.last() == Some(&Tok::Sp) {
            continue;
        }
        out.push(*t);
    }
    out
}

fn clean_delim(v: &[Tok]) -> Vec<Tok> {
    let v: Vec<Tok> = v.iter().map(|t| match t {
        Tok::Open | Tok::Close | Tok::Hash => Tok::O(','),
        t => *t,
    }).collect();
    collapse_spaces(&v)
}

#[derive(Clone, Debug)]
enum FlatR {
    T(Tok),
    P(usize),
}

fn flatten_repl(r: &[RTok], nparams: usize, out: &mut Vec<FlatR>) {
    for x in r {
        match x {
            RTok::T(Tok::Open) | RTok::T(Tok::Close) | RTok::T(Tok::Hash) => out.push(FlatR::T(Tok::O('.'))),
            RTok::T(t) => out.push(FlatR::T(*t)),
            RTok::P(i) => {
                if nparams == 0 {
                    out.push(FlatR::T(Tok::L('x')));
                } else {
                    out.push(FlatR::P(*i as usize % nparams));
                }
            }
            RTok::HashHash => out.push(FlatR::T(Tok::Hash)),
            RTok::G(inner) => {
                out.push(FlatR::T(Tok::Open));
                flatten_repl(inner, nparams, out);
                out.push(FlatR::T(Tok::Close));
            }
        }
    }
}

fn collapse_repl(v: Vec<FlatR>) -> Vec<FlatR> {
    let mut out: Vec<FlatR> = vec![];
    for t in v {
        if let (FlatR::T(Tok::Sp), Some(FlatR::T(Tok::Sp))) = (&t, out.last()) {
            continue;
        }
        out.push(t);
    }
    out
}

/// `in_def`: inside a `\def` a category-6 token of the replacement text is written `##`; in a call-time
/// argument it is a plain `#`.
fn render_tok(t: &Tok, in_def: bool, s: &mut String) {
    match t {
        Tok::L(c) | Tok::O(c) | Tok::C(c, _) | Tok::Active(c) => s.push(*c),
        Tok::Sp => s.push(' '),
        Tok::Cs(c) => {
            s.push('\\');
            s.push(*c);
        }
        Tok::Open => s.push('{'),
        Tok::Close => s.push('}'),
        Tok::Hash => s.push_str(if in_def { "##" } else { "#" }),
    }
}

fn render_toks(ts: &[Tok], in_def: bool, s: &mut String) {
    for t in ts {
        render_tok(t, in_def, s);
    }
}

pub struct Built {
    pub text: String,
    /// prefix incl. the `{` of a `#{` without parameters
    pub prefix: Vec<Tok>,
    /// parameters incl. the `{` of `#{` as last delimiter token
    pub params: Vec<Option<Vec<Tok>>>,
    pub repl: Vec<FlatRPub>,
    pub stream: Vec<Tok>,
    /// number of leading stream tokens that come from the expansion stack while the rest is lexed by the
    /// call itself (wrap_kind 1); None otherwise
    pub stack_len: Option<usize>,
    /// the definition has a digit directly after `#n` (delimiter), after `#n` in the replacement text, or after `##`
    pub digit_after_hash: bool,
}

#[derive(Clone, Debug)]
pub enum FlatRPub {
    T(Tok),
    P(usize),
}

fn is_digit(t: &Tok) -> bool {
    matches!(t, Tok::O(c) if c.is_ascii_digit())
}

/// Definition text `\def\*<ptext>{<body_head><repl>}` and the effective specification (with the `#{` brace).
fn definition(
    name: &str,
    gdef: bool,
    prefix: &[Tok],
    params: &[Option<Vec<Tok>>],
    brace_delim: bool,
    repl: &[FlatRPub],
    body_head: &str,
    text: &mut String,
) -> (Vec<Tok>, Vec<Option<Vec<Tok>>>, bool) {
    let mut digit_after_hash = false;
    text.push_str(if gdef { "\\gdef" } else { "\\def" });
    text.push_str(name);
    render_toks(prefix, true, text);
    for (i, p) in params.iter().enumerate() {
        text.push('#');
        text.push_str(&format!("{}", i + 1));
        if let Some(d) = p {
            digit_after_hash |= d.first().map(is_digit).unwrap_or(false);
            render_toks(d, true, text);
        }
    }
    if brace_delim {
        text.push('#');
    }
    text.push('{');
    text.push_str(body_head);
    let mut prev_hashish = false;
    for r in repl {
        match r {
            FlatRPub::T(t) => {
                digit_after_hash |= prev_hashish && is_digit(t);
                prev_hashish = *t == Tok::Hash;
                render_tok(t, true, text);
            }
            FlatRPub::P(i) => {
                prev_hashish = true;
                text.push_str(&format!("#{}", i + 1));
            }
        }
    }
    text.push('}');
    let mut eff_prefix = prefix.to_vec();
    let mut eff_params = params.to_vec();
    if brace_delim {
        match eff_params.last_mut() {
            None => eff_prefix.push(Tok::Open),
            Some(p) => match p {
                None => *p = Some(vec![Tok::Open]),
                Some(d) => d.push(Tok::Open),
            },
        }
    }
    (eff_prefix, eff_params, digit_after_hash)
}

fn comma(letter: bool) -> Tok {
    if letter {
        Tok::L(',')
    } else {
        Tok::O(',')
    }
}

/// Category-code regime of a region of the program: `None` = the default table (`,` is an other character;
/// a stray letter-comma is normalised), `Some(letter)` = regime mode (`.`, `,` and `b` all become a comma of the
/// region's category, so commas are frequent).
fn regime_map(v: &[Tok], regime: Option<bool>) -> Vec<Tok> {
    v.iter().map(|t| match (t, regime) {
        (Tok::L(','), None) => Tok::O(','),
        (Tok::L(',') | Tok::O(',') | Tok::O('.') | Tok::L('b'), Some(letter)) => comma(letter),
        (t, _) => *t,
    }).collect()
}

fn catcode_comma(letter: bool, text: &mut String) {
    text.push_str(if letter { "\\catcode`\\,=11 " } else { "\\catcode`\\,=12 " });
}

pub fn build(c: &MacroCase) -> Built {
    let regime_mode = c.wrap_split.is_some() && c.wrap_kind == 2;
    let def_regime = if regime_mode { Some(c.regime & 1 != 0) } else { None };
    let s1_regime = if regime_mode { Some(c.regime & 2 != 0) } else { None };
    let s2_regime = if regime_mode { Some(c.regime & 2 == 0) } else { None };
    let raw_prefix = clean_delim(&c.prefix);
    let nparams = c.params.len().min(9);
    let raw_params: Vec<Option<Vec<Tok>>> = c.params.iter().take(9).map(|p| p.as_ref().map(|d| clean_delim(d)).filter(|d| !d.is_empty())).collect();
    let prefix = regime_map(&raw_prefix, def_regime);
    let params: Vec<Option<Vec<Tok>>> = raw_params.iter().map(|p| p.as_ref().map(|d| regime_map(d, def_regime))).collect();
    let mut flat = vec![];
    flatten_repl(&c.repl, nparams, &mut flat);
    let repl: Vec<FlatRPub> = collapse_repl(flat).into_iter().map(|r| match r {
        FlatR::T(t) => FlatRPub::T(regime_map(&[t], def_regime)[0]),
        FlatR::P(i) => FlatRPub::P(i),
    }).collect();

    let name = if c.active_name { "~" } else { "\\*" };
    let mut text = String::new();
    if c.main_loop {
        text.push_str("\\let\\+\\vpcapture");
    }
    if let Some(l) = def_regime {
        catcode_comma(l, &mut text);
    }
    let (eff_prefix, eff_params, digit_after_hash) =
        definition(name, c.gdef, &prefix, &params, c.brace_delim, &repl, if c.main_loop { "\\+" } else { "" }, &mut text);
    let head = &format!("{}{}", if c.main_loop { "" } else { "\\expandafter\\vpcapture" }, name);

    // The stream after the call (before the regions' category codes are applied).
    let mut stream: Vec<Tok> = vec![];
    stream.extend(raw_prefix.iter().copied());
    for (i, p) in raw_params.iter().enumerate() {
        let empty = vec![];
        let a = c.args.get(i).unwrap_or(&empty);
        flatten(a, &mut stream);
        if let Some(d) = p {
            stream.extend(d.iter().copied());
        }
    }
    if c.brace_delim {
        stream.push(Tok::Open);
    }
    flatten(&c.tail, &mut stream);
    if c.brace_delim {
        stream.push(Tok::Close);
    }
    let reps = if c.twice { 2 } else { 1 };
    let mut stack_len = None;
    let stream = match c.wrap_split {
        None => {
            let stream = regime_map(&collapse_spaces(&stream), None);
            for _ in 0..reps {
                text.push_str(head);
                render_toks(&stream, false, &mut text);
                text.push_str("\\vpstop");
            }
            stream
        }
        Some((f, pad)) => {
            // depth-0 split positions of the raw stream
            let mut positions = vec![0usize];
            let mut depth = 0i32;
            for (i, t) in stream.iter().enumerate() {
                match t {
                    Tok::Open => depth += 1,
                    Tok::Close => depth -= 1,
                    _ => {}
                }
                if depth == 0 {
                    positions.push(i + 1);
                }
            }
            let p = positions[((f as usize) * positions.len()) >> 16];
            let mut s1 = collapse_spaces(&stream[..p]);
            let mut s2 = collapse_spaces(&stream[p..]);
            if pad {
                // make sure two space tokens meet at the junction
                if s1.last() != Some(&Tok::Sp) && !matches!(s1.last(), Some(Tok::Cs(_))) && !s1.is_empty() {
                    s1.push(Tok::Sp);
                }
                if s2.first() != Some(&Tok::Sp) {
                    s2.insert(0, Tok::Sp);
                }
            }
            let s1 = regime_map(&s1, s1_regime);
            let s2 = regime_map(&s2, s2_regime);
            match c.wrap_kind {
                1 => {
                    text.push_str("\\def\\w#1{");
                    text.push_str(head);
                    text.push_str("#1}");
                    for _ in 0..reps {
                        text.push_str("\\w{");
                        render_toks(&s1, false, &mut text);
                        text.push('}');
                        render_toks(&s2, false, &mut text);
                        text.push_str("\\vpstop");
                    }
                    stack_len = Some(s1.len());
                }
                2 => {
                    text.push_str("\\def\\u#1{");
                    catcode_comma(s2_regime.unwrap(), &mut text);
                    text.push_str("\\v{#1}}\\def\\v#1#2{");
                    text.push_str(head);
                    text.push_str("#1#2\\vpstop}");
                    for _ in 0..reps {
                        catcode_comma(s1_regime.unwrap(), &mut text);
                        text.push_str("\\u{");
                        render_toks(&s1, false, &mut text);
                        text.push_str("}{");
                        render_toks(&s2, false, &mut text);
                        text.push('}');
                    }
                }
                _ => {
                    text.push_str("\\def\\w#1#2{");
                    text.push_str(head);
                    text.push_str("#1#2\\vpstop}");
                    for _ in 0..reps {
                        text.push_str("\\w{");
                        render_toks(&s1, false, &mut text);
                        text.push_str("}{");
                        render_toks(&s2, false, &mut text);
                        text.push('}');
                    }
                }
            }
            let mut joined = s1;
            joined.extend(s2);
            joined
        }
    };
    text.push('%');
    Built { text, prefix: eff_prefix, params: eff_params, repl, stream, stack_len, digit_after_hash }
}

#[derive(Debug, PartialEq, Eq)]
pub enum ModelErr {
    PrefixMismatch,
    NoMatch,
    ExtraRightBrace,
    EndOfInput,
}

#[derive(Default)]
pub struct ModelOut {
    pub tokens: Vec<Tok>,
    pub args: Vec<Vec<Tok>>,
    /// number of stream tokens consumed by the call (incl. the brace of `#{`, which is put back)
    pub consumed: usize,
    pub partial_delim_in_arg: bool,
    /// a rejected partial match of two or more delimiter tokens at depth 0
    pub long_partial: bool,
    /// the complete delimiter occurs inside a group of the argument it delimits
    pub delim_inside_group: bool,
    pub arg_has_group_delimited: bool,
    pub stripped: bool,
    pub multi_group_delimited: bool,
    pub empty_delimited: bool,
    pub space_skipped_undelimited: bool,
}

fn occurs(hay: &[Tok], needle: &[Tok]) -> bool {
    !needle.is_empty() && hay.len() >= needle.len() && hay.windows(needle.len()).any(|w| w == needle)
}

/// TeX's macro_call (§389–399) on token lists.
pub fn macro_call(b: &Built) -> Result<ModelOut, ModelErr> {
    let s = &b.stream;
    let mut p = 0usize;
    for t in &b.prefix {
        if p >= s.len() {
            return Err(ModelErr::EndOfInput);
        }
        if s[p] != *t {
            return Err(ModelErr::PrefixMismatch);
        }
        p += 1;
    }
    let mut m = ModelOut::default();
    let mut args: Vec<Vec<Tok>> = vec![];
    let mut trailing_open = false;
    for (pi, param) in b.params.iter().enumerate() {
        match param {
            None => {
                // §393: an undelimited parameter skips blank spaces (§392 `if cur_tok=space_token` ... `goto continue`)
                while p < s.len() && s[p] == Tok::Sp {
                    p += 1;
                    m.space_skipped_undelimited = true;
                }
                if p >= s.len() {
                    return Err(ModelErr::EndOfInput);
                }
                match s[p] {
                    Tok::Open => {
                        let end = match_group(s, p).ok_or(ModelErr::EndOfInput)?;
                        args.push(s[p + 1..end].to_vec());
                        p = end + 1;
                    }
                    Tok::Close => return Err(ModelErr::ExtraRightBrace),
                    t => {
                        args.push(vec![t]);
                        p += 1;
                    }
                }
            }
            Some(d) => {
                let mut units = 0usize;
                let mut last_unit_group = false;
                let start = p;
                let mut groups = 0usize;
                loop {
                    if p >= s.len() {
                        return Err(ModelErr::NoMatch);
                    }
                    if p + d.len() <= s.len() && s[p..p + d.len()] == d[..] {
                        break;
                    }
                    // partial occurrence of the delimiter's first token(s)
                    if s[p] == d[0] {
                        m.partial_delim_in_arg = true;
                        if d.len() >= 2 && p + 1 < s.len() && s[p + 1] == d[1] {
                            m.long_partial = true;
                        }
                    }
                    match s[p] {
                        Tok::Open => {
                            let end = match_group(s, p).ok_or(ModelErr::NoMatch)?;
                            if d.last() != Some(&Tok::Open) && occurs(&s[p..end], d) {
                                m.delim_inside_group = true;
                            }
                            p = end + 1;
                            units += 1;
                            groups += 1;
                            last_unit_group = true;
                        }
                        Tok::Close => return Err(ModelErr::ExtraRightBrace),
                        _ => {
                            p += 1;
                            units += 1;
                            last_unit_group = false;
                        }
                    }
                }
                let mut arg = s[start..p].to_vec();
                if groups > 0 {
                    m.arg_has_group_delimited = true;
                }
                if groups >= 2 || (groups == 1 && units >= 2) {
                    m.multi_group_delimited = true;
                }
                // §393: m=1 and the last token is a right brace
                if units == 1 && last_unit_group {
                    arg = arg[1..arg.len() - 1].to_vec();
                    m.stripped = true;
                }
                if units == 0 {
                    m.empty_delimited = true;
                }
                args.push(arg);
                p += d.len();
                if d.last() == Some(&Tok::Open) && pi + 1 == b.params.len() {
                    trailing_open = true;
                }
            }
        }
    }
    if b.params.is_empty() && b.prefix.last() == Some(&Tok::Open) {
        trailing_open = true;
    }
    let mut out: Vec<Tok> = vec![];
    for r in &b.repl {
        match r {
            FlatRPub::T(t) => out.push(*t),
            FlatRPub::P(i) => out.extend(args[*i].iter().copied()),
        }
    }
    if trailing_open {
        out.push(Tok::Open);
    }
    out.extend(s[p..].iter().copied());
    m.tokens = out;
    m.args = args;
    m.consumed = p;
    Ok(m)
}

fn match_group(s: &[Tok], open: usize) -> Option<usize> {
    let mut depth = 0i32;
    for (i, t) in s.iter().enumerate().skip(open) {
        match t {
            Tok::Open => depth += 1,
            Tok::Close => {
                depth -= 1;
                if depth == 0 {
                    return Some(i);
                }
            }
            _ => {}
        }
    }
    None
}

fn max_depth(s: &[Tok]) -> i32 {
    let mut depth = 0i32;
    let mut mx = 0;
    for t in s {
        match t {
            Tok::Open => {
                depth += 1;
                mx = mx.max(depth);
            }
            Tok::Close => depth -= 1,
            _ => {}
        }
    }
    mx
}

/// Length of the longest proper border of `d` (prefix that is also a suffix): > 0 means the delimiter overlaps itself.
fn border(d: &[Tok]) -> usize {
    (1..d.len()).rev().find(|k| d[..*k] == d[d.len() - *k..]).unwrap_or(0)
}

fn to_out(t: &Tok) -> OutTok {
    match t {
        Tok::L(c) => OutTok::Ch(*c, 11),
        Tok::O(c) => OutTok::Ch(*c, 12),
        Tok::Sp => OutTok::Ch(' ', 10),
        Tok::Cs(c) => OutTok::Cs(c.to_string()),
        Tok::Open => OutTok::Ch('{', 1),
        Tok::Close => OutTok::Ch('}', 2),
        Tok::Hash => OutTok::Ch('#', 6),
        Tok::C(c, cat) => OutTok::Ch(*c, *cat),
        Tok::Active(c) => OutTok::Active(*c),
    }
}

type TokS = BoxedStrategy<Tok>;

/// The full token alphabet (delimiters, prefixes, replacement literals, argument leaves).
fn tok_strategy() -> TokS {
    prop_oneof![
        6 => Just(Tok::L('a')),
        4 => Just(Tok::L('b')),
        4 => Just(Tok::O('.')),
        2 => Just(Tok::O(',')),
        4 => Just(Tok::Sp),
        2 => Just(Tok::Cs('!')),
        2 => Just(Tok::Cs(';')),
        2 => Just(Tok::O('1')),
        2 => Just(Tok::O('2')),
        1 => Just(Tok::Active('~')),
        1 => prop_oneof![Just(Tok::C('$', 3)), Just(Tok::C('&', 4)), Just(Tok::C('_', 8))],
    ]
    .boxed()
}

/// Placeholders of the narrow alphabets; replaced by an arbitrary triple of tokens afterwards.
const PH: [Tok; 3] = [Tok::L('a'), Tok::L('b'), Tok::O('.')];

fn narrow_tok_strategy() -> TokS {
    prop_oneof![4 => Just(PH[0]), 3 => Just(PH[1]), 1 => Just(PH[2])].boxed()
}

fn atree_strategy(tok: TokS, hash: bool) -> BoxedStrategy<ATree> {
    // a category-6 `#` typed in a call-time argument is an ordinary token for macro_call
    let leaf = if hash {
        prop_oneof![30 => tok, 1 => Just(Tok::Hash)].prop_map(ATree::T).boxed()
    } else {
        tok.prop_map(ATree::T).boxed()
    };
    leaf.prop_recursive(3, 12, 4, |inner| proptest::collection::vec(inner, 0..4).prop_map(ATree::G)).boxed()
}

fn arg_strategy(tok: TokS, hash: bool, runs: u32) -> BoxedStrategy<Vec<ATree>> {
    let at = || atree_strategy(tok.clone(), hash);
    // mostly depth-0 tokens with an occasional group: partial delimiter matches outside groups
    let run_unit = prop_oneof![5 => tok.clone().prop_map(ATree::T), 1 => at()];
    prop_oneof![
        runs => proptest::collection::vec(run_unit, 1..9),
        1 => Just(vec![]),
        2 => tok.clone().prop_map(|t| vec![ATree::T(t)]),
        3 => proptest::collection::vec(at(), 0..3).prop_map(|v| vec![ATree::G(v)]),
        3 => (proptest::collection::vec(at(), 0..3), proptest::collection::vec(at(), 0..3)).prop_map(|(a, b)| vec![ATree::G(a), ATree::G(b)]),
        2 => (proptest::collection::vec(at(), 0..3), tok.clone()).prop_map(|(a, t)| vec![ATree::G(a), ATree::T(t)]),
        2 => (proptest::collection::vec(at(), 0..3)).prop_map(|a| vec![ATree::T(Tok::Sp), ATree::G(a)]),
        3 => proptest::collection::vec(at(), 0..5),
    ]
    .boxed()
}

fn rtok_strategy(tok: TokS) -> BoxedStrategy<RTok> {
    let leaf = prop_oneof![
        4 => tok.prop_map(RTok::T),
        4 => (0u8..9).prop_map(RTok::P),
        1 => Just(RTok::HashHash),
    ];
    leaf.prop_recursive(2, 8, 3, |inner| proptest::collection::vec(inner, 0..3).prop_map(RTok::G)).boxed()
}

/// (wrap_split, wrap_kind, main_loop, twice, regime, active_name)
type Shape = (Option<(u16, bool)>, u8, bool, bool, u8, bool);

fn shape_strategy() -> impl Strategy<Value = Shape> {
    (
        proptest::option::weighted(0.45, (any::<u16>(), any::<bool>())),
        prop_oneof![3 => Just(0u8), 3 => Just(1u8), 2 => Just(2u8)],
        proptest::bool::weighted(0.35),
        proptest::bool::weighted(0.15),
        0u8..4,
        proptest::bool::weighted(0.1),
    )
}

fn case_with(tok: TokS, narrow: bool) -> BoxedStrategy<MacroCase> {
    let delim = if narrow {
        prop_oneof![1 => proptest::collection::vec(tok.clone(), 1..3), 4 => proptest::collection::vec(tok.clone(), 3..8)].boxed()
    } else {
        prop_oneof![6 => proptest::collection::vec(tok.clone(), 1..4), 1 => proptest::collection::vec(tok.clone(), 4..8)].boxed()
    };
    let params = if narrow {
        proptest::collection::vec(prop_oneof![1 => Just(None), 4 => delim.prop_map(Some)], 1..4).boxed()
    } else {
        proptest::collection::vec(prop_oneof![2 => Just(None), 3 => delim.prop_map(Some)], 0..10).boxed()
    };
    (
        proptest::collection::vec(tok.clone(), 0..3),
        params,
        proptest::bool::weighted(0.15),
        proptest::collection::vec(rtok_strategy(tok.clone()), 0..7),
        proptest::collection::vec(arg_strategy(tok.clone(), !narrow, if narrow { 12 } else { 3 }), 9),
        proptest::collection::vec(atree_strategy(tok.clone(), !narrow), 0..4),
        proptest::bool::weighted(0.2),
        shape_strategy(),
    )
        .prop_map(|(prefix, mut params, brace_delim, repl, args, tail, gdef, shape)| {
            // bias toward few parameters
            if params.len() > 3 && prefix.len() % 2 == 0 {
                params.truncate(3);
            }
            let (wrap_split, wrap_kind, main_loop, twice, regime, active_name) = shape;
            MacroCase { prefix, params, brace_delim, repl, args, tail, gdef, wrap_split, wrap_kind, main_loop, twice, regime, active_name }
        })
        .boxed()
}

fn map_atrees(v: &mut [ATree], f: &impl Fn(Tok) -> Tok) {
    for t in v {
        match t {
            ATree::T(t) => *t = f(*t),
            ATree::G(inner) => map_atrees(inner, f),
        }
    }
}

fn map_rtoks(v: &mut [RTok], f: &impl Fn(Tok) -> Tok) {
    for t in v {
        match t {
            RTok::T(t) => *t = f(*t),
            RTok::G(inner) => map_rtoks(inner, f),
            _ => {}
        }
    }
}

/// Narrow alphabet: every token of the case is one of (at most) three tokens, delimiters are up to 7 tokens
/// long; near-misses and self-overlapping delimiters are the rule, inside and outside groups.
fn narrow_case_strategy() -> BoxedStrategy<MacroCase> {
    let triple = prop_oneof![
        3 => Just([Tok::L('a'), Tok::L('b'), Tok::O('.')]),
        3 => Just([Tok::L('a'), Tok::L('b'), Tok::L('b')]),
        2 => Just([Tok::L('a'), Tok::Sp, Tok::L('b')]),
        3 => (tok_strategy(), tok_strategy(), tok_strategy()).prop_map(|(x, y, z)| [x, y, z]),
    ];
    (case_with(narrow_tok_strategy(), true), triple)
        .prop_map(|(mut c, tr)| {
            let f = move |t: Tok| match PH.iter().position(|p| *p == t) {
                Some(i) => tr[i],
                None => t,
            };
            for t in c.prefix.iter_mut() {
                *t = f(*t);
            }
            for d in c.params.iter_mut().flatten() {
                for t in d.iter_mut() {
                    *t = f(*t);
                }
            }
            map_rtoks(&mut c.repl, &f);
            for a in c.args.iter_mut() {
                map_atrees(a, &f);
            }
            map_atrees(&mut c.tail, &f);
            c
        })
        .boxed()
}

pub fn case_strategy() -> impl Strategy<Value = MacroCase> {
    prop_oneof![
        7 => case_with(tok_strategy(), false),
        3 => narrow_case_strategy(),
    ]
}

fn expect_out(tokens: &[Tok], reps: usize) -> Vec<OutTok> {
    let one: Vec<OutTok> = tokens.iter().map(to_out).collect();
    let mut out = vec![];
    for _ in 0..reps {
        out.extend(one.iter().cloned());
    }
    out
}

fn oracle(c: &MacroCase, case: &mut Case) -> Verdict {
    let b = build(c);
    case.note = Some(b.text.clone());
    let model = macro_call(&b);
    let r = texvm::run_program(&VmOptions::default(), &b.text);
    match model {
        Err(e) => {
            // TeX itself reports an error for this call; the property quantifies over matching
            // calls only. Require a clean error or clean completion (no panic: a panic would have
            // propagated to the engine as a failure).
            case.class(match e {
                ModelErr::PrefixMismatch => "tex_error:prefix",
                ModelErr::NoMatch => "tex_error:no_match",
                ModelErr::ExtraRightBrace => "tex_error:extra_brace",
                ModelErr::EndOfInput => "tex_error:eof",
            });
            Verdict::Skip("call does not match (TeX error)")
        }
        Ok(m) => {
            let nontrivial = (m.arg_has_group_delimited) || c.brace_delim || m.partial_delim_in_arg;
            classify(c, &b, &m, case);
            let expected = expect_out(&m.tokens, if c.twice { 2 } else { 1 });
            if r.error.is_none() && r.out == expected {
                return Verdict::pass(nontrivial);
            }
            Verdict::Fail(format!(
                "macro expansion differs from TeX's macro_call\nprogram:  {}\nexpected: {}\ngot:      {}{}",
                b.text,
                texvm::render(&expected),
                texvm::render(&r.out),
                match &r.error {
                    Some(e) => format!("\nerror:    {}", e),
                    None => String::new(),
                }
            ))
        }
    }
}

fn classify(c: &MacroCase, b: &Built, m: &ModelOut, case: &mut Case) {
    case.class_if(m.arg_has_group_delimited, "delimited arg with group");
    case.class_if(m.multi_group_delimited, "delimited arg with >=2 units incl. a group");
    case.class_if(m.stripped, "braces stripped");
    case.class_if(c.brace_delim, "#{");
    case.class_if(m.partial_delim_in_arg, "partial delimiter in arg");
    case.class_if(b.params.len() >= 4, "params>=4");
    case.class_if(c.wrap_split.is_some(), "call issued from a forwarding macro");
    case.class_if(b.stream.windows(2).any(|w| w[0] == Tok::Sp && w[1] == Tok::Sp), "adjacent space tokens in the stream");
    // call shapes
    case.class_if(c.main_loop, "call dispatched by the main loop");
    case.class_if(!c.main_loop, "call dispatched by \\expandafter");
    case.class_if(c.twice, "second call in the same VM");
    case.class_if(c.active_name, "macro is an active character");
    if let Some(n) = b.stack_len {
        let spans = n > 0 && m.consumed > n;
        case.class_if(spans, "arguments span stack and source text");
        let sp_junction = n > 0 && n < b.stream.len() && b.stream[n - 1] == Tok::Sp && b.stream[n] == Tok::Sp;
        case.class_if(spans && sp_junction, "stack space followed by lexed space inside the call");
        case.class_if(n > 0 && m.consumed <= n, "call ends on the stack, tail is source text");
    }
    if c.wrap_split.is_some() && c.wrap_kind == 2 {
        case.class("two catcode regimes for `,`");
        let used = &b.stream[..m.consumed];
        let both = used.contains(&Tok::L(',')) && used.contains(&Tok::O(','));
        case.class_if(both, "call consumes both a letter `,` and an other `,`");
        let delim_comma = b.prefix.iter().chain(b.params.iter().flatten().flatten()).any(|t| matches!(t, Tok::L(',') | Tok::O(',')));
        case.class_if(both && delim_comma, "`,` of both categories consumed and `,` in prefix/delimiter");
    }
    // definition shapes
    case.class_if(b.digit_after_hash, "digit adjacent to #n / ## in the definition");
    case.class_if(b.prefix.iter().chain(b.params.iter().flatten().flatten()).any(is_digit), "digit in prefix or delimiter");
    case.class_if(c.gdef, "\\gdef");
    case.class_if(b.repl.iter().any(|r| matches!(r, FlatRPub::T(Tok::Hash))), "## in the replacement text");
    case.class_if(b.params.len() == 9, "9 parameters");
    case.class_if(b.repl.iter().any(|r| matches!(r, FlatRPub::P(8))), "#9 used");
    let mut uses = vec![0usize; b.params.len()];
    for r in &b.repl {
        if let FlatRPub::P(i) = r {
            uses[*i] += 1;
        }
    }
    case.class_if(uses.iter().any(|u| *u == 0), "a parameter used 0 times");
    case.class_if(uses.iter().any(|u| *u >= 2), "a parameter used >=2 times");
    if c.brace_delim {
        let raw_last = c.params.iter().take(9).last().map(|p| p.as_ref().map(|d| !clean_delim(d).is_empty()).unwrap_or(false));
        case.class(match raw_last {
            None => "#{ without parameters",
            Some(false) => "#{ after an undelimited parameter",
            Some(true) => "#{ after a delimited parameter",
        });
    }
    let delims = || b.params.iter().flatten();
    case.class_if(delims().any(|d| d.len() >= 4), "delimiter >= 4 tokens");
    case.class_if(delims().any(|d| border(d) >= 1), "self-overlapping delimiter");
    case.class_if(delims().any(|d| border(d) >= 2), "delimiter with border >= 2");
    case.class_if(m.long_partial, "rejected partial match of >=2 delimiter tokens");
    case.class_if(m.delim_inside_group, "whole delimiter inside a group of its argument");
    let other_kinds = |t: &Tok| matches!(t, Tok::C(..) | Tok::Active(_));
    case.class_if(b.prefix.iter().chain(b.params.iter().flatten().flatten()).any(other_kinds), "active / cat 3,4,8 character in prefix or delimiter");
    // argument shapes
    case.class_if(m.empty_delimited, "empty argument for a delimited parameter");
    case.class_if(m.space_skipped_undelimited, "space skipped before an undelimited argument");
    case.class_if(m.args.iter().any(|a| max_depth(a) >= 2), "argument with group nesting >= 2");
    case.class_if(m.args.iter().any(|a| a.contains(&Tok::Hash)), "# (cat 6) inside an argument");
    case.class_if(m.args.iter().any(|a| a.iter().any(other_kinds)), "active / cat 3,4,8 character inside an argument");
}

// ------------------------------------------------------------------------------------------------------
// Fixed vectors

#[derive(Clone, Debug, Serialize, Deserialize)]
pub struct Vector {
    pub name: String,
    /// parameter text in source notation (`#` at the end = `#{`)
    pub ptext: String,
    pub repl: String,
    pub stream: String,
    /// the tokens TeX has in its input after expanding the call, in source notation (`#` = one cat-6 token)
    pub expected: String,
    pub main_loop: bool,
}

/// One character = one token, except `\c` (control symbol). No lexer state is modelled: the vectors contain
/// no adjacent blanks and no control words, so the notation is unambiguous.
fn mini_lex(s: &str) -> Vec<Tok> {
    let mut out = vec![];
    let mut it = s.chars();
    while let Some(c) = it.next() {
        out.push(match c {
            '\\' => Tok::Cs(it.next().expect("control symbol")),
            '{' => Tok::Open,
            '}' => Tok::Close,
            ' ' => Tok::Sp,
            '#' => Tok::Hash,
            '$' => Tok::C('$', 3),
            '&' => Tok::C('&', 4),
            '_' => Tok::C('_', 8),
            '~' => Tok::Active('~'),
            c if c.is_ascii_alphabetic() => Tok::L(c),
            c => Tok::O(c),
        });
    }
    out
}

fn build_vector(v: &Vector) -> Built {
    // parameter text
    let pt = mini_lex(&v.ptext);
    let mut prefix = vec![];
    let mut params: Vec<Option<Vec<Tok>>> = vec![];
    let mut brace_delim = false;
    let mut i = 0;
    while i < pt.len() {
        if pt[i] == Tok::Hash {
            if i + 1 == pt.len() {
                brace_delim = true;
            } else {
                assert!(pt[i + 1] == Tok::O(char::from_digit(params.len() as u32 + 1, 10).unwrap()), "vector {}: parameters must be numbered consecutively", v.name);
                params.push(None);
                i += 1;
            }
        } else {
            match params.last_mut() {
                None => prefix.push(pt[i]),
                Some(p) => p.get_or_insert_with(Vec::new).push(pt[i]),
            }
        }
        i += 1;
    }
    // replacement text
    let rt = mini_lex(&v.repl);
    let mut repl = vec![];
    let mut i = 0;
    while i < rt.len() {
        if rt[i] == Tok::Hash {
            match rt[i + 1] {
                Tok::Hash => repl.push(FlatRPub::T(Tok::Hash)),
                Tok::O(d) => repl.push(FlatRPub::P(d.to_digit(10).unwrap() as usize - 1)),
                _ => panic!("vector {}: bad replacement text", v.name),
            }
            i += 1;
        } else {
            repl.push(FlatRPub::T(rt[i]));
        }
        i += 1;
    }
    let stream = mini_lex(&v.stream);
    let mut text = String::new();
    if v.main_loop {
        text.push_str("\\let\\+\\vpcapture");
    }
    let (eff_prefix, eff_params, digit_after_hash) =
        definition("\\*", false, &prefix, &params, brace_delim, &repl, if v.main_loop { "\\+" } else { "" }, &mut text);
    text.push_str(if v.main_loop { "\\*" } else { "\\expandafter\\vpcapture\\*" });
    render_toks(&stream, false, &mut text);
    text.push_str("\\vpstop%");
    Built { text, prefix: eff_prefix, params: eff_params, repl, stream, stack_len: None, digit_after_hash }
}

/// (name, parameter text, replacement text, tokens after the call, expected). Control words of the sources
/// are replaced by control symbols (`\Look`→`\!`, `\x`/`\par`/`\hbox`/`\b`→`\;`), which changes no rule of
/// macro_call; a blank that the source has after a control word is therefore left out.
const VECTORS: &[(&str, &str, &str, &str, &str)] = &[
    // The TeXbook p.203: \def\cs AB#1#2C$#3\$ {#3{ab#1}#1 c##\x #2} on \cs AB {\Look}C${And\$ }{look}\$ 5
    ("texbook p203 cs", "AB#1#2C$#3\\$ ", "#3{ab#1}#1 c##\\;#2", "AB {\\!}C${And\\$ }{look}\\$ 5", "{And\\$ }{look}{ab\\!}\\! c#\\;5"),
    // The TeXbook p.203: \def\cs #1. #2\par{...} on \cs You owe \$5.00. Pay it.\par
    ("texbook p203 period-space", "#1. #2\\;", "[#1|#2]", "You owe \\$5.00. Pay it.\\;!", "[You owe \\$5.00|Pay it.]!"),
    // The TeXbook p.204: \def\a#1#{\hbox to #1} on \a3pt{x}
    ("texbook p204 #{", "#1#", "\\;to #1", "3pt{x}", "\\;to 3pt{x}"),
    // exercise 20.3 (def.rs goldens)
    ("texbook ex20.3a", "#1", "(#1_1,\\!,#1_n)", "{\\; x}", "(\\; x_1,\\!,\\; x_n)"),
    ("texbook ex20.3b", "#1", "(#1_1,\\!,#1_n)", "{{\\; x}}", "({\\; x}_1,\\!,{\\; x}_n)"),
    // exercise 20.5: \def\a#1{\def\b##1{##1#1}} on \a!
    ("texbook ex20.5", "#1", "\\;##1{##1#1}", "!z", "\\;#1{#1!}z"),
    // exercise 20.6 / def.rs parameter_brace_special_case
    ("texbook ex20.6", "#", "\\;", "{Hello}", "\\;{Hello}"),
    ("def.rs #{ alone", "#", "Mint says ", "{hello}", "Mint says {hello}"),
    // def.rs goldens
    ("def.rs prefix", "abc#1", "y#1z", "abcdefg", "ydzefg"),
    ("def.rs prefix only", " fgh", "567", " fghi", "567i"),
    ("def.rs xxx", "#1xxx", "y#1z", "abcxxx", "yabcz"),
    ("def.rs xxx empty", "#1xxx", "y#1z", "xxx", "yz"),
    ("def.rs xxx scope", "#1xxx", "#1", "abc{123xxx}xxx!", "abc{123xxx}!"),
    ("def.rs two delimited", "a#1c#2e", "x#2y#1z", "abcdef", "xdybzf"),
    ("def.rs grouped value", "#1c", "x#1y", "{Hello}c", "xHelloy"),
    ("def.rs undelimited pair", "#1#2", "#2-#1", "{abc}{xyz}", "xyz-abc"),
    ("def.rs spaces undelimited", "#1#2", "Hello-#1-#2-World", " A B C", "Hello-A-B-World C"),
    ("def.rs three uses", "#1", "#1 #1 #1", "1", "1 1 1"),
    // DESIGN A.2 / TeXbook p.203-204 rules (§392 shortest match, §393 brace stripping)
    ("aab on aaab", "#1aab", "[#1]", "aaab!", "[a]!"),
    ("aab empty", "#1aab", "[#1]", "aab!", "[]!"),
    ("abab. overlapping, also inside a group", "#1abab.", "[#1]", "ab{abab.}ababab.!", "[ab{abab.}ab]!"),
    ("two groups not stripped", "#1.", "[#1]", "{x}{y}.", "[{x}{y}]"),
    ("space then group not stripped", "#1.", "[#1]", " {x}.", "[ {x}]"),
    ("group then space not stripped", "#1.", "[#1]", "{x} .", "[{x} ]"),
    ("token then group not stripped", "#1.", "[#1]", "x{y}.", "[x{y}]"),
    ("empty group stripped", "#1.", "[#1]", "{}.", "[]"),
    ("single group stripped once", "#1.", "[#1]", "{{x}}.", "[{x}]"),
    ("delimiter inside group ignored", "#1.", "[#1]", "{a.b}c.d", "[{a.b}c]d"),
    ("undelimited skips spaces, strips group", "#1#2", "[#1|#2]", " x {y}z", "[x|y]z"),
    ("delimited keeps leading space", "#1#2.", "[#1|#2]", "x y.", "[x| y]"),
    ("#{ after delimiter", "#1.#", "[#1]", "a.b.{x}", "[a.b]{x}"),
    ("#{ after undelimited: first brace ends it", "#1#", "[#1]", " {x}", "[ ]{x}"),
    // §476 / §479: digits next to # and ##
    ("##1 and #12", "#1#2", "[#1|#2##1#12]", "xy", "[x|y#1x2]"),
    ("#11: delimiter is a digit", "#11#2", "[#1|#2]", "ab1{c}", "[ab|c]"),
    ("digit prefix", "12#1", "[#1]", "123", "[3]"),
];

fn vector_oracle(v: &Vector, case: &mut Case) -> Verdict {
    let b = build_vector(v);
    case.note = Some(b.text.clone());
    let expected = expect_out(&mini_lex(&v.expected), 1);
    case.class_if(v.main_loop, "call dispatched by the main loop");
    let model = match macro_call(&b) {
        Ok(m) => expect_out(&m.tokens, 1),
        Err(e) => return Verdict::Fail(format!("vector `{}`: the reference model rejects the call ({:?})\nprogram: {}", v.name, e, b.text)),
    };
    if model != expected {
        return Verdict::Fail(format!(
            "vector `{}`: the REFERENCE MODEL disagrees with the documented result (the model is wrong)\nprogram:  {}\nexpected: {}\nmodel:    {}",
            v.name,
            b.text,
            texvm::render(&expected),
            texvm::render(&model)
        ));
    }
    let r = texvm::run_program(&VmOptions::default(), &b.text);
    if r.error.is_none() && r.out == expected {
        return Verdict::pass(true);
    }
    Verdict::Fail(format!(
        "vector `{}`: macro expansion differs from the documented result\nprogram:  {}\nexpected: {}\ngot:      {}{}",
        v.name,
        b.text,
        texvm::render(&expected),
        texvm::render(&r.out),
        match &r.error {
            Some(e) => format!("\nerror:    {}", e),
            None => String::new(),
        }
    ))
}

pub fn run(ctx: &Ctx) {
    ctx.rule("cases = (parameter text: prefix x up to 9 parameters each undelimited or delimited by 1-7 tokens x optional #{) x replacement text over literals, #n, ##, groups x argument tuple (empty, token, group, several groups, nested, leading space, random trees) x tail x call shape; alphabet = letters, others incl. digits, space, control symbols, active ~, cat 3/4/8 characters, cat-6 # in arguments; 30% of the cases use a narrow alphabet of <=3 tokens with delimiters of up to 7 tokens (self-overlapping delimiters, near-misses inside and outside groups). Call shapes: dispatched by \\expandafter (`\\def\\*..{..}\\expandafter\\vpcapture\\*<stream>\\vpstop`) or by the main loop (`\\def\\*..{\\+..}\\*<stream>\\vpstop`, \\+ = \\vpcapture); typed directly, forwarded through \\w#1#2 (all tokens from the expansion stack), through \\w#1 (first part from the stack, rest unread source text), or through \\u/\\v with `,` lexed as letter in one part and as other character in the other; optionally called twice in the same VM; in 10% of the cases the macro is the active character ~ instead of \\*. The captured unexpanded tokens are compared with a transcription of TeX's macro_call; non-trivial = a delimited parameter binds an argument containing a group, or #{ is used, or the delimiter's first token occurs inside the argument; distinct by program text. Sub-check texbook: fixed TeXbook/def.rs vectors that both the model and the VM must reproduce");
    ctx.assume("calls on which TeX itself reports an error (prefix mismatch, no match, extra }, argument missing at the end of the generated stream) are outside the quantifier: skipped and counted; a panic on them is still a violation");
    ctx.assume("control symbols are used instead of control words so the rendered text provably re-lexes to the generated tokens; `^` is not generated because `^^` is lexer notation");
    let vectors: Vec<Vector> = VECTORS
        .iter()
        .flat_map(|(name, ptext, repl, stream, expected)| {
            [false, true].into_iter().map(move |main_loop| Vector {
                name: name.to_string(),
                ptext: ptext.to_string(),
                repl: repl.to_string(),
                stream: stream.to_string(),
                expected: expected.to_string(),
                main_loop,
            })
        })
        .collect();
    run_list(ctx, "texbook", vectors, vector_oracle);
    let n = ctx.tier.pick(150_000u64, 3_000_000u64);
    run_generated(ctx, "macro_call", n, case_strategy, oracle);
}
