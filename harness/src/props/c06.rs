//! C06 Integers, dimensions, glue: scan, print and compute exactly as TeX does.

use crate::engine::*;
use crate::engine::panics;
use crate::models::tex_arith::{self as ta, GlueVal, Unit, UnitKind};
use crate::texvm::{self, VmOptions};
use common::Scaled;
use proptest::prelude::*;
use serde::{Deserialize, Serialize};

// ------------------------------------------------------------------------------------
// (a) print / scan of scaled values, directly on common::Scaled

fn check_scaled_value(s: i64, parse_from_string_negative_known: bool) -> Result<bool, String> {
    let sc = Scaled(s as i32);
    let model = ta::print_scaled(s);
    let no_units = format!("{}", sc.display_no_units());
    if no_units != model {
        return Err(format!("display_no_units({s}) = {no_units:?}, print_scaled gives {model:?}"));
    }
    let disp = format!("{}", sc);
    if disp.len() != model.len() + 2 || !disp.starts_with(&model) || !disp.ends_with("pt") {
        return Err(format!("Display({s}) = {disp:?}, expected {model}pt"));
    }
    match Scaled::parse_no_units(&no_units) {
        Ok(v) if v == sc => {}
        other => return Err(format!("parse_no_units({no_units:?}) = {other:?}, expected Scaled({s})")),
    }
    match Scaled::parse_from_string(&disp) {
        Ok(v) if v == sc => {}
        other => {
            if !(s < 0 && parse_from_string_negative_known) {
                return Err(format!("parse_from_string({disp:?}) = {other:?}, expected Scaled({s})"));
            }
        }
    }
    // Knuth's guarantee: at most five fraction digits, scans back exactly (model-level check of
    // the reference scanner), and no shorter fraction scans back.
    let frac = model.split('.').nth(1).unwrap();
    if frac.len() > 5 {
        return Err(format!("print_scaled({s}) has {} fraction digits", frac.len()));
    }
    let digits: Vec<u8> = frac.bytes().map(|b| b - b'0').collect();
    let int_part = s.abs() / ta::UNITY;
    if int_part * ta::UNITY + ta::round_decimals(&digits) != s.abs() {
        return Err(format!("reference scanner does not invert print_scaled({s}) = {model}"));
    }
    if digits.len() >= 2 {
        // shorter candidates: truncation, and truncation + 1 in the last kept place
        let k = digits.len() - 1;
        let mut n: i64 = 0;
        for d in &digits[..k] {
            n = n * 10 + *d as i64;
        }
        for cand in [n, n + 1] {
            if cand >= 10i64.pow(k as u32) {
                continue;
            }
            let mut cd = vec![0u8; k];
            let mut c = cand;
            for i in (0..k).rev() {
                cd[i] = (c % 10) as u8;
                c /= 10;
            }
            if int_part * ta::UNITY + ta::round_decimals(&cd) == s.abs() {
                return Err(format!("print_scaled({s}) = {model} is not the shortest: .{cand:0k$} scans back too"));
            }
        }
    }
    Ok(frac.len() >= 3)
}

/// Display of values beyond max_dimen (legal register contents after a silent \advance wrap):
/// only the printed form is defined by TeX (§103); nothing scans back.
fn check_scaled_display_only(s: i64) -> Result<bool, String> {
    let sc = Scaled(s as i32);
    let model = ta::print_scaled(s);
    let no_units = format!("{}", sc.display_no_units());
    if no_units != model {
        return Err(format!("display_no_units({s}) = {no_units:?}, print_scaled gives {model:?}"));
    }
    let disp = format!("{}", sc);
    if disp != format!("{model}pt") {
        return Err(format!("Display({s}) = {disp:?}, expected {model}pt"));
    }
    Ok(true)
}

/// `<integer>[.<fraction>]<unit>` strings for `Scaled::parse_from_string`, every physical unit.
#[derive(Clone, Debug, Serialize, Deserialize)]
pub struct ScaledString {
    negative: bool,
    int: String,
    frac: Option<String>,
    unit: Unit,
}

fn scaled_string_oracle(c: &ScaledString, case: &mut Case) -> Verdict {
    let mut text = String::new();
    if c.negative {
        text.push('-');
    }
    text.push_str(&c.int);
    if let Some(f) = &c.frac {
        text.push('.');
        text.push_str(f);
    }
    text.push_str(c.unit.keyword());
    case.note = Some(text.clone());
    let (iv, big) = ta::scan_digits(&digits_of(&c.int, 10), 10);
    let fd = c.frac.as_ref().map(|f| digits_of(f, 10)).unwrap_or_default();
    let nfrac = fd.len();
    let m = ta::finish_dimen(&ta::DimenParts { negative: c.negative, int_value: iv, int_too_big: big, frac_digits: fd }, UnitKind::Unit(c.unit), 0, 0);
    case.class_if(c.unit != Unit::Pt, "non-pt unit");
    case.class_if(c.negative && c.unit != Unit::Pt, "negative non-pt");
    case.class_if(nfrac > 5, "fraction >5 digits");
    case.class_if(nfrac > 17, "fraction >17 digits");
    case.class_if(c.frac.is_none(), "no fraction");
    case.class_if(m.errors > 0, "out of range");
    let got = Scaled::parse_from_string(&text);
    match (&got, m.errors) {
        (Ok(v), 0) if v.0 as i64 == m.value => Verdict::pass(c.unit != Unit::Pt || nfrac >= 3),
        (Err(_), e) if e > 0 => Verdict::pass(true),
        _ => Verdict::Fail(format!("parse_from_string({text:?}) = {got:?}; TeX's scan_dimen (448-458) gives {} sp with {} error(s)", m.value, m.errors)),
    }
}

fn scaled_string_strategy() -> impl Strategy<Value = ScaledString> {
    (
        any::<bool>(),
        dim_int_strategy(),
        proptest::option::weighted(0.75, frac_strategy().prop_map(|(_, d)| d)),
        proptest::sample::select(vec![Unit::Pt, Unit::In, Unit::Pc, Unit::Cm, Unit::Mm, Unit::Bp, Unit::Dd, Unit::Cc, Unit::Sp]),
    )
        .prop_map(|(negative, int, frac, unit)| ScaledString { negative, int, frac, unit })
}

// ------------------------------------------------------------------------------------
// VM programs

#[derive(Clone, Debug, Serialize, Deserialize)]
pub struct Signs(pub Vec<(bool, bool)>); // (is minus, followed by a space)

impl Signs {
    fn render(&self, out: &mut String) {
        for (m, sp) in &self.0 {
            out.push(if *m { '-' } else { '+' });
            if *sp {
                out.push(' ');
            }
        }
    }
    fn negative(&self) -> bool {
        self.0.iter().filter(|x| x.0).count() % 2 == 1
    }
}

/// A run of blank tokens: bits 1-2 = how many (0..=3), bit 0 = the first one is a blank of the
/// source line (the others, and all of them otherwise, come from the macro `\s` = `\def\s{ }`,
/// because consecutive source blanks collapse into one token).
#[derive(Clone, Copy, Debug, Default, PartialEq, Eq, Serialize, Deserialize)]
pub struct Blanks(pub u8);

impl Blanks {
    fn count(self) -> u8 {
        (self.0 >> 1) % 4
    }
}

/// Spelling of the keywords and optional blanks of all following operations (a generator-side
/// pragma; `upper_other` and `alias` are real TeX: category code changes, `\countdef` alias).
/// Every position used here is one where TeX's scan_keyword (§407) / "get the next non-blank
/// non-call token" (§406) accepts any number of blank tokens and either case of each letter.
#[derive(Clone, Debug, Default, PartialEq, Eq, Serialize, Deserialize)]
#[serde(default)]
pub struct Style {
    /// per-letter upper-case masks
    pub by_mask: u8,
    pub plus_mask: u8,
    pub minus_mask: u8,
    pub true_mask: u8,
    /// bits 0-2: `f` `i` `l`; bits 3-5: the further `l`s
    pub fil_mask: u8,
    pub pre_by: Blanks,
    pub pre_plus: Blanks,
    pub pre_minus: Blanks,
    pub post_true: Blanks,
    pub pre_unit: Blanks,
    pub pre_fil: Blanks,
    pub pre_l: [Blanks; 3],
    /// blanks after a glue specification without `minus` part (eaten by scan_keyword("minus"))
    pub post_glue: Blanks,
    /// upper-case letters get category 12 (scan_keyword and hex digits do not look at categories)
    pub upper_other: bool,
    /// `\count3` is addressed through its `\countdef` alias `\cc`
    pub alias: bool,
}

#[derive(Clone, Debug, Serialize, Deserialize)]
pub enum IntSrc {
    Dec(String),
    Oct(String),
    Hex(String),
    /// `a  `A  `\a  `\%  `é  `\^^M  `\b (macro)
    Alpha(u8),
    Count(u8),
    Dimen(u8),
    Skip(u8),
    /// internal integers that are not \count registers, see `INTERNALS`
    Internal(u8),
}

/// (text, value; None = \count3 through its \countdef alias)
const INTERNALS: [(&str, Option<i64>); 5] = [("\\ca", Some(65)), ("\\cb", Some(0x7FFF)), ("\\cc", None), ("\\catcode`a", Some(11)), ("\\mathcode`a", Some(0x1234))];
const PREAMBLE: &str = "\\def\\b{c}\\def\\s{ }\\chardef\\ca=65 \\mathchardef\\cb=\"7FFF \\countdef\\cc=3 \\mathcode`a=\"1234 ";

#[derive(Clone, Debug, Serialize, Deserialize)]
pub enum UnitSpec {
    /// unit, upper-case mask (bit i = letter i upper), `true` keyword, number of spaces before
    Unit(Unit, u8, bool, u8),
    Dimen(u8),
    Skip(u8),
    Count(u8),
    /// `\ca`, `\cb`, … as the unit (an integer is taken as that many sp, §455)
    Internal(u8),
}

#[derive(Clone, Debug, Serialize, Deserialize)]
pub enum DimSrc {
    /// integer digits (decimal), optional fraction (separator is comma?, digits), units.
    /// quirk (only honoured directly in \dimenN= / \advance\dimenN, with a keyword unit):
    /// 1 = a blank before the decimal point (`1 .5pt`: the blank ends the number, §444/448, so TeX
    /// sees no unit), 2 = a blank inside the unit keyword (`1p t`, no match by §407).
    Const {
        int: Option<String>,
        frac: Option<(bool, String)>,
        unit: UnitSpec,
        #[serde(default)]
        quirk: u8,
    },
    /// octal/hex integer part, then units; `frac` (plain context only): `"10.5pt`, the point does
    /// not start a fraction after a non-decimal constant (§448 radix=10 test)
    Radix {
        hex: bool,
        digits: String,
        unit: UnitSpec,
        #[serde(default)]
        frac: Option<String>,
    },
    Dimen(u8),
    Skip(u8),
    CountUnits(u8, UnitSpec),
    InternalUnits(u8, UnitSpec),
}

#[derive(Clone, Debug, Serialize, Deserialize)]
pub enum FilCoeff {
    Count(u8),
    Oct(String),
    Hex(String),
    Internal(u8),
}

#[derive(Clone, Debug, Serialize, Deserialize)]
pub enum StretchSrc {
    Dim(Signs, DimSrc),
    /// digits, fraction, number of l's after "fi" (1..=4; 4 is one too many);
    /// `coeff` replaces digits/fraction by an internal integer or an octal/hex constant
    Fil {
        signs: Signs,
        int: Option<String>,
        frac: Option<(bool, String)>,
        ls: u8,
        #[serde(default)]
        coeff: Option<FilCoeff>,
    },
}

#[derive(Clone, Debug, Serialize, Deserialize)]
pub enum GlueSrc {
    Skip(u8),
    Parts { width: DimSrc, plus: Option<StretchSrc>, minus: Option<StretchSrc> },
}

#[derive(Clone, Copy, Debug, PartialEq, Eq, Serialize, Deserialize)]
pub enum Kind {
    Count,
    Dimen,
    Skip,
}

impl Kind {
    fn name(self) -> &'static str {
        match self {
            Kind::Count => "count",
            Kind::Dimen => "dimen",
            Kind::Skip => "skip",
        }
    }
}

#[derive(Clone, Debug, Serialize, Deserialize)]
pub enum Op {
    SetCount(u8, Signs, IntSrc),
    SetDimen(u8, Signs, DimSrc),
    SetSkip(u8, Signs, GlueSrc),
    AdvCount(u8, bool, Signs, IntSrc),
    AdvDimen(u8, bool, Signs, DimSrc),
    AdvSkip(u8, bool, Signs, GlueSrc),
    Mul(Kind, u8, bool, Signs, IntSrc),
    Div(Kind, u8, bool, Signs, IntSrc),
    /// `\<kind>J=\the\<kind>I`: print, then scan the printed tokens back through the VM scanner
    Copy(Kind, u8, u8),
    /// `\the` of an internal integer that is not a \count register
    ReadInternal(u8),
    Style(Style),
}

#[derive(Clone, Copy, Default)]
pub struct Deviations {
    /// \multiply of an integer accepts a result of -2^31 (D11)
    pub multiply_accepts_min: bool,
    /// an overflowing "internal dimension as unit" clamps to -max_dimen when the unit is negative
    pub overflow_clamp_follows_unit_sign: bool,
    /// \advance on glue takes the larger order even when that order's amount is zero
    pub glue_sum_ignores_zero: bool,
    /// `\a in an alphabetic constant is expanded when \a is a macro
    pub alpha_constant_expands: bool,
    /// blank tokens between `fil` and a further `l` (or between two such `l`s) end the unit: the
    /// order of infinity counts only the `l`s in front of them, one blank is taken as the optional
    /// space after the dimension and the remaining `l`s stay in the input
    pub fil_l_blank_ends_unit: bool,
}

const NREG: usize = 3;
/// The harness state overrides Texlang's default font quantities (12pt each) by two different
/// values that are not multiples of 2^16, so that em/ex cannot be confused and xn_over_d truncates.
const EM: i64 = 655361;
const EX: i64 = 282168;

/// The kinds of error the property's statement names.
#[derive(Clone, Copy, Debug, PartialEq, Eq, PartialOrd, Ord)]
pub enum ErrKind {
    /// "Number too big" (§445)
    TooBig,
    /// "Dimension too large" (§460)
    DimTooLarge,
    /// "Arithmetic overflow" from \multiply (§1236)
    Overflow,
    /// "Arithmetic overflow" from \divide by zero (§1236); Texlang words it differently
    DivZero,
    /// "Illegal unit of measure" (§454, 456, 459) and anything else
    Other,
}

/// Classification of a Texlang error title.
fn classify(title: &str) -> ErrKind {
    let t = title.to_ascii_lowercase();
    if t.contains("division by zero") {
        ErrKind::DivZero
    } else if t.contains("overflow") {
        ErrKind::Overflow
    } else if t.contains("dimension") && (t.contains("range") || t.contains("large")) {
        ErrKind::DimTooLarge
    } else if t.contains("number") && (t.contains("range") || t.contains("big")) {
        ErrKind::TooBig
    } else {
        ErrKind::Other
    }
}

#[derive(Clone)]
struct Regs {
    count: [i64; NREG],
    dimen: [i64; NREG],
    skip: [GlueVal; NREG],
}

/// One operation: its source text (run as one VM source), the text it must produce, its errors.
pub struct Seg {
    pub text: String,
    pub expected: String,
    pub errs: Vec<ErrKind>,
    /// TeX negates -2^31 while executing this segment: nothing is demanded of it or of later ones
    pub undefined: bool,
}

struct Model {
    regs: Regs,
    text: String,
    expected: String,
    errs: Vec<ErrKind>,
    segs: Vec<Seg>,
    dev: Deviations,
    /// a case TeX leaves undefined (negating -2^31) was reached
    undefined: bool,
    classes: Vec<&'static str>,
    style: Style,
    upper_other_on: bool,
    /// deviating model only: where in `text` the `l`s begin that Texlang leaves unread
    fil_tail: Option<usize>,
}

/// The characters a piece of source made of `l`, `L`, blanks and `\s ` is typeset as.
fn typeset_tail(src: &str) -> String {
    let mut out = String::new();
    let mut rest = src;
    while let Some(c) = rest.chars().next() {
        if let Some(r) = rest.strip_prefix("\\s") {
            out.push(' ');
            rest = r.trim_start_matches(' ');
        } else if c == ' ' {
            out.push(' ');
            rest = rest.trim_start_matches(' ');
        } else {
            out.push(c);
            rest = &rest[c.len_utf8()..];
        }
    }
    out
}

fn digits_of(s: &str, radix: u32) -> Vec<u8> {
    s.chars().map(|c| c.to_digit(radix).unwrap() as u8).collect()
}

impl Model {
    fn r(i: u8) -> usize {
        (i as usize) % NREG
    }

    /// a keyword with a per-letter upper-case mask
    fn kw(&mut self, word: &str, mask: u8) {
        let mut any = false;
        for (i, c) in word.chars().enumerate() {
            if mask & (1 << i) != 0 {
                self.text.push(c.to_ascii_uppercase());
                any = true;
            } else {
                self.text.push(c);
            }
        }
        if any {
            self.classes.push("upper-case letter in plus/minus/by/true/fil");
            if self.upper_other_on {
                self.classes.push("keyword letter of category 12");
            }
        }
    }

    fn blanks(&mut self, b: Blanks, class: &'static str) {
        let n = b.count();
        for k in 0..n {
            if k == 0 && b.0 & 1 == 1 {
                self.text.push(' ');
            } else {
                self.text.push_str("\\s ");
            }
        }
        if n > 0 {
            self.classes.push(class);
        }
    }

    fn count_name(&self, i: usize) -> String {
        if i == 2 && self.style.alias {
            "\\cc".to_string()
        } else {
            format!("\\count{}", i + 1)
        }
    }

    fn internal(&mut self, k: u8) -> i64 {
        let (t, v) = INTERNALS[(k as usize) % INTERNALS.len()];
        self.text.push_str(t);
        self.classes.push("internal integer (chardef/mathchardef/countdef/catcode/mathcode)");
        v.unwrap_or(self.regs.count[2])
    }

    fn scan_int_unsigned(&mut self, src: &IntSrc) -> i64 {
        match src {
            IntSrc::Dec(d) => {
                self.text.push_str(d);
                let (v, big) = ta::scan_digits(&digits_of(d, 10), 10);
                if big {
                    self.classes.push("int too big");
                    self.errs.push(ErrKind::TooBig);
                }
                v
            }
            IntSrc::Oct(d) => {
                self.text.push('\'');
                self.text.push_str(d);
                let (v, big) = ta::scan_digits(&digits_of(d, 8), 8);
                if big {
                    self.errs.push(ErrKind::TooBig);
                }
                v
            }
            IntSrc::Hex(d) => {
                self.text.push('"');
                self.text.push_str(d);
                if self.upper_other_on && d.bytes().any(|b| b.is_ascii_uppercase()) {
                    self.classes.push("hex digit A-F of category 12");
                }
                let (v, big) = ta::scan_digits(&digits_of(d, 16), 16);
                if big {
                    self.errs.push(ErrKind::TooBig);
                }
                v
            }
            IntSrc::Alpha(k) => {
                let (t, v) = match k % 7 {
                    0 => ("`a", 97),
                    1 => ("`A", 65),
                    2 => ("`\\a", 97),
                    3 => ("`\\%", 37),
                    4 => ("`é", 233),
                    5 => ("`\\^^M", 13),
                    // \b is a macro (\def\b{c} in the preamble); TeX does not expand it here
                    _ => ("`\\b", if self.dev.alpha_constant_expands { 99 } else { 98 }),
                };
                self.text.push_str(t);
                self.classes.push("alpha constant");
                v
            }
            IntSrc::Count(j) => {
                self.text.push_str(&format!("\\count{}", Self::r(*j) + 1));
                self.regs.count[Self::r(*j)]
            }
            IntSrc::Dimen(j) => {
                self.text.push_str(&format!("\\dimen{}", Self::r(*j) + 1));
                self.classes.push("coercion");
                self.regs.dimen[Self::r(*j)]
            }
            IntSrc::Skip(j) => {
                self.text.push_str(&format!("\\skip{}", Self::r(*j) + 1));
                self.classes.push("coercion");
                self.regs.skip[Self::r(*j)].width
            }
            IntSrc::Internal(k) => self.internal(*k),
        }
    }

    /// §440 scan_int
    fn scan_int(&mut self, signs: &Signs, src: &IntSrc) -> i64 {
        signs.render(&mut self.text);
        let v = self.scan_int_unsigned(src);
        self.text.push_str("\\relax ");
        if signs.negative() {
            ta::wrap32(-v)
        } else {
            v
        }
    }

    fn unit_letters(&mut self, unit: Unit, mask: u8, split: bool) {
        for (i, c) in unit.keyword().chars().enumerate() {
            if split && i == 1 {
                self.text.push(' ');
            }
            if mask & (1 << i) != 0 {
                self.text.push(c.to_ascii_uppercase());
                if self.upper_other_on {
                    self.classes.push("keyword letter of category 12");
                }
            } else {
                self.text.push(c);
            }
        }
    }

    fn render_unit(&mut self, u: &UnitSpec) -> UnitKind {
        let pre = self.style.pre_unit;
        match u {
            UnitSpec::Unit(unit, mask, true_kw, spaces) => {
                for _ in 0..(*spaces % 3) {
                    self.text.push(' ');
                }
                self.blanks(pre, "blank tokens before a unit");
                let is_font_unit = matches!(unit, Unit::Em | Unit::Ex);
                if *true_kw && !is_font_unit {
                    let m = self.style.true_mask;
                    self.kw("true", m);
                    self.classes.push("true keyword");
                    let b = self.style.post_true;
                    self.blanks(b, "blank between true and unit");
                }
                self.unit_letters(*unit, *mask, false);
                UnitKind::Unit(*unit)
            }
            UnitSpec::Dimen(j) => {
                self.blanks(pre, "blank tokens before an internal unit");
                self.text.push_str(&format!("\\dimen{}", Self::r(*j) + 1));
                self.classes.push("internal unit");
                UnitKind::Internal(self.regs.dimen[Self::r(*j)])
            }
            UnitSpec::Skip(j) => {
                self.blanks(pre, "blank tokens before an internal unit");
                self.text.push_str(&format!("\\skip{}", Self::r(*j) + 1));
                self.classes.push("internal unit");
                UnitKind::Internal(self.regs.skip[Self::r(*j)].width)
            }
            UnitSpec::Count(j) => {
                self.blanks(pre, "blank tokens before an internal unit");
                self.text.push_str(&format!("\\count{}", Self::r(*j) + 1));
                self.classes.push("internal unit");
                UnitKind::Internal(self.regs.count[Self::r(*j)])
            }
            UnitSpec::Internal(k) => {
                self.blanks(pre, "blank tokens before an internal unit");
                let v = self.internal(*k);
                self.classes.push("internal unit");
                UnitKind::Internal(v)
            }
        }
    }

    fn finish(&mut self, parts: ta::DimenParts, unit: UnitKind) -> i64 {
        let mut s = ta::finish_dimen(&parts, unit, EM, EX);
        if self.dev.overflow_clamp_follows_unit_sign && s.errors > parts.int_too_big as u32 {
            if let UnitKind::Internal(v) = unit {
                if v < 0 {
                    s.value = -s.value;
                }
            }
        }
        if parts.int_too_big {
            self.errs.push(ErrKind::TooBig);
        }
        if s.errors > parts.int_too_big as u32 {
            self.errs.push(ErrKind::DimTooLarge);
        }
        if s.errors > 0 {
            self.classes.push("dimension error/clamp");
        }
        if let UnitKind::Unit(u @ (Unit::Em | Unit::Ex)) = unit {
            self.classes.push(if u == Unit::Em { "unit em" } else { "unit ex" });
        }
        s.value
    }

    /// "Illegal unit of measure (pt inserted)" §459: the number is taken in points and what
    /// follows stays in the input, i.e. is typeset.
    fn illegal_unit(&mut self, parts: ta::DimenParts, leftover: &str) -> i64 {
        self.errs.push(ErrKind::Other);
        self.expected.push_str(leftover);
        self.finish(parts, UnitKind::Unit(Unit::Pt))
    }

    /// §448 scan_dimen. `plain`: the dimension is the whole right-hand side of \dimenN= or
    /// \advance\dimenN (what TeX leaves unread is typeset before the following \relax).
    fn scan_dimen(&mut self, signs: &Signs, src: &DimSrc, plain: bool) -> i64 {
        signs.render(&mut self.text);
        let mut negative = signs.negative();
        let r = match src {
            DimSrc::Const { int, frac, unit, quirk } => {
                let (int, frac) = if int.is_none() && frac.is_none() { (Some("0".to_string()), None) } else { (int.clone(), frac.clone()) };
                let keyword_unit = match unit {
                    UnitSpec::Unit(u, m, t, _) => Some((*u, *m, *t && !matches!(u, Unit::Em | Unit::Ex))),
                    _ => None,
                };
                let quirk = if plain && keyword_unit.is_some() { *quirk % 3 } else { 0 };
                let (iv, big) = match &int {
                    Some(d) => {
                        self.text.push_str(d);
                        ta::scan_digits(&digits_of(d, 10), 10)
                    }
                    None => (0, false),
                };
                if quirk == 1 && int.is_some() && frac.is_some() {
                    // `1 .5pt`: scan_int takes the blank (§444), cur_tok is then not the point, no
                    // fraction is scanned (§448) and `.5pt` is no unit (§459).
                    let (u, m, t) = keyword_unit.unwrap();
                    let (comma, d) = frac.clone().unwrap();
                    let start = self.text.len() + 1;
                    self.text.push(' ');
                    self.text.push(if comma { ',' } else { '.' });
                    self.text.push_str(&d);
                    if t {
                        self.text.push_str("true");
                    }
                    self.unit_letters(u, m, false);
                    let leftover = self.text[start..].to_string();
                    self.classes.push("blank before the decimal point (no fraction, illegal unit)");
                    self.illegal_unit(ta::DimenParts { negative, int_value: iv, int_too_big: big, frac_digits: vec![] }, &leftover)
                } else {
                    let fd = match &frac {
                        Some((comma, d)) => {
                            self.text.push(if *comma { ',' } else { '.' });
                            self.text.push_str(d);
                            if d.len() >= 3 {
                                self.classes.push("fraction>=3 digits");
                            }
                            digits_of(d, 10)
                        }
                        None => vec![],
                    };
                    let parts = ta::DimenParts { negative, int_value: iv, int_too_big: big, frac_digits: fd };
                    if quirk == 2 {
                        // `1p t`: scan_keyword fails at the blank and restores `p` (§407)
                        let (u, m, _) = keyword_unit.unwrap();
                        let start = self.text.len();
                        self.unit_letters(u, m, true);
                        let leftover = self.text[start..].to_string();
                        self.classes.push("blank inside a unit keyword (illegal unit)");
                        self.illegal_unit(parts, &leftover)
                    } else {
                        let uk = self.render_unit(unit);
                        self.finish(parts, uk)
                    }
                }
            }
            DimSrc::Radix { hex, digits, unit, frac } => {
                self.text.push(if *hex { '"' } else { '\'' });
                self.text.push_str(digits);
                let radix = if *hex { 16 } else { 8 };
                let (iv, big) = ta::scan_digits(&digits_of(digits, radix as u32), radix);
                let parts = ta::DimenParts { negative, int_value: iv, int_too_big: big, frac_digits: vec![] };
                match (frac, unit) {
                    (Some(f), UnitSpec::Unit(u, m, _, _)) if plain => {
                        // `"10.5pt`: no fraction after a non-decimal constant (§448), `.5pt` is no unit
                        let start = self.text.len();
                        self.text.push('.');
                        self.text.push_str(f);
                        self.unit_letters(*u, *m, false);
                        let leftover = self.text[start..].to_string();
                        self.classes.push("point after an octal/hex constant (illegal unit)");
                        self.illegal_unit(parts, &leftover)
                    }
                    _ => {
                        // a following space is needed so that e.g. "1Fdd is not read as hex digits FDD
                        self.text.push(' ');
                        let uk = self.render_unit(unit);
                        self.finish(parts, uk)
                    }
                }
            }
            DimSrc::Dimen(j) => {
                self.text.push_str(&format!("\\dimen{}", Self::r(*j) + 1));
                let v = self.regs.dimen[Self::r(*j)];
                self.attach_sign(v, negative)
            }
            DimSrc::Skip(j) => {
                self.text.push_str(&format!("\\skip{}", Self::r(*j) + 1));
                self.classes.push("coercion");
                let v = self.regs.skip[Self::r(*j)].width;
                self.attach_sign(v, negative)
            }
            DimSrc::CountUnits(..) | DimSrc::InternalUnits(..) => {
                let (mut v, unit) = match src {
                    DimSrc::CountUnits(j, unit) => {
                        self.text.push_str(&format!("\\count{}", Self::r(*j) + 1));
                        (self.regs.count[Self::r(*j)], unit)
                    }
                    DimSrc::InternalUnits(k, unit) => (self.internal(*k), unit),
                    _ => unreachable!(),
                };
                self.classes.push("coercion");
                if v < 0 {
                    negative = !negative;
                    if v == i32::MIN as i64 {
                        self.undefined = true;
                    }
                    v = -v;
                }
                // the register number / control word is terminated by a space when a keyword follows
                self.text.push(' ');
                let uk = self.render_unit(unit);
                self.finish(ta::DimenParts { negative, int_value: v, int_too_big: false, frac_digits: vec![] }, uk)
            }
        };
        self.text.push_str("\\relax ");
        r
    }

    /// attach_sign for an internal dimension used directly (§448: goto attach_sign)
    fn attach_sign(&mut self, v: i64, negative: bool) -> i64 {
        let mut cur_val = v;
        if cur_val.abs() >= 0o10000000000 {
            self.errs.push(ErrKind::DimTooLarge);
            cur_val = ta::MAX_DIMEN;
            self.classes.push("dimension error/clamp");
        }
        if negative {
            cur_val = -cur_val;
        }
        cur_val
    }

    /// `last`: nothing but `\relax` follows this part of the glue specification
    fn scan_stretch(&mut self, s: &StretchSrc, last: bool) -> (i64, u8) {
        match s {
            StretchSrc::Dim(signs, d) => (self.scan_dimen_inner(signs, d), 0),
            StretchSrc::Fil { signs, int, frac, ls, coeff } => {
                signs.render(&mut self.text);
                let mut negative = signs.negative();
                let parts = match coeff {
                    None => {
                        let (int, frac) = if int.is_none() && frac.is_none() { (Some("1".to_string()), None) } else { (int.clone(), frac.clone()) };
                        let (iv, big) = match &int {
                            Some(d) => {
                                self.text.push_str(d);
                                ta::scan_digits(&digits_of(d, 10), 10)
                            }
                            None => (0, false),
                        };
                        let fd = match &frac {
                            Some((comma, d)) => {
                                self.text.push(if *comma { ',' } else { '.' });
                                self.text.push_str(d);
                                digits_of(d, 10)
                            }
                            None => vec![],
                        };
                        ta::DimenParts { negative, int_value: iv, int_too_big: big, frac_digits: fd }
                    }
                    Some(c) => {
                        self.classes.push("fil after an internal/octal/hex coefficient");
                        let (mut v, big) = match c {
                            FilCoeff::Count(j) => {
                                self.text.push_str(&format!("\\count{}", Self::r(*j) + 1));
                                (self.regs.count[Self::r(*j)], false)
                            }
                            FilCoeff::Internal(k) => (self.internal(*k), false),
                            FilCoeff::Oct(d) => {
                                self.text.push('\'');
                                self.text.push_str(d);
                                ta::scan_digits(&digits_of(d, 8), 8)
                            }
                            FilCoeff::Hex(d) => {
                                self.text.push('"');
                                self.text.push_str(d);
                                ta::scan_digits(&digits_of(d, 16), 16)
                            }
                        };
                        if v < 0 {
                            negative = !negative;
                            if v == i32::MIN as i64 {
                                self.undefined = true;
                            }
                            v = -v;
                        }
                        self.text.push(' ');
                        ta::DimenParts { negative, int_value: v, int_too_big: big, frac_digits: vec![] }
                    }
                };
                let ls = (*ls % 4) + 1; // 1..=4
                let st = self.style.clone();
                self.blanks(st.pre_fil, "blank tokens before fil");
                self.kw("fil", st.fil_mask & 7);
                // number of l's Texlang takes (listed deviation): those in front of the first blank
                let mut taken = ls;
                for k in 1..ls {
                    // only in the last part of a specification: what the listed deviation
                    // fil_l_blank_ends_unit leaves unread is then typeset, nothing else changes
                    if last {
                        let b = st.pre_l[(k - 1) as usize];
                        if b.count() > 0 && taken == ls {
                            taken = k;
                            if self.dev.fil_l_blank_ends_unit {
                                self.fil_tail = Some(self.text.len());
                            }
                        }
                        self.blanks(b, "blank before an l of fil l l");
                    }
                    let upper = st.fil_mask & (1 << (2 + k)) != 0;
                    self.text.push(if upper { 'L' } else { 'l' });
                    if upper {
                        self.classes.push("upper-case letter in plus/minus/by/true/fil");
                    }
                }
                self.classes.push("infinite glue");
                let v = self.finish(parts, UnitKind::Fil);
                let ls = if self.dev.fil_l_blank_ends_unit { taken } else { ls };
                let mut order = ls;
                if ls == 4 {
                    // "Illegal unit of measure (replaced by filll)"
                    self.errs.push(ErrKind::Other);
                    order = 3;
                }
                (v, order)
            }
        }
    }

    /// scan_dimen without the trailing \relax (inside glue specifications the keyword scan follows)
    fn scan_dimen_inner(&mut self, signs: &Signs, d: &DimSrc) -> i64 {
        let r = self.scan_dimen(signs, d, false);
        // remove the "\relax " that scan_dimen appended, keep a space as separator
        assert!(self.text.ends_with("\\relax "));
        let n = self.text.len();
        self.text.truncate(n - 7);
        self.text.push(' ');
        r
    }

    /// §461 scan_glue
    fn scan_glue(&mut self, signs: &Signs, src: &GlueSrc) -> GlueVal {
        match src {
            GlueSrc::Skip(j) => {
                signs.render(&mut self.text);
                self.text.push_str(&format!("\\skip{}\\relax ", Self::r(*j) + 1));
                let g = self.regs.skip[Self::r(*j)];
                if signs.negative() {
                    GlueVal { width: ta::wrap32(-g.width), stretch: ta::wrap32(-g.stretch), shrink: ta::wrap32(-g.shrink), ..g }
                } else {
                    g
                }
            }
            GlueSrc::Parts { width: DimSrc::Skip(j), .. } => {
                // an internal glue as the first quantity IS the whole glue (TeX 461 returns at once)
                self.scan_glue(signs, &GlueSrc::Skip(*j))
            }
            GlueSrc::Parts { width, plus, minus } => {
                let w = if let DimSrc::Dimen(j) = width {
                    // internal dimension as the width: taken as is, no range check (TeX 461)
                    signs.render(&mut self.text);
                    self.text.push_str(&format!("\\dimen{} ", Self::r(*j) + 1));
                    let v = self.regs.dimen[Self::r(*j)];
                    if signs.negative() {
                        ta::wrap32(-v)
                    } else {
                        v
                    }
                } else {
                    self.scan_dimen_inner(signs, width)
                };
                let mut g = GlueVal { width: w, ..GlueVal::ZERO };
                let st = self.style.clone();
                if let Some(p) = plus {
                    self.blanks(st.pre_plus, "blank tokens before plus/minus/by");
                    self.kw("plus", st.plus_mask);
                    self.text.push(' ');
                    let (s, o) = self.scan_stretch(p, minus.is_none());
                    if !self.text.ends_with(' ') {
                        self.text.push(' ');
                    }
                    g.stretch = s;
                    g.stretch_order = o;
                }
                if let Some(m) = minus {
                    self.blanks(st.pre_minus, "blank tokens before plus/minus/by");
                    self.kw("minus", st.minus_mask);
                    self.text.push(' ');
                    let (s, o) = self.scan_stretch(m, true);
                    if !self.text.ends_with(' ') {
                        self.text.push(' ');
                    }
                    g.shrink = s;
                    g.shrink_order = o;
                    if let Some(pos) = self.fil_tail.take() {
                        // deviating model: one blank is the optional space of the dimension, the rest is typeset
                        let t = typeset_tail(&self.text[pos..]);
                        self.expected.push_str(t.strip_prefix(' ').unwrap_or(&t));
                    }
                } else {
                    // scan_keyword("minus") drops every blank it meets, also when it fails (§407)
                    self.blanks(st.post_glue, "blank tokens after a glue without minus (all eaten)");
                    if let Some(pos) = self.fil_tail.take() {
                        // deviating model: the blanks are dropped by the scan for `minus`, the rest is typeset
                        let t = typeset_tail(&self.text[pos..]);
                        self.expected.push_str(t.trim_start_matches(' '));
                    }
                }
                self.text.push_str("\\relax ");
                g
            }
        }
    }

    fn reg_name(&self, kind: Kind, i: usize) -> String {
        match kind {
            Kind::Count => self.count_name(i),
            _ => format!("\\{}{}", kind.name(), i + 1),
        }
    }

    fn read(&mut self, kind: Kind, i: usize) {
        let name = self.reg_name(kind, i);
        self.text.push_str(&format!("\\the{};", name));
        match kind {
            Kind::Count => self.expected.push_str(&format!("{};", self.regs.count[i])),
            Kind::Dimen => self.expected.push_str(&format!("{}pt;", ta::print_scaled(self.regs.dimen[i]))),
            Kind::Skip => self.expected.push_str(&format!("{};", ta::print_spec(&self.regs.skip[i]))),
        }
    }

    fn by(&mut self, by: bool) {
        if by {
            let st = self.style.clone();
            self.blanks(st.pre_by, "blank tokens before plus/minus/by");
            self.kw("by", st.by_mask);
            self.text.push(' ');
        }
    }

    /// target of an assignment or arithmetic command; a control word needs no delimiter, a
    /// register number is ended by `=` or a blank
    fn target(&mut self, prefix: &str, kind: Kind, i: usize, assign: bool) {
        let name = self.reg_name(kind, i);
        if kind == Kind::Count && i == 2 && self.style.alias {
            self.classes.push("countdef alias as target");
        }
        self.text.push_str(prefix);
        self.text.push_str(&name);
        self.text.push(if assign { '=' } else { ' ' });
    }

    fn flush(&mut self) {
        let mut text = std::mem::take(&mut self.text);
        text.push('%');
        self.segs.push(Seg { text, expected: std::mem::take(&mut self.expected), errs: std::mem::take(&mut self.errs), undefined: self.undefined });
    }

    fn op(&mut self, op: &Op) {
        match op {
            Op::Style(st) => {
                if st.upper_other != self.upper_other_on {
                    let cat = if st.upper_other { 12 } else { 11 };
                    for c in 'A'..='Z' {
                        self.text.push_str(&format!("\\catcode`{}={} ", c, cat));
                    }
                    self.upper_other_on = st.upper_other;
                }
                self.style = st.clone();
                // no output of its own: stays in front of the next operation's segment
                return;
            }
            Op::ReadInternal(k) => {
                self.text.push_str("\\the");
                let v = self.internal(*k);
                self.text.push(';');
                self.expected.push_str(&format!("{};", v));
                self.classes.push("\\the of a non-register internal integer");
            }
            Op::Copy(kind, i, j) => {
                let (i, j) = (Self::r(*i), Self::r(*j));
                self.target("", *kind, j, true);
                let src = self.reg_name(*kind, i);
                self.text.push_str(&format!("\\the{}\\relax ", src));
                match kind {
                    Kind::Count => {
                        let (v, big) = ta::rescan_printed_int(self.regs.count[i]);
                        if big {
                            self.errs.push(ErrKind::TooBig);
                            self.classes.push("rescan: printed value beyond the limits");
                        }
                        self.regs.count[j] = v;
                        self.classes.push("print-then-rescan count");
                    }
                    Kind::Dimen => {
                        let s = ta::rescan_printed_dimen(self.regs.dimen[i], false);
                        if s.errors > 0 {
                            self.errs.push(ErrKind::DimTooLarge);
                            self.classes.push("rescan: printed value beyond the limits");
                        }
                        self.regs.dimen[j] = s.value;
                        self.classes.push("print-then-rescan dimen");
                    }
                    Kind::Skip => {
                        let g = self.regs.skip[i];
                        let mut out = GlueVal::ZERO;
                        let w = ta::rescan_printed_dimen(g.width, false);
                        out.width = w.value;
                        let mut errors = w.errors;
                        // print_spec (§178) omits zero components, so their order is not printed either
                        if g.stretch != 0 {
                            let s = ta::rescan_printed_dimen(g.stretch, g.stretch_order > 0);
                            out.stretch = s.value;
                            out.stretch_order = g.stretch_order;
                            errors += s.errors;
                        }
                        if g.shrink != 0 {
                            let s = ta::rescan_printed_dimen(g.shrink, g.shrink_order > 0);
                            out.shrink = s.value;
                            out.shrink_order = g.shrink_order;
                            errors += s.errors;
                        }
                        for _ in 0..errors {
                            self.errs.push(ErrKind::DimTooLarge);
                        }
                        if errors > 0 {
                            self.classes.push("rescan: printed value beyond the limits");
                        }
                        if g.stretch_order > 0 && g.stretch != 0 || g.shrink_order > 0 && g.shrink != 0 {
                            self.classes.push("print-then-rescan glue with fil");
                        }
                        self.regs.skip[j] = out;
                        self.classes.push("print-then-rescan skip");
                    }
                }
                self.read(*kind, j);
            }
            Op::SetCount(i, signs, src) => {
                let i = Self::r(*i);
                self.target("", Kind::Count, i, true);
                self.regs.count[i] = self.scan_int(signs, src);
                self.read(Kind::Count, i);
            }
            Op::SetDimen(i, signs, src) => {
                let i = Self::r(*i);
                self.text.push_str(&format!("\\dimen{}=", i + 1));
                self.regs.dimen[i] = self.scan_dimen(signs, src, true);
                self.read(Kind::Dimen, i);
            }
            Op::SetSkip(i, signs, src) => {
                let i = Self::r(*i);
                self.text.push_str(&format!("\\skip{}=", i + 1));
                self.regs.skip[i] = self.scan_glue(signs, src);
                self.read(Kind::Skip, i);
            }
            Op::AdvCount(i, by, signs, src) => {
                let i = Self::r(*i);
                self.target("\\advance", Kind::Count, i, false);
                self.by(*by);
                let v = self.scan_int(signs, src);
                let sum = self.regs.count[i] + v;
                if sum != ta::wrap32(sum) {
                    self.classes.push("advance wraps");
                }
                self.regs.count[i] = ta::wrap32(sum);
                self.read(Kind::Count, i);
            }
            Op::AdvDimen(i, by, signs, src) => {
                let i = Self::r(*i);
                self.text.push_str(&format!("\\advance\\dimen{} ", i + 1));
                self.by(*by);
                let v = self.scan_dimen(signs, src, true);
                let sum = self.regs.dimen[i] + v;
                if sum != ta::wrap32(sum) {
                    self.classes.push("advance wraps");
                }
                self.regs.dimen[i] = ta::wrap32(sum);
                self.read(Kind::Dimen, i);
            }
            Op::AdvSkip(i, by, signs, src) => {
                let i = Self::r(*i);
                self.text.push_str(&format!("\\advance\\skip{} ", i + 1));
                self.by(*by);
                let g = self.scan_glue(signs, src);
                let old = self.regs.skip[i];
                let new = if self.dev.glue_sum_ignores_zero { dev_glue_sum(&g, &old) } else { ta::glue_sum(&g, &old) };
                let wraps = |a: i64, b: i64, r: i64| a + b != ta::wrap32(a + b) && r == ta::wrap32(a + b);
                if wraps(g.width, old.width, new.width) || wraps(g.stretch, old.stretch, new.stretch) || wraps(g.shrink, old.shrink, new.shrink) {
                    self.classes.push("advance wraps");
                }
                self.regs.skip[i] = new;
                self.read(Kind::Skip, i);
            }
            Op::Mul(kind, i, by, signs, src) => {
                let i = Self::r(*i);
                self.target("\\multiply", *kind, i, false);
                self.by(*by);
                let n = self.scan_int(signs, src);
                let min = i32::MIN as i64;
                match kind {
                    Kind::Count => {
                        let x = self.regs.count[i];
                        if n == min || x == min {
                            self.undefined = true;
                        }
                        match ta::mult_integers(x, n) {
                            Some(v) => self.regs.count[i] = v,
                            None => {
                                if self.dev.multiply_accepts_min && (x as i128 * n as i128) == min as i128 {
                                    self.regs.count[i] = min;
                                } else {
                                    self.errs.push(ErrKind::Overflow);
                                    self.classes.push("arithmetic overflow");
                                }
                            }
                        }
                    }
                    Kind::Dimen => {
                        let x = self.regs.dimen[i];
                        if n == min || x == min {
                            self.undefined = true;
                        }
                        match ta::nx_plus_y(x, n, 0) {
                            Some(v) => self.regs.dimen[i] = v,
                            None => {
                                self.errs.push(ErrKind::Overflow);
                                self.classes.push("arithmetic overflow");
                            }
                        }
                    }
                    Kind::Skip => {
                        let g = self.regs.skip[i];
                        if n == min || g.width == min || g.stretch == min || g.shrink == min {
                            self.undefined = true;
                        }
                        let w = ta::nx_plus_y(g.width, n, 0);
                        let st = ta::nx_plus_y(g.stretch, n, 0);
                        let sh = ta::nx_plus_y(g.shrink, n, 0);
                        match (w, st, sh) {
                            (Some(w), Some(st), Some(sh)) => self.regs.skip[i] = GlueVal { width: w, stretch: st, shrink: sh, ..g },
                            _ => {
                                self.errs.push(ErrKind::Overflow);
                                self.classes.push("arithmetic overflow");
                                if [w, st, sh].iter().any(|c| c.is_some_and(|v| v != 0)) {
                                    self.classes.push("glue overflow in one component only (nothing may change)");
                                }
                            }
                        }
                    }
                }
                self.read(*kind, i);
            }
            Op::Div(kind, i, by, signs, src) => {
                let i = Self::r(*i);
                self.target("\\divide", *kind, i, false);
                self.by(*by);
                let n = self.scan_int(signs, src);
                let min = i32::MIN as i64;
                if n == 0 {
                    self.errs.push(ErrKind::DivZero);
                    self.classes.push("division by zero");
                } else {
                    let mut inexact = false;
                    let mut div = |x: i64| {
                        let (q, r) = ta::x_over_n(x, n).unwrap();
                        if r != 0 && ((x < 0) != (n < 0)) {
                            inexact = true;
                        }
                        q
                    };
                    match kind {
                        Kind::Count => {
                            let x = self.regs.count[i];
                            if n == min || x == min {
                                self.undefined = true;
                            }
                            self.regs.count[i] = div(x);
                        }
                        Kind::Dimen => {
                            let x = self.regs.dimen[i];
                            if n == min || x == min {
                                self.undefined = true;
                            }
                            self.regs.dimen[i] = div(x);
                        }
                        Kind::Skip => {
                            let g = self.regs.skip[i];
                            if n == min || g.width == min || g.stretch == min || g.shrink == min {
                                self.undefined = true;
                            }
                            self.regs.skip[i] = GlueVal { width: div(g.width), stretch: div(g.stretch), shrink: div(g.shrink), ..g };
                        }
                    }
                    if inexact {
                        self.classes.push("inexact division with negative quotient (truncation toward zero)");
                    }
                }
                self.read(*kind, i);
            }
        }
        self.flush();
    }
}

/// the implementation's glue sum (listed deviation): larger order wins even with zero amount
fn dev_glue_sum(inc: &GlueVal, old: &GlueVal) -> GlueVal {
    let pick = |a: i64, ao: u8, b: i64, bo: u8| -> (i64, u8) {
        // a = old (lhs), b = increment
        if ao < bo {
            (b, bo)
        } else if ao == bo {
            (ta::wrap32(a + b), ao)
        } else {
            (a, ao)
        }
    };
    let (st, so) = pick(old.stretch, old.stretch_order, inc.stretch, inc.stretch_order);
    let (sh, sho) = pick(old.shrink, old.shrink_order, inc.shrink, inc.shrink_order);
    GlueVal { width: ta::wrap32(old.width + inc.width), stretch: st, stretch_order: so, shrink: sh, shrink_order: sho }
}

pub struct Built {
    /// one segment per operation; the first one starts with the preamble
    pub segs: Vec<Seg>,
    pub undefined: bool,
    pub classes: Vec<&'static str>,
}

impl Built {
    /// the program as a file: one line per operation (every line ends with `%`)
    pub fn text(&self) -> String {
        self.segs.iter().map(|s| s.text.as_str()).collect::<Vec<_>>().join("\n")
    }
}

pub fn build(ops: &[Op], dev: Deviations) -> Built {
    let mut m = Model {
        regs: Regs { count: [0; NREG], dimen: [0; NREG], skip: [GlueVal::ZERO; NREG] },
        text: String::from(PREAMBLE),
        expected: String::new(),
        errs: vec![],
        segs: vec![],
        dev,
        undefined: false,
        classes: vec![],
        style: Style::default(),
        upper_other_on: false,
        fil_tail: None,
    };
    for op in ops {
        if m.undefined {
            break;
        }
        m.op(op);
    }
    if !m.text.is_empty() {
        m.flush();
    }
    Built { segs: m.segs, undefined: m.undefined, classes: m.classes }
}

// ---- strategies

/// Weighted choice between strategies. Unlike `prop_oneof!` it does not prepare the arms in front
/// of the chosen one for shrinking (a forked runner and RNG for each of them, at every level of
/// nesting: that was most of the cost of generating a case); shrinking stays inside the chosen arm.
struct Pick<T: std::fmt::Debug>(Vec<(u32, BoxedStrategy<T>)>);

impl<T: std::fmt::Debug> std::fmt::Debug for Pick<T> {
    fn fmt(&self, f: &mut std::fmt::Formatter<'_>) -> std::fmt::Result {
        write!(f, "Pick({} arms)", self.0.len())
    }
}

impl<T: std::fmt::Debug + 'static> Strategy for Pick<T> {
    type Tree = Box<dyn proptest::strategy::ValueTree<Value = T>>;
    type Value = T;
    fn new_tree(&self, runner: &mut proptest::test_runner::TestRunner) -> proptest::strategy::NewTree<Self> {
        let total: u32 = self.0.iter().map(|a| a.0).sum();
        let mut r = runner.rng().next_u32() % total;
        for (w, s) in &self.0 {
            if r < *w {
                return s.new_tree(runner);
            }
            r -= *w;
        }
        unreachable!()
    }
}

macro_rules! pick {
    ($($w:expr => $s:expr),+ $(,)?) => { Pick(vec![$(($w, $s.boxed())),+]) };
}

/// a regex strategy compiled once (a `&str` used as a strategy is re-parsed for every case)
fn re(pattern: &str) -> proptest::string::RegexGeneratorStrategy<String> {
    proptest::string::string_regex(pattern).unwrap()
}

fn signs_strategy() -> impl Strategy<Value = Signs> {
    pick![
        5 => Just(Signs(vec![])),
        3 => Just(Signs(vec![(true, false)])),
        2 => proptest::collection::vec((any::<bool>(), proptest::bool::weighted(0.3)), 1..4).prop_map(Signs),
    ]
}

fn edge_ints() -> Vec<i64> {
    let mut v = vec![0i64, 1, 2, 3, 7, 10, 255, 256, 1000];
    for k in [14u32, 15, 16, 29, 30, 31, 32] {
        for d in [-2i64, -1, 0, 1, 2] {
            let x = (1i64 << k) + d;
            if x >= 0 {
                v.push(x);
            }
        }
    }
    v.push(214748364);
    v.push(2147483647);
    v.push(2147483648);
    v.push(21474836470);
    v.push(99999999999);
    v
}

fn int_value_strategy() -> impl Strategy<Value = i64> {
    let e = edge_ints();
    pick![
        4 => proptest::sample::select(e),
        3 => 0i64..70000,
        2 => 0i64..(1i64 << 33),
    ]
}

fn int_src_strategy() -> impl Strategy<Value = IntSrc> {
    pick![
        6 => (int_value_strategy(), 0usize..3).prop_map(|(v, z)| IntSrc::Dec(format!("{}{}", "0".repeat(z), v))),
        1 => int_value_strategy().prop_map(|v| IntSrc::Oct(format!("{:o}", v))),
        1 => int_value_strategy().prop_map(|v| IntSrc::Hex(format!("{:X}", v))),
        1 => (0u8..7).prop_map(IntSrc::Alpha),
        3 => (0u8..3).prop_map(IntSrc::Count),
        1 => (0u8..3).prop_map(IntSrc::Dimen),
        1 => (0u8..3).prop_map(IntSrc::Skip),
        1 => (0u8..5).prop_map(IntSrc::Internal),
    ]
}

/// multipliers and divisors
fn small_int_src_strategy() -> impl Strategy<Value = IntSrc> {
    pick![
        5 => (0i64..12).prop_map(|v| IntSrc::Dec(format!("{}", v))),
        4 => proptest::sample::select(vec![0i64, 1, 2, 3, 7, 1000, 16383, 16384, 32767, 32768, 32769, 65535, 65536, 65537, (1 << 29) + 1, (1 << 30) - 1, 1 << 30, (1 << 30) + 1, 2147483646, 2147483647]).prop_map(|v| IntSrc::Dec(format!("{}", v))),
        2 => (0u8..3).prop_map(IntSrc::Count),
        1 => (0u8..5).prop_map(IntSrc::Internal),
    ]
}

fn unit_strategy() -> impl Strategy<Value = Unit> {
    proptest::sample::select(vec![Unit::Pt, Unit::In, Unit::Pc, Unit::Cm, Unit::Mm, Unit::Bp, Unit::Dd, Unit::Cc, Unit::Sp, Unit::Em, Unit::Ex])
}

fn unit_spec_strategy() -> impl Strategy<Value = UnitSpec> {
    pick![
        20 => (unit_strategy(), pick![4 => Just(0u8), 1 => 0u8..4], proptest::bool::weighted(0.15), pick![4 => Just(0u8), 1 => 0u8..3]).prop_map(|(u, m, t, s)| UnitSpec::Unit(u, m, t, s)),
        4 => (0u8..3).prop_map(UnitSpec::Dimen),
        2 => (0u8..3).prop_map(UnitSpec::Skip),
        2 => (0u8..3).prop_map(UnitSpec::Count),
        1 => (0u8..5).prop_map(UnitSpec::Internal),
    ]
}

/// 5^17: the 17-digit fractions (2m+1)*5^17 are the exact midpoints between two sp values
const FIVE_17: u64 = 762_939_453_125;

fn frac_strategy() -> impl Strategy<Value = (bool, String)> {
    (
        proptest::bool::weighted(0.2),
        pick![
            6 => re("[0-9]{0,5}"),
            4 => re("[0-9]{6,20}"),
            2 => proptest::sample::select(vec!["5", "50", "49999", "99999", "999999", "00001", "000007", "0000076", "00000762939453125", "000007629394531249", "99998", "999985", "9999923706"]).prop_map(|s| s.to_string()),
            // exact 17-digit ties, their lower neighbours (…4999) and upper neighbours (…0001)
            1 => (0u64..65536, 0u8..3, re("[0-9]{0,3}")).prop_map(|(m, k, tail)| {
                let tie = (2 * m + 1) * FIVE_17;
                match k {
                    0 => format!("{:017}{}", tie, tail),
                    1 => format!("{:017}9{}", tie - 1, tail),
                    _ => format!("{:017}", tie + 1),
                }
            }),
        ],
    )
}

fn dim_int_strategy() -> impl Strategy<Value = String> {
    pick![
        4 => (0i64..40).prop_map(|v| format!("{}", v)),
        3 => proptest::sample::select(vec![0i64, 1, 226, 227, 1000, 1363, 1364, 5758, 5759, 15000, 16383, 16384, 16385, 32767, 32768, 65535, 65536, 131071, 1 << 20, 1073741823, 1073741824, 2147483647, 2147483648, 99999999999]).prop_map(|v| format!("{}", v)),
        2 => (0i64..20000).prop_map(|v| format!("{}", v)),
    ]
}

fn dim_src_strategy() -> impl Strategy<Value = DimSrc> {
    pick![
        20 => (proptest::option::weighted(0.85, dim_int_strategy()), proptest::option::weighted(0.6, frac_strategy()), unit_spec_strategy(), pick![12 => Just(0u8), 1 => Just(1u8), 1 => Just(2u8)])
            .prop_map(|(int, frac, unit, quirk)| DimSrc::Const { int, frac, unit, quirk }),
        2 => (any::<bool>(), 0i64..70000, unit_spec_strategy(), proptest::option::weighted(0.15, re("[0-9]{1,3}")))
            .prop_map(|(hex, v, unit, frac)| DimSrc::Radix { hex, digits: if hex { format!("{:X}", v) } else { format!("{:o}", v) }, unit, frac }),
        4 => (0u8..3).prop_map(DimSrc::Dimen),
        2 => (0u8..3).prop_map(DimSrc::Skip),
        4 => ((0u8..3), unit_spec_strategy()).prop_map(|(j, u)| DimSrc::CountUnits(j, u)),
        1 => ((0u8..5), unit_spec_strategy()).prop_map(|(j, u)| DimSrc::InternalUnits(j, u)),
    ]
}

fn fil_coeff_strategy() -> impl Strategy<Value = FilCoeff> {
    pick![
        3 => (0u8..3).prop_map(FilCoeff::Count),
        1 => (0u8..5).prop_map(FilCoeff::Internal),
        1 => (0i64..70000).prop_map(|v| FilCoeff::Oct(format!("{:o}", v))),
        1 => (0i64..70000).prop_map(|v| FilCoeff::Hex(format!("{:X}", v))),
    ]
}

fn stretch_strategy() -> impl Strategy<Value = StretchSrc> {
    pick![
        3 => (signs_strategy(), dim_src_strategy()).prop_map(|(s, d)| StretchSrc::Dim(s, d)),
        3 => (signs_strategy(), proptest::option::weighted(0.9, dim_int_strategy()), proptest::option::weighted(0.4, frac_strategy()), pick![6 => 0u8..3, 1 => Just(3u8)], proptest::option::weighted(0.12, fil_coeff_strategy()))
            .prop_map(|(signs, int, frac, ls, coeff)| StretchSrc::Fil { signs, int, frac, ls, coeff }),
    ]
}

fn glue_src_strategy() -> impl Strategy<Value = GlueSrc> {
    pick![
        1 => (0u8..3).prop_map(GlueSrc::Skip),
        5 => (dim_src_strategy(), proptest::option::weighted(0.7, stretch_strategy()), proptest::option::weighted(0.5, stretch_strategy())).prop_map(|(width, plus, minus)| GlueSrc::Parts { width, plus, minus }),
    ]
}

fn kind_strategy() -> impl Strategy<Value = Kind> {
    pick![1 => Just(Kind::Count), 1 => Just(Kind::Dimen), 1 => Just(Kind::Skip)]
}

fn blanks_strategy() -> impl Strategy<Value = Blanks> {
    pick![3 => Just(Blanks(0)), 2 => (2u8..8).prop_map(Blanks)]
}

/// blanks in front of the further `l`s of `fil l l`: rare, because every program that has them is
/// judged by the model of the listed deviation fil_l_blank_ends_unit instead of TeX's
fn rare_blanks_strategy() -> impl Strategy<Value = Blanks> {
    pick![7 => Just(Blanks(0)), 1 => (2u8..8).prop_map(Blanks)]
}

fn mask_strategy() -> impl Strategy<Value = u8> {
    pick![3 => Just(0u8), 1 => Just(0xFFu8), 2 => any::<u8>()]
}

fn style_strategy() -> impl Strategy<Value = Style> {
    (
        (mask_strategy(), mask_strategy(), mask_strategy(), mask_strategy(), mask_strategy()),
        (blanks_strategy(), blanks_strategy(), blanks_strategy(), blanks_strategy(), blanks_strategy(), blanks_strategy()),
        (rare_blanks_strategy(), rare_blanks_strategy(), rare_blanks_strategy(), blanks_strategy()),
        proptest::bool::weighted(0.3),
        proptest::bool::weighted(0.4),
    )
        .prop_map(|((by_mask, plus_mask, minus_mask, true_mask, fil_mask), (pre_by, pre_plus, pre_minus, post_true, pre_unit, pre_fil), (l1, l2, l3, post_glue), upper_other, alias)| Style {
            by_mask,
            plus_mask,
            minus_mask,
            true_mask,
            fil_mask,
            pre_by,
            pre_plus,
            pre_minus,
            post_true,
            pre_unit,
            pre_fil,
            pre_l: [l1, l2, l3],
            post_glue,
            upper_other,
            alias,
        })
}

fn op_strategy() -> impl Strategy<Value = Op> {
    let by = proptest::bool::weighted(0.7);
    pick![
        3 => (0u8..3, signs_strategy(), int_src_strategy()).prop_map(|(i, s, x)| Op::SetCount(i, s, x)),
        4 => (0u8..3, signs_strategy(), dim_src_strategy()).prop_map(|(i, s, x)| Op::SetDimen(i, s, x)),
        3 => (0u8..3, signs_strategy(), glue_src_strategy()).prop_map(|(i, s, x)| Op::SetSkip(i, s, x)),
        2 => (0u8..3, by.clone(), signs_strategy(), int_src_strategy()).prop_map(|(i, b, s, x)| Op::AdvCount(i, b, s, x)),
        2 => (0u8..3, by.clone(), signs_strategy(), dim_src_strategy()).prop_map(|(i, b, s, x)| Op::AdvDimen(i, b, s, x)),
        2 => (0u8..3, by.clone(), signs_strategy(), glue_src_strategy()).prop_map(|(i, b, s, x)| Op::AdvSkip(i, b, s, x)),
        3 => (kind_strategy(), 0u8..3, by.clone(), signs_strategy(), small_int_src_strategy()).prop_map(|(k, i, b, s, x)| Op::Mul(k, i, b, s, x)),
        3 => (kind_strategy(), 0u8..3, by, signs_strategy(), small_int_src_strategy()).prop_map(|(k, i, b, s, x)| Op::Div(k, i, b, s, x)),
        3 => (kind_strategy(), 0u8..3, 0u8..3).prop_map(|(k, i, j)| Op::Copy(k, i, j)),
        1 => (0u8..5).prop_map(Op::ReadInternal),
    ]
}

/// 1-7 operations, each preceded by a change of spelling style with probability 0.3
fn ops_strategy() -> impl Strategy<Value = Vec<Op>> {
    proptest::collection::vec((proptest::option::weighted(0.3, style_strategy()), op_strategy()), 1..8).prop_map(|v| {
        let mut out = vec![];
        for (st, op) in v {
            if let Some(st) = st {
                out.push(Op::Style(st));
            }
            out.push(op);
        }
        out
    })
}

const FLAGS: [&str; 5] = ["multiply_accepts_min", "overflow_clamp_follows_unit_sign", "glue_sum_ignores_zero", "alpha_constant_expands", "fil_l_blank_ends_unit"];

fn dev_from_mask(mask: u32) -> Deviations {
    Deviations {
        multiply_accepts_min: mask & 1 != 0,
        overflow_clamp_follows_unit_sign: mask & 2 != 0,
        glue_sum_ignores_zero: mask & 4 != 0,
        alpha_constant_expands: mask & 8 != 0,
        fil_l_blank_ends_unit: mask & 16 != 0,
    }
}

/// What the VM did with one segment.
struct SegResult {
    got: String,
    kinds: Vec<ErrKind>,
    titles: Vec<String>,
    fatal: Option<String>,
}

fn c06_vm() -> Box<texlang::vm::VM<texvm::HState>> {
    let opts = VmOptions { count_and_continue: true, ..Default::default() };
    let mut vm = texvm::new_vm(&opts);
    vm.state.em_width = Some(Scaled(EM as i32));
    vm.state.ex_height = Some(Scaled(EX as i32));
    vm
}

/// One VM per program, one source per operation, so that output and errors are known per operation.
fn run_segments(segs: &[Seg]) -> Vec<SegResult> {
    let mut vm = c06_vm();
    let mut out = vec![];
    for (k, seg) in segs.iter().enumerate() {
        let r = texvm::run_source(&mut vm, &format!("op{}.tex", k), &seg.text);
        let mut kinds: Vec<ErrKind> = r.recovered_titles.iter().map(|t| classify(t)).collect();
        kinds.sort();
        let fatal = r.error.clone();
        out.push(SegResult { got: texvm::plain(&r.out), kinds, titles: r.recovered_titles, fatal });
        if out.last().unwrap().fatal.is_some() {
            break;
        }
    }
    out
}

/// First disagreement between the model and the VM, as (segment index, description).
fn disagreement(b: &Built, rs: &[SegResult]) -> Option<(usize, String)> {
    for (k, seg) in b.segs.iter().enumerate() {
        if seg.undefined {
            return None;
        }
        let Some(r) = rs.get(k) else {
            return Some((k, "not reached: an earlier operation ended with a fatal error".to_string()));
        };
        if let Some(f) = &r.fatal {
            return Some((k, format!("fatal error {:?}", f)));
        }
        if r.got != seg.expected {
            return Some((k, format!("output {:?}, TeX gives {:?}", r.got, seg.expected)));
        }
        let mut want = seg.errs.clone();
        want.sort();
        if r.kinds != want {
            return Some((k, format!("errors {:?} {:?}, TeX reports {:?}", r.kinds, r.titles, want)));
        }
    }
    None
}

fn ops_oracle(ctx: &Ctx, ops: &Vec<Op>, case: &mut Case) -> Verdict {
    let b = build(ops, Deviations::default());
    case.note = Some(b.text());
    for c in &b.classes {
        case.class(c);
    }
    // a panic or a runaway (no C06 program needs 20 000 expansion steps) is a crash in the
    // sense of the statement, also on inputs whose value TeX leaves undefined
    let rs = match panics::catch(|| run_segments(&b.segs)) {
        Ok(rs) => rs,
        Err(p) => {
            return Verdict::Fail(if p.budget { format!("step/error budget exceeded (runaway)\nprogram:\n{}", b.text()) } else { format!("panic at {}: {}\nprogram:\n{}", p.site(), p.message, b.text()) });
        }
    };
    let nontrivial = !b.classes.is_empty();
    let Some((k, what)) = disagreement(&b, &rs) else {
        if b.undefined {
            return Verdict::Skip("TeX negates -2^31 here (undefined)");
        }
        return Verdict::pass(nontrivial);
    };
    // listed deviations, smallest subsets first
    let nf = FLAGS.len() as u32;
    let listed: Vec<u32> = (0..nf).filter(|i| ctx.known(&format!("flag:{}", FLAGS[*i as usize]))).collect();
    let mut masks: Vec<u32> = (1u32..1 << nf).filter(|m| (0..nf).all(|i| m & (1 << i) == 0 || listed.contains(&i))).collect();
    masks.sort_by_key(|m| m.count_ones());
    for m in masks {
        let b2 = build(ops, dev_from_mask(m));
        // (a segment on which TeX is undefined ends the comparison in either model)
        if disagreement(&b2, &rs).is_none() {
            let names: Vec<&str> = (0..nf).filter(|i| m & (1 << i) != 0).map(|i| FLAGS[i as usize]).collect();
            return Verdict::Known(format!("flag:{}", names[0]));
        }
    }
    Verdict::Fail(format!("operation #{} differs from TeX: {}\noperation: {}\nprogram:\n{}", k, what, b.segs[k].text, b.text()))
}

// ---- (e) all pairs of edge operands for \advance, \multiply, \divide

fn arith_edges(thorough: bool) -> Vec<i64> {
    let mut v: Vec<i64> = vec![0, 1, 2, 3, 7, 1 << 14, (1 << 15) - 1, 1 << 15, (1 << 15) + 1, 1 << 16, (1 << 29) + 1, (1 << 30) - 1, 1 << 30, (1 << 30) + 1, (1 << 31) - 2, (1 << 31) - 1];
    if thorough {
        v.extend([5, 10, 255, 1000, (1 << 14) - 1, (1 << 14) + 1, (1 << 16) - 1, (1 << 16) + 1, 46341, 46340, 1 << 20, (1 << 29) - 1, 1 << 29, 715827883, 1431655765]);
    }
    let mut out = vec![];
    for x in v {
        out.push(x);
        if x != 0 {
            out.push(-x);
        }
    }
    out.push(-(1i64 << 31));
    out
}

fn dec_src(v: i64) -> (Signs, IntSrc) {
    (Signs(if v < 0 { vec![(true, false)] } else { vec![] }), IntSrc::Dec(format!("{}", v.abs())))
}

fn sp_src(v: i64) -> (Signs, DimSrc) {
    (Signs(if v < 0 { vec![(true, false)] } else { vec![] }), DimSrc::Const { int: Some(format!("{}", v.abs())), frac: None, unit: UnitSpec::Unit(Unit::Sp, 0, false, 0), quirk: 0 })
}

/// split a 32-bit value into at most three legal dimensions
fn split3(x: i64) -> Vec<i64> {
    let mut rest = x;
    let mut out = vec![];
    loop {
        let t = rest.clamp(-ta::MAX_DIMEN, ta::MAX_DIMEN);
        out.push(t);
        rest -= t;
        if rest == 0 {
            return out;
        }
    }
}

/// operations that leave the 32-bit value x in register `reg` of the kind (for glue: in component
/// `comp`, the other two components get small non-zero values), using only in-range constants
fn load_ops(kind: Kind, comp: u8, reg: u8, x: i64, out: &mut Vec<Op>) {
    match kind {
        Kind::Count => {
            if x == -(1i64 << 31) {
                let (s, v) = dec_src(-2147483647);
                out.push(Op::SetCount(reg, s, v));
                let (s, v) = dec_src(-1);
                out.push(Op::AdvCount(reg, true, s, v));
            } else {
                let (s, v) = dec_src(x);
                out.push(Op::SetCount(reg, s, v));
            }
        }
        Kind::Dimen => {
            for (k, t) in split3(x).into_iter().enumerate() {
                let (s, v) = sp_src(t);
                out.push(if k == 0 { Op::SetDimen(reg, s, v) } else { Op::AdvDimen(reg, false, s, v) });
            }
        }
        Kind::Skip => {
            let others = [5i64, -3, 7];
            for (k, t) in split3(x).into_iter().enumerate() {
                let val = |c: u8| if c == comp { t } else if k == 0 { others[c as usize] } else { 0 };
                let (ws, w) = sp_src(val(0));
                let (ps, p) = sp_src(val(1));
                let (ms, m) = sp_src(val(2));
                let g = GlueSrc::Parts { width: w, plus: Some(StretchSrc::Dim(ps, p)), minus: Some(StretchSrc::Dim(ms, m)) };
                out.push(if k == 0 { Op::SetSkip(reg, ws, g) } else { Op::AdvSkip(reg, true, ws, g) });
            }
        }
    }
}

/// index -> program: (kind/component) x (advance, multiply, divide) x E x E
fn arith_program(idx: u64, e: &[i64]) -> Vec<Op> {
    let n = e.len() as u64;
    let ni = (idx % n) as usize;
    let xi = ((idx / n) % n) as usize;
    let opk = (idx / (n * n)) % 3;
    let kc = (idx / (n * n * 3)) % 5;
    let (kind, comp) = match kc {
        0 => (Kind::Count, 0u8),
        1 => (Kind::Dimen, 0),
        k => (Kind::Skip, (k - 2) as u8),
    };
    let (x, nn) = (e[xi], e[ni]);
    let via_register = (xi + ni) % 2 == 1;
    let mut ops = vec![];
    load_ops(kind, comp, 0, x, &mut ops);
    match opk {
        0 => match kind {
            Kind::Count => {
                if via_register || nn == -(1i64 << 31) {
                    load_ops(Kind::Count, 0, 1, nn, &mut ops);
                    ops.push(Op::AdvCount(0, true, Signs(vec![]), IntSrc::Count(1)));
                } else {
                    let (s, v) = dec_src(nn);
                    ops.push(Op::AdvCount(0, true, s, v));
                }
            }
            Kind::Dimen => {
                // beyond max_dimen: the literal or the register is reported as too large and clamped
                if via_register {
                    load_ops(Kind::Dimen, 0, 1, nn, &mut ops);
                    ops.push(Op::AdvDimen(0, true, Signs(vec![]), DimSrc::Dimen(1)));
                } else {
                    let (s, v) = sp_src(nn);
                    ops.push(Op::AdvDimen(0, true, s, v));
                }
            }
            Kind::Skip => {
                // internal glue is added as it is, every component wraps silently
                load_ops(Kind::Skip, comp, 1, nn, &mut ops);
                ops.push(Op::AdvSkip(0, true, Signs(if via_register { vec![] } else { vec![(true, false), (true, false)] }), GlueSrc::Skip(1)));
            }
        },
        _ => {
            let (signs, src) = if via_register || nn == -(1i64 << 31) {
                load_ops(Kind::Count, 0, 1, nn, &mut ops);
                (Signs(vec![]), IntSrc::Count(1))
            } else {
                dec_src(nn)
            };
            ops.push(if opk == 1 { Op::Mul(kind, 0, true, signs, src) } else { Op::Div(kind, 0, true, signs, src) });
        }
    }
    ops
}

// ---- print-then-rescan through the VM on a sample of values

/// Eight values; each is loaded into \dimen1 (as <v>sp, reduced to the legal range), \skip1 (as
/// width, fil stretch written with the decimals of print_scaled, negated shrink) and \count1 (all
/// 32 bits), then copied by `\dimen2=\the\dimen1`, `\skip2=\the\skip1`, `\count2=\the\count1`.
fn roundtrip_program(vals: &Vec<i64>) -> Vec<Op> {
    let mut ops = vec![];
    for (k, &w) in vals.iter().enumerate() {
        // legal dimension derived from the 32-bit value
        let v = if w.abs() <= ta::MAX_DIMEN { w } else { w / 2 };
        let (s, d) = sp_src(v);
        ops.push(Op::SetDimen(0, s, d));
        ops.push(Op::Copy(Kind::Dimen, 0, 1));
        let printed = ta::print_scaled(v.abs());
        let mut it = printed.split('.');
        let (int, frac) = (it.next().unwrap().to_string(), it.next().unwrap().to_string());
        let (ws, wd) = sp_src(v);
        let (ms, md) = sp_src(-v);
        let plus = StretchSrc::Fil { signs: Signs(if v < 0 { vec![(true, false)] } else { vec![] }), int: Some(int), frac: Some((false, frac)), ls: (k % 3) as u8, coeff: None };
        ops.push(Op::SetSkip(0, ws, GlueSrc::Parts { width: wd, plus: Some(plus), minus: Some(StretchSrc::Dim(ms, md)) }));
        ops.push(Op::Copy(Kind::Skip, 0, 1));
        load_ops(Kind::Count, 0, 0, w, &mut ops);
        ops.push(Op::Copy(Kind::Count, 0, 1));
    }
    ops
}

fn roundtrip_strategy() -> impl Strategy<Value = Vec<i64>> {
    let edges: Vec<i64> = {
        let mut e = vec![0i64, 1, -1, ta::MAX_DIMEN, -ta::MAX_DIMEN, ta::INFINITY, -ta::INFINITY, -(1i64 << 31)];
        for k in 1..31 {
            for d in [-1i64, 0, 1] {
                e.push((1i64 << k) + d);
                e.push(-((1i64 << k) + d));
            }
        }
        e
    };
    proptest::collection::vec(pick![2 => proptest::sample::select(edges), 6 => -ta::MAX_DIMEN..=ta::MAX_DIMEN, 1 => -(1i64 << 20)..(1i64 << 20), 2 => -(1i64 << 31)..(1i64 << 31)], 8)
}

// ---- integer constants with terminators and leftovers

#[derive(Clone, Debug, Serialize, Deserialize)]
pub struct IntConstCase {
    signs: Signs,
    radix: u8,      // 0 dec, 1 oct, 2 hex, 3 alphabetic (spelling `alpha`)
    digits: String, // may contain characters that are not digits of the radix (they end the number)
    term: u8,       // 0 space, 1 \relax, 2 ';', 3 'x', 4 two blank tokens (the second from \s)
    #[serde(default)]
    alpha: u8,
    /// the characters / : @ ` are letters (category 11) while the constant is scanned
    #[serde(default)]
    odd_letters: bool,
}

/// (spelling, value; None = improper constant, TeX reports an error). `\b` is a macro, `~` active.
const ALPHAS: [(&str, Option<i64>); 18] = [
    ("`a", Some(97)),
    ("`A", Some(65)),
    ("`\\a", Some(97)),
    ("`\\%", Some(37)),
    ("`\\^^M", Some(13)),
    ("`\\b", Some(98)),
    ("`~", Some(126)),
    ("`{", Some(123)),
    ("`}", Some(125)),
    ("`#", Some(35)),
    ("`$", Some(36)),
    ("`&", Some(38)),
    ("`\\\\", Some(92)),
    ("`\\~", Some(126)),
    ("`\\{", Some(123)),
    ("` ", Some(32)),
    ("`0", Some(48)),
    ("`\\ab", None),
];

fn int_const_oracle(c: &IntConstCase, case: &mut Case) -> Verdict {
    let alpha = c.radix % 4 == 3;
    let radix: u32 = [10, 8, 16, 10][(c.radix % 4) as usize];
    let mut text = String::from("\\def\\b{c}\\def\\s{ }");
    if c.odd_letters {
        text.push_str("\\catcode`\\/=11 \\catcode`\\:=11 \\catcode`\\@=11 \\catcode96=11 ");
        case.class("constant scanned while / : @ ` are letters");
    }
    text.push_str("\\count1=");
    c.signs.render(&mut text);
    // valid prefix: upper-case hex digits only (TeX accepts A-F of category 11 or 12, never a-f)
    let mut valid: Vec<u8> = vec![];
    let mut rest = String::new();
    let mut alpha_value = None;
    let mut after_word = false;
    if alpha {
        let (sp, v) = ALPHAS[(c.alpha as usize) % ALPHAS.len()];
        text.push_str(sp);
        alpha_value = v;
        case.class("alphabetic constant");
        case.class_if(sp == "`~", "alphabetic constant: active character");
        case.class_if(matches!(sp, "`{" | "`}" | "`#" | "`$" | "`&" | "` "), "alphabetic constant: special category");
        // what follows is never part of the constant; after a control word, letters would extend its name
        let ends_in_word = sp.len() > 2 && sp.as_bytes()[1] == b'\\' && sp.as_bytes()[2].is_ascii_alphabetic();
        after_word = ends_in_word;
        rest = if ends_in_word { c.digits.trim_start_matches(|ch: char| ch.is_ascii_alphabetic()).to_string() } else { c.digits.clone() };
        text.push_str(&rest);
        case.class_if(rest.starts_with(|ch: char| ch.is_ascii_digit()), "alphabetic constant followed by a digit");
    } else {
        match radix {
            8 => text.push('\''),
            16 => text.push('"'),
            _ => {}
        }
        text.push_str(&c.digits);
        let mut ended = false;
        for ch in c.digits.chars() {
            let d = match ch {
                '0'..='9' => Some(ch as u32 - '0' as u32),
                'A'..='F' => Some(ch as u32 - 'A' as u32 + 10),
                _ => None,
            };
            if !ended {
                if let Some(d) = d {
                    if d < radix {
                        valid.push(d as u8);
                        continue;
                    }
                }
                ended = true;
            }
            rest.push(ch);
        }
    }
    let term = c.term % 5;
    let blank_term = term == 0 || term == 4;
    if !alpha && radix == 10 && c.digits.is_empty() && blank_term {
        // "\\count1= \\the\\count1": blanks are skipped and the following \the is expanded into the number
        return Verdict::Skip("nothing between = and the reader");
    }
    let mut errors = 0;
    let (mut v, big) = if alpha { (alpha_value.unwrap_or(0), false) } else { ta::scan_digits(&valid, radix as i64) };
    if big {
        errors += 1;
        case.class("too big");
    }
    let vacuous = if alpha { alpha_value.is_none() } else { valid.is_empty() };
    if vacuous && rest.is_empty() && blank_term {
        // TeX puts the blank back after "Missing number"; whether the blank survives the error
        // recovery is not part of the property's statement.
        return Verdict::Skip("missing number followed by a blank (recovery detail)");
    }
    if vacuous {
        errors += 1;
        case.class("missing number");
    }
    if c.signs.negative() {
        v = -v;
    }
    let mut expected = String::new();
    // leftovers are typeset; ONE blank is consumed, and only if it directly follows the constant
    // (§442-444 "scan an optional space")
    expected.push_str(&rest);
    let eaten = rest.is_empty() && !vacuous;
    // a blank of the source line is no token after a control word or after another blank
    let lit_tok = !(alpha && rest.is_empty() && (after_word || text.ends_with(' ')));
    let mut typeset_blanks = |tokens: usize| {
        for _ in 0..tokens - if eaten { tokens.min(1) } else { 0 } {
            expected.push(' ');
        }
    };
    match term {
        0 => {
            text.push(' ');
            typeset_blanks(lit_tok as usize);
        }
        1 => text.push_str("\\relax "),
        2 => {
            text.push(';');
            expected.push(';');
        }
        3 => {
            text.push_str(if alpha && rest.is_empty() && after_word { " x" } else { "x" });
            expected.push('x');
        }
        _ => {
            text.push_str(" \\s ");
            typeset_blanks(1 + lit_tok as usize);
            case.class_if(eaten && lit_tok, "two blank tokens after a constant (one is eaten)");
        }
    }
    text.push_str("\\the\\count1;%");
    if term == 0 && !lit_tok {
        // no blank token follows the constant, so "scan an optional space" (get_x_token, §443)
        // expands the reader itself before the assignment is made: it delivers the old value 0
        expected.push_str("0;");
        case.class("reader expanded by the optional-space scan");
    } else {
        expected.push_str(&format!("{};", v));
    }
    case.note = Some(text.clone());
    let opts = VmOptions { count_and_continue: true, ..Default::default() };
    let r = match panics::catch(|| texvm::run_program(&opts, &text)) {
        Ok(r) => r,
        Err(p) => return Verdict::Fail(format!("{} at {}: {}\nprogram: {}", if p.budget { "runaway" } else { "panic" }, p.site(), p.message, text)),
    };
    let got = texvm::plain(&r.out);
    if vacuous {
        // Malformed input: the property only asks for a reported error (Texlang makes some of
        // these fatal where TeX recovers; recovery of malformed constants is not in its statement).
        return if r.recovered > 0 || r.error.is_some() { Verdict::pass(true) } else { Verdict::Fail(format!("no error reported for a missing number\nprogram: {}\ngot: {:?}", text, got)) };
    }
    if r.error.is_none() && got == expected && (r.recovered > 0) == (errors > 0) {
        return Verdict::pass(errors > 0 || !c.signs.0.is_empty() || radix != 10 || alpha);
    }
    Verdict::Fail(format!("integer constant scanned differently from TeX\nprogram:  {}\nexpected: {:?} errors>0: {}\ngot:      {:?} recovered: {} {:?} fatal: {:?}", text, expected, errors > 0, got, r.recovered, r.recovered_titles, r.error))
}

fn int_const_strategy() -> impl Strategy<Value = IntConstCase> {
    (
        signs_strategy(),
        pick![3 => 0u8..3, 1 => Just(3u8)],
        pick![
            3 => re("[0-9]{1,12}"),
            2 => re("[0-7]{1,13}"),
            2 => re("[0-9A-F]{1,10}"),
            1 => re("[0-9A-Fa-f89]{0,6}"),
            // neighbours of the digit ranges in the character table: / : @ G ` g
            1 => re("[0-9A-F]{1,3}[/:@G`g][0-9A-Fa-f/:@G`g]{0,3}"),
            2 => proptest::sample::select(vec!["2147483647", "2147483648", "2147483650", "17777777777", "20000000000", "7FFFFFFF", "80000000", "FFFFFFFFF", "0", "00", "", "9", "G"]).prop_map(|s| s.to_string()),
        ],
        0u8..5,
        0u8..18,
        proptest::bool::weighted(0.15),
    )
        .prop_map(|(signs, radix, digits, term, alpha, odd_letters)| {
            // an alphabetic constant is mostly followed by its terminator at once
            let digits = if radix == 3 && alpha % 3 != 0 { String::new() } else if radix == 3 { digits.chars().take(2).collect() } else { digits };
            IntConstCase { signs, radix, digits, term, alpha, odd_letters: odd_letters && radix != 3 }
        })
}

pub fn run(ctx: &Ctx) {
    ctx.rule("(a) every scaled value in the enumerated domain: Display/display_no_units equal TeX's print_scaled, parse_no_units and parse_from_string invert it, at most 5 fraction digits and no shorter fraction scans back; non-trivial = needs >=3 fraction digits; parse_from_string on generated <int>[.<frac>]<unit> strings of every physical unit against scan_dimen. (b)-(e) proptest-generated sequences of assignments, coercions, \\advance, \\multiply, \\divide and print-then-rescan copies (\\dimen2=\\the\\dimen1) on count/dimen/skip registers (constants in every radix and unit, fractions of 0-20 digits, sign strings, internal quantities as values and as units, fil/fill/filll, keyword spellings in either case and category, optional blank tokens wherever TeX's scan_keyword accepts them) run one operation per VM source; every register is read back with \\the after each operation and the text plus the kinds of recoverable error of EVERY operation must equal a transcription of TeX's scan_int/scan_dimen/scan_glue and arithmetic routines; (e) additionally every pair of a fixed set of edge operands for each primitive and register kind; non-trivial = touches an error/clamp path, a coercion, an internal unit, a fraction of >=3 digits, infinite glue, a wrap, a rescan or a non-default spelling; distinct by program text");
    ctx.assume("operand values on which TeX itself negates -2^31 (undefined in Pascal) are not compared (operations before them are) and counted as skipped; a panic or runaway on them is still a failure");
    ctx.assume("\\mag is 1000 (the `true` keyword is a no-op); the harness state fixes the font quantities em = 655361sp, ex = 282168sp");
    ctx.assume("recoverable errors are compared per operation as a multiset of kinds (number too big, dimension too large, arithmetic overflow, division by zero, other), recognised by words of Texlang's error titles; wording is not compared");
    ctx.assume("category codes of the tokens \\the produces are not compared (the statement speaks of the decimal that is printed); that they scan back is checked by the Copy operations");
    let pfs_known = ctx.known("flag:parse_from_string_negative");
    let tier = ctx.tier;
    // (a)
    match tier {
        Tier::Quick => {
            run_range(ctx, "scaled_small", -(1 << 20), 1 << 20, true, |s| check_scaled_value(s, pfs_known));
            // every multiple of 65537 and powers of two +-{0,1,2}
            let mut edge: Vec<i64> = vec![];
            let mut v = 0i64;
            while v <= ta::INFINITY {
                edge.push(v);
                edge.push(-v);
                v += 65537;
            }
            for k in 0..32 {
                for d in -2i64..=2 {
                    let x = (1i64 << k) + d;
                    if x.abs() <= ta::INFINITY {
                        edge.push(x);
                        edge.push(-x);
                    }
                }
            }
            edge.push(ta::MAX_DIMEN);
            edge.push(-ta::MAX_DIMEN);
            edge.sort();
            edge.dedup();
            let n = edge.len() as u64;
            run_indexed(
                ctx,
                "scaled_edges",
                n,
                true,
                |i| edge[i as usize],
                |s: &i64, case| {
                    let legal = s.abs() <= ta::MAX_DIMEN;
                    case.class_if(!legal, "beyond max_dimen (Display only)");
                    match if legal { check_scaled_value(*s, pfs_known) } else { check_scaled_display_only(*s) } {
                        Ok(nt) => Verdict::pass(nt),
                        Err(e) => Verdict::Fail(e),
                    }
                },
            );
            run_generated(ctx, "scaled_random", 2_000_000, || -ta::MAX_DIMEN..=ta::MAX_DIMEN, |s: &i64, _| match check_scaled_value(*s, pfs_known) {
                Ok(nt) => Verdict::pass(nt),
                Err(e) => Verdict::Fail(e),
            });
        }
        Tier::Thorough => {
            run_range(ctx, "scaled_all", -ta::MAX_DIMEN, ta::MAX_DIMEN, true, |s| check_scaled_value(s, pfs_known));
            run_generated(ctx, "scaled_beyond", 4_000_000, || pick![1 => ta::MAX_DIMEN + 1..=ta::INFINITY, 1 => -ta::INFINITY..=-ta::MAX_DIMEN - 1], |s: &i64, _| match check_scaled_display_only(*s) {
                Ok(nt) => Verdict::pass(nt),
                Err(e) => Verdict::Fail(e),
            });
        }
    }
    let n = tier.pick(200_000u64, 5_000_000u64);
    run_generated(ctx, "scaled_strings", n, scaled_string_strategy, |c: &ScaledString, case| scaled_string_oracle(c, case));
    // (b)
    let n = tier.pick(60_000u64, 1_500_000u64);
    run_generated(ctx, "vm_int_constants", n, int_const_strategy, |c: &IntConstCase, case| int_const_oracle(c, case));
    // print-then-rescan through the VM scanner on a sample of values
    let n = tier.pick(8_000u64, 400_000u64);
    run_generated(ctx, "vm_roundtrip", n, roundtrip_strategy, |vals: &Vec<i64>, case| {
        case.class_if(vals.iter().any(|v| v.abs() <= ta::MAX_DIMEN && ta::print_scaled(*v).split('.').nth(1).unwrap().len() == 5), "value printed with 5 fraction digits");
        ops_oracle(ctx, &roundtrip_program(vals), case)
    });
    // (e) edge pairs
    let e = arith_edges(tier == Tier::Thorough);
    let total = 5 * 3 * (e.len() * e.len()) as u64;
    run_indexed(ctx, "arith_pairs", total, true, |i| arith_program(i, &e), |ops: &Vec<Op>, case| ops_oracle(ctx, ops, case));
    // (c)-(e)
    let n = tier.pick(150_000u64, 4_000_000u64);
    run_generated(ctx, "vm_register_ops", n, ops_strategy, |ops: &Vec<Op>, case| ops_oracle(ctx, ops, case));
}
