//! C06 Integers, dimensions, glue: scan, print and compute exactly as TeX does.

use crate::engine::*;
use crate::models::tex_arith::{self as ta, GlueVal, Scanned, Unit, UnitKind};
use crate::texvm::{self, VmOptions};
use common::Scaled;
use proptest::prelude::*;
use serde::{Deserialize, Serialize};

// ------------------------------------------------------------------------------------
// (a) print / scan of scaled values, directly on common::Scaled

fn check_scaled_value(s: i64, parse_from_string_negative_known: bool) -> Result<bool, String> {
    let sc = Scaled(s as i32);
    let model = ta::print_scaled(s);
    let no_units = format!("{}", sc.display_no_units());
    if no_units != model {
        return Err(format!("display_no_units({s}) = {no_units:?}, print_scaled gives {model:?}"));
    }
    let disp = format!("{}", sc);
    if disp.len() != model.len() + 2 || !disp.starts_with(&model) || !disp.ends_with("pt") {
        return Err(format!("Display({s}) = {disp:?}, expected {model}pt"));
    }
    match Scaled::parse_no_units(&no_units) {
        Ok(v) if v == sc => {}
        other => return Err(format!("parse_no_units({no_units:?}) = {other:?}, expected Scaled({s})")),
    }
    match Scaled::parse_from_string(&disp) {
        Ok(v) if v == sc => {}
        other => {
            if !(s < 0 && parse_from_string_negative_known) {
                return Err(format!("parse_from_string({disp:?}) = {other:?}, expected Scaled({s})"));
            }
        }
    }
    // Knuth's guarantee: at most five fraction digits, scans back exactly (model-level check of
    // the reference scanner), and no shorter fraction scans back.
    let frac = model.split('.').nth(1).unwrap();
    if frac.len() > 5 {
        return Err(format!("print_scaled({s}) has {} fraction digits", frac.len()));
    }
    let digits: Vec<u8> = frac.bytes().map(|b| b - b'0').collect();
    let int_part = s.abs() / ta::UNITY;
    if int_part * ta::UNITY + ta::round_decimals(&digits) != s.abs() {
        return Err(format!("reference scanner does not invert print_scaled({s}) = {model}"));
    }
    if digits.len() >= 2 {
        // shorter candidates: truncation, and truncation + 1 in the last kept place
        let k = digits.len() - 1;
        let mut n: i64 = 0;
        for d in &digits[..k] {
            n = n * 10 + *d as i64;
        }
        for cand in [n, n + 1] {
            if cand >= 10i64.pow(k as u32) {
                continue;
            }
            let mut cd = vec![0u8; k];
            let mut c = cand;
            for i in (0..k).rev() {
                cd[i] = (c % 10) as u8;
                c /= 10;
            }
            if int_part * ta::UNITY + ta::round_decimals(&cd) == s.abs() {
                return Err(format!("print_scaled({s}) = {model} is not the shortest: .{cand:0k$} scans back too"));
            }
        }
    }
    Ok(frac.len() >= 3)
}

// ------------------------------------------------------------------------------------
// VM programs

#[derive(Clone, Debug, Serialize, Deserialize)]
pub struct Signs(pub Vec<(bool, bool)>); // (is minus, followed by a space)

impl Signs {
    fn render(&self, out: &mut String) {
        for (m, sp) in &self.0 {
            out.push(if *m { '-' } else { '+' });
            if *sp {
                out.push(' ');
            }
        }
    }
    fn negative(&self) -> bool {
        self.0.iter().filter(|x| x.0).count() % 2 == 1
    }
}

#[derive(Clone, Debug, Serialize, Deserialize)]
pub enum IntSrc {
    Dec(String),
    Oct(String),
    Hex(String),
    /// `a  `A  `\a  `\%  `é  `~(active, undefined)
    Alpha(u8),
    Count(u8),
    Dimen(u8),
    Skip(u8),
}

#[derive(Clone, Debug, Serialize, Deserialize)]
pub enum UnitSpec {
    /// unit, upper-case mask (bit i = letter i upper), `true` keyword, number of spaces before
    Unit(Unit, u8, bool, u8),
    Dimen(u8),
    Skip(u8),
    Count(u8),
}

#[derive(Clone, Debug, Serialize, Deserialize)]
pub enum DimSrc {
    /// integer digits (decimal), optional fraction (separator is comma?, digits), units
    Const { int: Option<String>, frac: Option<(bool, String)>, unit: UnitSpec },
    /// octal/hex integer part, then units
    Radix { hex: bool, digits: String, unit: UnitSpec },
    Dimen(u8),
    Skip(u8),
    CountUnits(u8, UnitSpec),
}

#[derive(Clone, Debug, Serialize, Deserialize)]
pub enum StretchSrc {
    Dim(Signs, DimSrc),
    /// digits, fraction, number of l's after "fi" (1..=4; 4 is one too many)
    Fil { signs: Signs, int: Option<String>, frac: Option<(bool, String)>, ls: u8 },
}

#[derive(Clone, Debug, Serialize, Deserialize)]
pub enum GlueSrc {
    Skip(u8),
    Parts { width: DimSrc, plus: Option<StretchSrc>, minus: Option<StretchSrc> },
}

#[derive(Clone, Copy, Debug, PartialEq, Eq, Serialize, Deserialize)]
pub enum Kind {
    Count,
    Dimen,
    Skip,
}

#[derive(Clone, Debug, Serialize, Deserialize)]
pub enum Op {
    SetCount(u8, Signs, IntSrc),
    SetDimen(u8, Signs, DimSrc),
    SetSkip(u8, Signs, GlueSrc),
    AdvCount(u8, bool, Signs, IntSrc),
    AdvDimen(u8, bool, Signs, DimSrc),
    AdvSkip(u8, bool, Signs, GlueSrc),
    Mul(Kind, u8, bool, Signs, IntSrc),
    Div(Kind, u8, bool, Signs, IntSrc),
}

#[derive(Clone, Copy, Default)]
pub struct Deviations {
    /// \multiply of an integer accepts a result of -2^31 (D11)
    pub multiply_accepts_min: bool,
    /// an overflowing "internal dimension as unit" clamps to -max_dimen when the unit is negative
    pub overflow_clamp_follows_unit_sign: bool,
    /// \advance on glue takes the larger order even when that order's amount is zero
    pub glue_sum_ignores_zero: bool,
    /// `\a in an alphabetic constant is expanded when \a is a macro
    pub alpha_constant_expands: bool,
}

const NREG: usize = 3;
const EM: i64 = 12 * ta::UNITY;
const EX: i64 = 12 * ta::UNITY;

#[derive(Clone)]
struct Regs {
    count: [i64; NREG],
    dimen: [i64; NREG],
    skip: [GlueVal; NREG],
}

struct Model {
    regs: Regs,
    text: String,
    expected: String,
    errors: u32,
    dev: Deviations,
    /// a case TeX leaves undefined (negating -2^31) was reached
    undefined: bool,
    classes: Vec<&'static str>,
}

fn digits_of(s: &str, radix: u32) -> Vec<u8> {
    s.chars().map(|c| c.to_digit(radix).unwrap() as u8).collect()
}

impl Model {
    fn r(i: u8) -> usize {
        (i as usize) % NREG
    }

    fn scan_int_unsigned(&mut self, src: &IntSrc) -> (i64, u32) {
        match src {
            IntSrc::Dec(d) => {
                self.text.push_str(d);
                let (v, big) = ta::scan_digits(&digits_of(d, 10), 10);
                if big {
                    self.classes.push("int too big");
                }
                (v, big as u32)
            }
            IntSrc::Oct(d) => {
                self.text.push('\'');
                self.text.push_str(d);
                let (v, big) = ta::scan_digits(&digits_of(d, 8), 8);
                (v, big as u32)
            }
            IntSrc::Hex(d) => {
                self.text.push('"');
                self.text.push_str(d);
                let (v, big) = ta::scan_digits(&digits_of(d, 16), 16);
                (v, big as u32)
            }
            IntSrc::Alpha(k) => {
                let (t, v) = match k % 7 {
                    0 => ("`a", 97),
                    1 => ("`A", 65),
                    2 => ("`\\a", 97),
                    3 => ("`\\%", 37),
                    4 => ("`é", 233),
                    5 => ("`\\^^M", 13),
                    // \b is a macro (\def\b{c} in the preamble); TeX does not expand it here
                    _ => ("`\\b", if self.dev.alpha_constant_expands { 99 } else { 98 }),
                };
                self.text.push_str(t);
                self.classes.push("alpha constant");
                (v, 0)
            }
            IntSrc::Count(j) => {
                self.text.push_str(&format!("\\count{}", Self::r(*j) + 1));
                (self.regs.count[Self::r(*j)], 0)
            }
            IntSrc::Dimen(j) => {
                self.text.push_str(&format!("\\dimen{}", Self::r(*j) + 1));
                self.classes.push("coercion");
                (self.regs.dimen[Self::r(*j)], 0)
            }
            IntSrc::Skip(j) => {
                self.text.push_str(&format!("\\skip{}", Self::r(*j) + 1));
                self.classes.push("coercion");
                (self.regs.skip[Self::r(*j)].width, 0)
            }
        }
    }

    /// §440 scan_int
    fn scan_int(&mut self, signs: &Signs, src: &IntSrc) -> Scanned {
        signs.render(&mut self.text);
        let (v, e) = self.scan_int_unsigned(src);
        self.text.push_str("\\relax ");
        let v = if signs.negative() { ta::wrap32(-v) } else { v };
        Scanned { value: v, errors: e }
    }

    fn render_unit(&mut self, u: &UnitSpec) -> UnitKind {
        match u {
            UnitSpec::Unit(unit, mask, true_kw, spaces) => {
                for _ in 0..(*spaces % 3) {
                    self.text.push(' ');
                }
                let is_font_unit = matches!(unit, Unit::Em | Unit::Ex);
                if *true_kw && !is_font_unit {
                    self.text.push_str("true");
                    self.classes.push("true keyword");
                }
                for (i, c) in unit.keyword().chars().enumerate() {
                    if mask & (1 << i) != 0 {
                        self.text.push(c.to_ascii_uppercase());
                    } else {
                        self.text.push(c);
                    }
                }
                UnitKind::Unit(*unit)
            }
            UnitSpec::Dimen(j) => {
                self.text.push_str(&format!("\\dimen{}", Self::r(*j) + 1));
                self.classes.push("internal unit");
                UnitKind::Internal(self.regs.dimen[Self::r(*j)])
            }
            UnitSpec::Skip(j) => {
                self.text.push_str(&format!("\\skip{}", Self::r(*j) + 1));
                self.classes.push("internal unit");
                UnitKind::Internal(self.regs.skip[Self::r(*j)].width)
            }
            UnitSpec::Count(j) => {
                self.text.push_str(&format!("\\count{}", Self::r(*j) + 1));
                self.classes.push("internal unit");
                UnitKind::Internal(self.regs.count[Self::r(*j)])
            }
        }
    }

    fn finish(&mut self, parts: ta::DimenParts, unit: UnitKind) -> Scanned {
        let mut s = ta::finish_dimen(&parts, unit, EM, EX);
        if self.dev.overflow_clamp_follows_unit_sign && s.errors > parts.int_too_big as u32 {
            if let UnitKind::Internal(v) = unit {
                if v < 0 {
                    s.value = -s.value;
                }
            }
        }
        if s.errors > 0 {
            self.classes.push("dimension error/clamp");
        }
        s
    }

    /// §448 scan_dimen (signs already rendered by the caller through `signs`)
    fn scan_dimen(&mut self, signs: &Signs, src: &DimSrc) -> Scanned {
        signs.render(&mut self.text);
        let mut negative = signs.negative();
        let r = match src {
            DimSrc::Const { int, frac, unit } => {
                let (int, frac) = if int.is_none() && frac.is_none() { (Some("0".to_string()), None) } else { (int.clone(), frac.clone()) };
                let (iv, big) = match &int {
                    Some(d) => {
                        self.text.push_str(d);
                        ta::scan_digits(&digits_of(d, 10), 10)
                    }
                    None => (0, false),
                };
                let fd = match &frac {
                    Some((comma, d)) => {
                        self.text.push(if *comma { ',' } else { '.' });
                        self.text.push_str(d);
                        if d.len() >= 3 {
                            self.classes.push("fraction>=3 digits");
                        }
                        digits_of(d, 10)
                    }
                    None => vec![],
                };
                let uk = self.render_unit(unit);
                self.finish(ta::DimenParts { negative, int_value: iv, int_too_big: big, frac_digits: fd }, uk)
            }
            DimSrc::Radix { hex, digits, unit } => {
                self.text.push(if *hex { '"' } else { '\'' });
                self.text.push_str(digits);
                let radix = if *hex { 16 } else { 8 };
                let (iv, big) = ta::scan_digits(&digits_of(digits, radix as u32), radix);
                // a following space is needed so that e.g. "1Fdd is not read as hex digits FDD
                self.text.push(' ');
                let uk = self.render_unit(unit);
                self.finish(ta::DimenParts { negative, int_value: iv, int_too_big: big, frac_digits: vec![] }, uk)
            }
            DimSrc::Dimen(j) => {
                self.text.push_str(&format!("\\dimen{}", Self::r(*j) + 1));
                let v = self.regs.dimen[Self::r(*j)];
                self.attach_sign(v, negative)
            }
            DimSrc::Skip(j) => {
                self.text.push_str(&format!("\\skip{}", Self::r(*j) + 1));
                self.classes.push("coercion");
                let v = self.regs.skip[Self::r(*j)].width;
                self.attach_sign(v, negative)
            }
            DimSrc::CountUnits(j, unit) => {
                self.text.push_str(&format!("\\count{}", Self::r(*j) + 1));
                self.classes.push("coercion");
                let mut v = self.regs.count[Self::r(*j)];
                if v < 0 {
                    negative = !negative;
                    if v == i32::MIN as i64 {
                        self.undefined = true;
                    }
                    v = -v;
                }
                // the register number is terminated by a space when a keyword follows
                self.text.push(' ');
                let uk = self.render_unit(unit);
                self.finish(ta::DimenParts { negative, int_value: v, int_too_big: false, frac_digits: vec![] }, uk)
            }
        };
        self.text.push_str("\\relax ");
        r
    }

    /// attach_sign for an internal dimension used directly (§448: goto attach_sign)
    fn attach_sign(&mut self, v: i64, negative: bool) -> Scanned {
        let mut cur_val = v;
        let mut errors = 0;
        if cur_val.abs() >= 0o10000000000 {
            errors = 1;
            cur_val = ta::MAX_DIMEN;
            self.classes.push("dimension error/clamp");
        }
        if negative {
            cur_val = -cur_val;
        }
        Scanned { value: cur_val, errors }
    }

    fn scan_stretch(&mut self, s: &StretchSrc) -> (Scanned, u8) {
        match s {
            StretchSrc::Dim(signs, d) => (self.scan_dimen_inner(signs, d), 0),
            StretchSrc::Fil { signs, int, frac, ls } => {
                signs.render(&mut self.text);
                let (int, frac) = if int.is_none() && frac.is_none() { (Some("1".to_string()), None) } else { (int.clone(), frac.clone()) };
                let (iv, big) = match &int {
                    Some(d) => {
                        self.text.push_str(d);
                        ta::scan_digits(&digits_of(d, 10), 10)
                    }
                    None => (0, false),
                };
                let fd = match &frac {
                    Some((comma, d)) => {
                        self.text.push(if *comma { ',' } else { '.' });
                        self.text.push_str(d);
                        digits_of(d, 10)
                    }
                    None => vec![],
                };
                let ls = (*ls % 4) + 1; // 1..=4
                self.text.push_str("fi");
                for _ in 0..ls {
                    self.text.push('l');
                }
                self.classes.push("infinite glue");
                let mut sc = self.finish(ta::DimenParts { negative: signs.negative(), int_value: iv, int_too_big: big, frac_digits: fd }, UnitKind::Fil);
                let mut order = ls;
                if ls == 4 {
                    // "Illegal unit of measure (replaced by filll)"
                    sc.errors += 1;
                    order = 3;
                }
                (sc, order)
            }
        }
    }

    /// scan_dimen without the trailing \relax (inside glue specifications the keyword scan follows)
    fn scan_dimen_inner(&mut self, signs: &Signs, d: &DimSrc) -> Scanned {
        let before = self.text.len();
        let r = self.scan_dimen(signs, d);
        // remove the "\relax " that scan_dimen appended, keep a space as separator
        assert!(self.text.ends_with("\\relax "));
        let n = self.text.len();
        self.text.truncate(n - 7);
        let _ = before;
        self.text.push(' ');
        r
    }

    /// §461 scan_glue
    fn scan_glue(&mut self, signs: &Signs, src: &GlueSrc) -> (GlueVal, u32) {
        match src {
            GlueSrc::Skip(j) => {
                signs.render(&mut self.text);
                self.text.push_str(&format!("\\skip{}\\relax ", Self::r(*j) + 1));
                let g = self.regs.skip[Self::r(*j)];
                if signs.negative() {
                    (GlueVal { width: ta::wrap32(-g.width), stretch: ta::wrap32(-g.stretch), shrink: ta::wrap32(-g.shrink), ..g }, 0)
                } else {
                    (g, 0)
                }
            }
            GlueSrc::Parts { width: DimSrc::Skip(j), .. } => {
                // an internal glue as the first quantity IS the whole glue (TeX 461 returns at once)
                self.scan_glue(signs, &GlueSrc::Skip(*j))
            }
            GlueSrc::Parts { width, plus, minus } => {
                let w = if let DimSrc::Dimen(j) = width {
                    // internal dimension as the width: taken as is, no range check (TeX 461)
                    signs.render(&mut self.text);
                    self.text.push_str(&format!("\\dimen{} ", Self::r(*j) + 1));
                    let v = self.regs.dimen[Self::r(*j)];
                    Scanned { value: if signs.negative() { ta::wrap32(-v) } else { v }, errors: 0 }
                } else {
                    self.scan_dimen_inner(signs, width)
                };
                let mut g = GlueVal { width: w.value, ..GlueVal::ZERO };
                let mut errors = w.errors;
                if let Some(p) = plus {
                    self.text.push_str("plus ");
                    let (s, o) = self.scan_stretch(p);
                    if !self.text.ends_with(' ') {
                        self.text.push(' ');
                    }
                    g.stretch = s.value;
                    g.stretch_order = o;
                    errors += s.errors;
                }
                if let Some(m) = minus {
                    self.text.push_str("minus ");
                    let (s, o) = self.scan_stretch(m);
                    if !self.text.ends_with(' ') {
                        self.text.push(' ');
                    }
                    g.shrink = s.value;
                    g.shrink_order = o;
                    errors += s.errors;
                }
                self.text.push_str("\\relax ");
                (g, errors)
            }
        }
    }

    fn read(&mut self, kind: Kind, i: usize) {
        match kind {
            Kind::Count => {
                self.text.push_str(&format!("\\the\\count{};", i + 1));
                self.expected.push_str(&format!("{};", self.regs.count[i]));
            }
            Kind::Dimen => {
                self.text.push_str(&format!("\\the\\dimen{};", i + 1));
                self.expected.push_str(&format!("{}pt;", ta::print_scaled(self.regs.dimen[i])));
            }
            Kind::Skip => {
                self.text.push_str(&format!("\\the\\skip{};", i + 1));
                self.expected.push_str(&format!("{};", ta::print_spec(&self.regs.skip[i])));
            }
        }
    }

    fn by(&mut self, by: bool) {
        if by {
            self.text.push_str("by ");
        }
    }

    fn op(&mut self, op: &Op) {
        match op {
            Op::SetCount(i, signs, src) => {
                let i = Self::r(*i);
                self.text.push_str(&format!("\\count{}=", i + 1));
                let s = self.scan_int(signs, src);
                self.errors += s.errors;
                self.regs.count[i] = s.value;
                self.read(Kind::Count, i);
            }
            Op::SetDimen(i, signs, src) => {
                let i = Self::r(*i);
                self.text.push_str(&format!("\\dimen{}=", i + 1));
                let s = self.scan_dimen(signs, src);
                self.errors += s.errors;
                self.regs.dimen[i] = s.value;
                self.read(Kind::Dimen, i);
            }
            Op::SetSkip(i, signs, src) => {
                let i = Self::r(*i);
                self.text.push_str(&format!("\\skip{}=", i + 1));
                let (g, e) = self.scan_glue(signs, src);
                self.errors += e;
                self.regs.skip[i] = g;
                self.read(Kind::Skip, i);
            }
            Op::AdvCount(i, by, signs, src) => {
                let i = Self::r(*i);
                self.text.push_str(&format!("\\advance\\count{} ", i + 1));
                self.by(*by);
                let s = self.scan_int(signs, src);
                self.errors += s.errors;
                let sum = self.regs.count[i] + s.value;
                if sum != ta::wrap32(sum) {
                    self.classes.push("advance wraps");
                }
                self.regs.count[i] = ta::wrap32(sum);
                self.read(Kind::Count, i);
            }
            Op::AdvDimen(i, by, signs, src) => {
                let i = Self::r(*i);
                self.text.push_str(&format!("\\advance\\dimen{} ", i + 1));
                self.by(*by);
                let s = self.scan_dimen(signs, src);
                self.errors += s.errors;
                let sum = self.regs.dimen[i] + s.value;
                if sum != ta::wrap32(sum) {
                    self.classes.push("advance wraps");
                }
                self.regs.dimen[i] = ta::wrap32(sum);
                self.read(Kind::Dimen, i);
            }
            Op::AdvSkip(i, by, signs, src) => {
                let i = Self::r(*i);
                self.text.push_str(&format!("\\advance\\skip{} ", i + 1));
                self.by(*by);
                let (g, e) = self.scan_glue(signs, src);
                self.errors += e;
                let old = self.regs.skip[i];
                self.regs.skip[i] = if self.dev.glue_sum_ignores_zero { dev_glue_sum(&g, &old) } else { ta::glue_sum(&g, &old) };
                self.read(Kind::Skip, i);
            }
            Op::Mul(kind, i, by, signs, src) => {
                let i = Self::r(*i);
                let name = match kind {
                    Kind::Count => "count",
                    Kind::Dimen => "dimen",
                    Kind::Skip => "skip",
                };
                self.text.push_str(&format!("\\multiply\\{}{} ", name, i + 1));
                self.by(*by);
                let s = self.scan_int(signs, src);
                self.errors += s.errors;
                let n = s.value;
                let min = i32::MIN as i64;
                match kind {
                    Kind::Count => {
                        let x = self.regs.count[i];
                        if n == min || x == min {
                            self.undefined = true;
                        }
                        match ta::mult_integers(x, n) {
                            Some(v) => self.regs.count[i] = v,
                            None => {
                                if self.dev.multiply_accepts_min && (x as i128 * n as i128) == min as i128 {
                                    self.regs.count[i] = min;
                                } else {
                                    self.errors += 1;
                                    self.classes.push("arithmetic overflow");
                                }
                            }
                        }
                    }
                    Kind::Dimen => {
                        let x = self.regs.dimen[i];
                        if n == min || x == min {
                            self.undefined = true;
                        }
                        match ta::nx_plus_y(x, n, 0) {
                            Some(v) => self.regs.dimen[i] = v,
                            None => {
                                self.errors += 1;
                                self.classes.push("arithmetic overflow");
                            }
                        }
                    }
                    Kind::Skip => {
                        let g = self.regs.skip[i];
                        if n == min || g.width == min || g.stretch == min || g.shrink == min {
                            self.undefined = true;
                        }
                        let w = ta::nx_plus_y(g.width, n, 0);
                        let st = ta::nx_plus_y(g.stretch, n, 0);
                        let sh = ta::nx_plus_y(g.shrink, n, 0);
                        match (w, st, sh) {
                            (Some(w), Some(st), Some(sh)) => self.regs.skip[i] = GlueVal { width: w, stretch: st, shrink: sh, ..g },
                            _ => {
                                self.errors += 1;
                                self.classes.push("arithmetic overflow");
                            }
                        }
                    }
                }
                self.read(*kind, i);
            }
            Op::Div(kind, i, by, signs, src) => {
                let i = Self::r(*i);
                let name = match kind {
                    Kind::Count => "count",
                    Kind::Dimen => "dimen",
                    Kind::Skip => "skip",
                };
                self.text.push_str(&format!("\\divide\\{}{} ", name, i + 1));
                self.by(*by);
                let s = self.scan_int(signs, src);
                self.errors += s.errors;
                let n = s.value;
                let min = i32::MIN as i64;
                if n == 0 {
                    self.errors += 1;
                    self.classes.push("division by zero");
                } else {
                    match kind {
                        Kind::Count => {
                            let x = self.regs.count[i];
                            if n == min || x == min {
                                self.undefined = true;
                            }
                            self.regs.count[i] = ta::x_over_n(x, n).unwrap().0;
                        }
                        Kind::Dimen => {
                            let x = self.regs.dimen[i];
                            if n == min || x == min {
                                self.undefined = true;
                            }
                            self.regs.dimen[i] = ta::x_over_n(x, n).unwrap().0;
                        }
                        Kind::Skip => {
                            let g = self.regs.skip[i];
                            if n == min || g.width == min || g.stretch == min || g.shrink == min {
                                self.undefined = true;
                            }
                            self.regs.skip[i] = GlueVal { width: ta::x_over_n(g.width, n).unwrap().0, stretch: ta::x_over_n(g.stretch, n).unwrap().0, shrink: ta::x_over_n(g.shrink, n).unwrap().0, ..g };
                        }
                    }
                }
                self.read(*kind, i);
            }
        }
    }
}

/// the implementation's glue sum (listed deviation): larger order wins even with zero amount
fn dev_glue_sum(inc: &GlueVal, old: &GlueVal) -> GlueVal {
    let pick = |a: i64, ao: u8, b: i64, bo: u8| -> (i64, u8) {
        // a = old (lhs), b = increment
        if ao < bo {
            (b, bo)
        } else if ao == bo {
            (ta::wrap32(a + b), ao)
        } else {
            (a, ao)
        }
    };
    let (st, so) = pick(old.stretch, old.stretch_order, inc.stretch, inc.stretch_order);
    let (sh, sho) = pick(old.shrink, old.shrink_order, inc.shrink, inc.shrink_order);
    GlueVal { width: ta::wrap32(old.width + inc.width), stretch: st, stretch_order: so, shrink: sh, shrink_order: sho }
}

pub struct Built {
    pub text: String,
    pub expected: String,
    pub errors: u32,
    pub undefined: bool,
    pub classes: Vec<&'static str>,
}

pub fn build(ops: &[Op], dev: Deviations) -> Built {
    let mut m = Model {
        regs: Regs { count: [0; NREG], dimen: [0; NREG], skip: [GlueVal::ZERO; NREG] },
        text: String::from("\\def\\b{c}"),
        expected: String::new(),
        errors: 0,
        dev,
        undefined: false,
        classes: vec![],
    };
    for op in ops {
        if m.undefined {
            break;
        }
        m.op(op);
    }
    m.text.push('%');
    Built { text: m.text, expected: m.expected, errors: m.errors, undefined: m.undefined, classes: m.classes }
}

// ---- strategies

fn signs_strategy() -> impl Strategy<Value = Signs> {
    prop_oneof![
        5 => Just(Signs(vec![])),
        3 => Just(Signs(vec![(true, false)])),
        2 => proptest::collection::vec((any::<bool>(), proptest::bool::weighted(0.3)), 1..4).prop_map(Signs),
    ]
}

fn edge_ints() -> Vec<i64> {
    let mut v = vec![0i64, 1, 2, 3, 7, 10, 255, 256, 1000];
    for k in [14u32, 15, 16, 29, 30, 31, 32] {
        for d in [-2i64, -1, 0, 1, 2] {
            let x = (1i64 << k) + d;
            if x >= 0 {
                v.push(x);
            }
        }
    }
    v.push(214748364);
    v.push(2147483647);
    v.push(2147483648);
    v.push(21474836470);
    v.push(99999999999);
    v
}

fn int_value_strategy() -> impl Strategy<Value = i64> {
    let e = edge_ints();
    prop_oneof![
        4 => proptest::sample::select(e),
        3 => 0i64..70000,
        2 => 0i64..(1i64 << 33),
    ]
}

fn int_src_strategy() -> impl Strategy<Value = IntSrc> {
    prop_oneof![
        6 => (int_value_strategy(), 0usize..3).prop_map(|(v, z)| IntSrc::Dec(format!("{}{}", "0".repeat(z), v))),
        1 => int_value_strategy().prop_map(|v| IntSrc::Oct(format!("{:o}", v))),
        1 => int_value_strategy().prop_map(|v| IntSrc::Hex(format!("{:X}", v))),
        1 => (0u8..7).prop_map(IntSrc::Alpha),
        3 => (0u8..3).prop_map(IntSrc::Count),
        1 => (0u8..3).prop_map(IntSrc::Dimen),
        1 => (0u8..3).prop_map(IntSrc::Skip),
    ]
}

fn small_int_src_strategy() -> impl Strategy<Value = IntSrc> {
    prop_oneof![
        5 => (0i64..12).prop_map(|v| IntSrc::Dec(format!("{}", v))),
        3 => proptest::sample::select(vec![0i64, 1, 2, 3, 7, 1000, 16384, 32768, 65536, 65537, 1 << 30, 2147483647]).prop_map(|v| IntSrc::Dec(format!("{}", v))),
        2 => (0u8..3).prop_map(IntSrc::Count),
    ]
}

fn unit_strategy() -> impl Strategy<Value = Unit> {
    proptest::sample::select(vec![Unit::Pt, Unit::In, Unit::Pc, Unit::Cm, Unit::Mm, Unit::Bp, Unit::Dd, Unit::Cc, Unit::Sp, Unit::Em, Unit::Ex])
}

fn unit_spec_strategy() -> impl Strategy<Value = UnitSpec> {
    prop_oneof![
        10 => (unit_strategy(), prop_oneof![4 => Just(0u8), 1 => 0u8..4], proptest::bool::weighted(0.1), prop_oneof![4 => Just(0u8), 1 => 0u8..3]).prop_map(|(u, m, t, s)| UnitSpec::Unit(u, m, t, s)),
        2 => (0u8..3).prop_map(UnitSpec::Dimen),
        1 => (0u8..3).prop_map(UnitSpec::Skip),
        1 => (0u8..3).prop_map(UnitSpec::Count),
    ]
}

fn frac_strategy() -> impl Strategy<Value = (bool, String)> {
    (
        proptest::bool::weighted(0.2),
        prop_oneof![
            3 => "[0-9]{0,5}",
            2 => "[0-9]{6,20}",
            1 => proptest::sample::select(vec!["5", "50", "49999", "99999", "999999", "00001", "000007", "0000076", "00000762939453125", "000007629394531249", "99998", "999985", "9999923706"]).prop_map(|s| s.to_string()),
        ],
    )
}

fn dim_int_strategy() -> impl Strategy<Value = String> {
    prop_oneof![
        4 => (0i64..40).prop_map(|v| format!("{}", v)),
        3 => proptest::sample::select(vec![0i64, 1, 226, 227, 1000, 1363, 1364, 5758, 5759, 15000, 16383, 16384, 16385, 32767, 32768, 65535, 65536, 131071, 1 << 20, 1073741823, 1073741824, 2147483647, 2147483648, 99999999999]).prop_map(|v| format!("{}", v)),
        2 => (0i64..20000).prop_map(|v| format!("{}", v)),
    ]
}

fn dim_src_strategy() -> impl Strategy<Value = DimSrc> {
    prop_oneof![
        10 => (proptest::option::weighted(0.85, dim_int_strategy()), proptest::option::weighted(0.6, frac_strategy()), unit_spec_strategy()).prop_map(|(int, frac, unit)| DimSrc::Const { int, frac, unit }),
        1 => (any::<bool>(), 0i64..70000, unit_spec_strategy()).prop_map(|(hex, v, unit)| DimSrc::Radix { hex, digits: if hex { format!("{:X}", v) } else { format!("{:o}", v) }, unit }),
        2 => (0u8..3).prop_map(DimSrc::Dimen),
        1 => (0u8..3).prop_map(DimSrc::Skip),
        2 => ((0u8..3), unit_spec_strategy()).prop_map(|(j, u)| DimSrc::CountUnits(j, u)),
    ]
}

fn stretch_strategy() -> impl Strategy<Value = StretchSrc> {
    prop_oneof![
        3 => (signs_strategy(), dim_src_strategy()).prop_map(|(s, d)| StretchSrc::Dim(s, d)),
        3 => (signs_strategy(), proptest::option::weighted(0.9, dim_int_strategy()), proptest::option::weighted(0.4, frac_strategy()), prop_oneof![6 => 0u8..3, 1 => Just(3u8)]).prop_map(|(signs, int, frac, ls)| StretchSrc::Fil { signs, int, frac, ls }),
    ]
}

fn glue_src_strategy() -> impl Strategy<Value = GlueSrc> {
    prop_oneof![
        1 => (0u8..3).prop_map(GlueSrc::Skip),
        5 => (dim_src_strategy(), proptest::option::weighted(0.7, stretch_strategy()), proptest::option::weighted(0.5, stretch_strategy())).prop_map(|(width, plus, minus)| GlueSrc::Parts { width, plus, minus }),
    ]
}

fn kind_strategy() -> impl Strategy<Value = Kind> {
    prop_oneof![Just(Kind::Count), Just(Kind::Dimen), Just(Kind::Skip)]
}

fn op_strategy() -> impl Strategy<Value = Op> {
    let by = proptest::bool::weighted(0.7);
    prop_oneof![
        3 => (0u8..3, signs_strategy(), int_src_strategy()).prop_map(|(i, s, x)| Op::SetCount(i, s, x)),
        4 => (0u8..3, signs_strategy(), dim_src_strategy()).prop_map(|(i, s, x)| Op::SetDimen(i, s, x)),
        3 => (0u8..3, signs_strategy(), glue_src_strategy()).prop_map(|(i, s, x)| Op::SetSkip(i, s, x)),
        2 => (0u8..3, by.clone(), signs_strategy(), int_src_strategy()).prop_map(|(i, b, s, x)| Op::AdvCount(i, b, s, x)),
        2 => (0u8..3, by.clone(), signs_strategy(), dim_src_strategy()).prop_map(|(i, b, s, x)| Op::AdvDimen(i, b, s, x)),
        2 => (0u8..3, by.clone(), signs_strategy(), glue_src_strategy()).prop_map(|(i, b, s, x)| Op::AdvSkip(i, b, s, x)),
        3 => (kind_strategy(), 0u8..3, by.clone(), signs_strategy(), small_int_src_strategy()).prop_map(|(k, i, b, s, x)| Op::Mul(k, i, b, s, x)),
        3 => (kind_strategy(), 0u8..3, by, signs_strategy(), small_int_src_strategy()).prop_map(|(k, i, b, s, x)| Op::Div(k, i, b, s, x)),
    ]
}

const FLAGS: [&str; 4] = ["multiply_accepts_min", "overflow_clamp_follows_unit_sign", "glue_sum_ignores_zero", "alpha_constant_expands"];

fn dev_from_mask(mask: u32) -> Deviations {
    Deviations {
        multiply_accepts_min: mask & 1 != 0,
        overflow_clamp_follows_unit_sign: mask & 2 != 0,
        glue_sum_ignores_zero: mask & 4 != 0,
        alpha_constant_expands: mask & 8 != 0,
    }
}

fn ops_oracle(ctx: &Ctx, ops: &Vec<Op>, case: &mut Case) -> Verdict {
    let b = build(ops, Deviations::default());
    case.note = Some(b.text.clone());
    for c in &b.classes {
        case.class(c);
    }
    let opts = VmOptions { count_and_continue: true, ..Default::default() };
    let r = texvm::run_program(&opts, &b.text);
    if b.undefined {
        return Verdict::Skip("TeX negates -2^31 here (undefined)");
    }
    let got = texvm::plain(&r.out);
    let nontrivial = !b.classes.is_empty();
    let agrees = |bb: &Built| r.error.is_none() && got == bb.expected && (r.recovered > 0) == (bb.errors > 0);
    if agrees(&b) {
        return Verdict::pass(nontrivial);
    }
    // listed deviations, smallest subsets first
    let listed: Vec<u32> = (0..4).filter(|i| ctx.known(&format!("flag:{}", FLAGS[*i as usize]))).collect();
    let mut masks: Vec<u32> = (1u32..16).filter(|m| (0..4).all(|i| m & (1 << i) == 0 || listed.contains(&i))).collect();
    masks.sort_by_key(|m| m.count_ones());
    for m in masks {
        let b2 = build(ops, dev_from_mask(m));
        if !b2.undefined && agrees(&b2) {
            let names: Vec<&str> = (0..4).filter(|i| m & (1 << i) != 0).map(|i| FLAGS[i as usize]).collect();
            return Verdict::Known(format!("flag:{}", names[0]));
        }
    }
    Verdict::Fail(format!(
        "output differs from TeX's arithmetic\nprogram:  {}\nexpected: {}  (errors: {})\ngot:      {}  (recovered errors: {}: {:?}; fatal: {:?})\nfirst difference at {}",
        b.text,
        b.expected,
        b.errors,
        got,
        r.recovered,
        r.recovered_titles.iter().take(4).collect::<Vec<_>>(),
        r.error,
        super::c01::first_diff(&b.expected, &got)
    ))
}

// ---- integer constants with terminators and leftovers

#[derive(Clone, Debug, Serialize, Deserialize)]
pub struct IntConstCase {
    signs: Signs,
    radix: u8,      // 0 dec, 1 oct, 2 hex
    digits: String, // may contain characters that are not digits of the radix (they end the number)
    term: u8,       // 0 space, 1 \relax, 2 ';', 3 'x'
}

fn int_const_oracle(c: &IntConstCase, case: &mut Case) -> Verdict {
    let radix: u32 = [10, 8, 16][(c.radix % 3) as usize];
    let mut text = String::from("\\count1=");
    c.signs.render(&mut text);
    match radix {
        8 => text.push('\''),
        16 => text.push('"'),
        _ => {}
    }
    text.push_str(&c.digits);
    // valid prefix: upper-case hex digits only (TeX accepts A-F of category 11 or 12, never a-f)
    let mut valid: Vec<u8> = vec![];
    let mut rest = String::new();
    let mut ended = false;
    for ch in c.digits.chars() {
        let d = match ch {
            '0'..='9' => Some(ch as u32 - '0' as u32),
            'A'..='F' => Some(ch as u32 - 'A' as u32 + 10),
            _ => None,
        };
        if !ended {
            if let Some(d) = d {
                if d < radix {
                    valid.push(d as u8);
                    continue;
                }
            }
            ended = true;
        }
        rest.push(ch);
    }
    let term = c.term % 4;
    if radix == 10 && c.digits.is_empty() && term == 0 {
        // "\\count1= \\the\\count1": blanks are skipped and the following \the is expanded into the number
        return Verdict::Skip("nothing between = and the reader");
    }
    let mut errors = 0;
    let (mut v, big) = ta::scan_digits(&valid, radix as i64);
    if big {
        errors += 1;
        case.class("too big");
    }
    let vacuous = valid.is_empty();
    if vacuous && rest.is_empty() && term == 0 {
        // TeX puts the blank back after "Missing number"; whether the blank survives the error
        // recovery is not part of the property's statement.
        return Verdict::Skip("missing number followed by a blank (recovery detail)");
    }
    if vacuous {
        errors += 1;
        case.class("missing number");
    }
    if c.signs.negative() {
        v = -v;
    }
    let mut expected = String::new();
    // leftovers are typeset; a space terminator is consumed only if it directly follows the digits
    expected.push_str(&rest);
    match term {
        0 => {
            text.push(' ');
            if !rest.is_empty() || vacuous {
                expected.push(' ');
            }
        }
        1 => text.push_str("\\relax "),
        2 => {
            text.push(';');
            expected.push(';');
        }
        _ => {
            text.push('x');
            expected.push('x');
        }
    }
    text.push_str("\\the\\count1;%");
    expected.push_str(&format!("{};", v));
    case.note = Some(text.clone());
    let opts = VmOptions { count_and_continue: true, ..Default::default() };
    let r = texvm::run_program(&opts, &text);
    let got = texvm::plain(&r.out);
    if vacuous {
        // Malformed input: the property only asks for a reported error (Texlang makes some of
        // these fatal where TeX recovers; recovery of malformed constants is not in its statement).
        return if r.recovered > 0 || r.error.is_some() { Verdict::pass(true) } else { Verdict::Fail(format!("no error reported for a missing number\nprogram: {}\ngot: {:?}", text, got)) };
    }
    if r.error.is_none() && got == expected && (r.recovered > 0) == (errors > 0) {
        return Verdict::pass(errors > 0 || !c.signs.0.is_empty() || radix != 10);
    }
    Verdict::Fail(format!("integer constant scanned differently from TeX\nprogram:  {}\nexpected: {:?} errors>0: {}\ngot:      {:?} recovered: {} {:?} fatal: {:?}", text, expected, errors > 0, got, r.recovered, r.recovered_titles, r.error))
}

fn int_const_strategy() -> impl Strategy<Value = IntConstCase> {
    (
        signs_strategy(),
        0u8..3,
        prop_oneof![
            3 => "[0-9]{1,12}",
            2 => "[0-7]{1,13}",
            2 => "[0-9A-F]{1,10}",
            1 => "[0-9A-Fa-f89]{0,6}",
            2 => proptest::sample::select(vec!["2147483647", "2147483648", "2147483650", "17777777777", "20000000000", "7FFFFFFF", "80000000", "FFFFFFFFF", "0", "00", "", "9", "G"]).prop_map(|s| s.to_string()),
        ],
        0u8..4,
    )
        .prop_map(|(signs, radix, digits, term)| IntConstCase { signs, radix, digits, term })
}

pub fn run(ctx: &Ctx) {
    ctx.rule("(a) every scaled value in the enumerated domain: Display/display_no_units equal TeX's print_scaled, parse_no_units and parse_from_string invert it, at most 5 fraction digits and no shorter fraction scans back; non-trivial = needs >=3 fraction digits. (b)-(e) proptest-generated sequences of assignments, coercions, \\advance, \\multiply, \\divide on count/dimen/skip registers (constants in every radix and unit, fractions of 0-20 digits, sign strings, internal quantities as values and as units, fil/fill/filll) rendered as one-line programs; every register is read back with \\the after each operation and the text plus the presence of recoverable errors must equal a transcription of TeX's scan_int/scan_dimen/scan_glue and arithmetic routines; non-trivial = touches an error/clamp path, a coercion, an internal unit, a fraction of >=3 digits, infinite glue or a wrap; distinct by program text");
    ctx.assume("operand values on which TeX itself negates -2^31 (undefined in Pascal) are skipped and counted");
    ctx.assume("\\mag is 1000 (the `true` keyword is a no-op); em = ex = 12pt (Texlang's default font quantities)");
    ctx.assume("recoverable errors are compared as present/absent per program, not by exact count");
    let pfs_known = ctx.known("flag:parse_from_string_negative");
    let tier = ctx.tier;
    // (a)
    match tier {
        Tier::Quick => {
            run_range(ctx, "scaled_small", -(1 << 20), 1 << 20, true, |s| check_scaled_value(s, pfs_known));
            // every multiple of 65537 and powers of two +-{0,1,2}
            let mut edge: Vec<i64> = vec![];
            let mut v = 0i64;
            while v <= ta::MAX_DIMEN {
                edge.push(v);
                edge.push(-v);
                v += 65537;
            }
            for k in 0..31 {
                for d in -2i64..=2 {
                    let x = (1i64 << k) + d;
                    if x.abs() <= ta::MAX_DIMEN {
                        edge.push(x);
                        edge.push(-x);
                    }
                }
            }
            edge.push(ta::MAX_DIMEN);
            edge.push(-ta::MAX_DIMEN);
            edge.sort();
            edge.dedup();
            let n = edge.len() as u64;
            run_indexed(ctx, "scaled_edges", n, true, |i| edge[i as usize], |s: &i64, _| match check_scaled_value(*s, pfs_known) {
                Ok(nt) => Verdict::pass(nt),
                Err(e) => Verdict::Fail(e),
            });
            run_generated(ctx, "scaled_random", 2_000_000, || -ta::MAX_DIMEN..=ta::MAX_DIMEN, |s: &i64, _| match check_scaled_value(*s, pfs_known) {
                Ok(nt) => Verdict::pass(nt),
                Err(e) => Verdict::Fail(e),
            });
        }
        Tier::Thorough => {
            run_range(ctx, "scaled_all", -ta::MAX_DIMEN, ta::MAX_DIMEN, true, |s| check_scaled_value(s, pfs_known));
        }
    }
    // (b)
    let n = tier.pick(60_000u64, 1_500_000u64);
    run_generated(ctx, "vm_int_constants", n, int_const_strategy, |c: &IntConstCase, case| int_const_oracle(c, case));
    // (c)-(e)
    let n = tier.pick(120_000u64, 4_000_000u64);
    run_generated(ctx, "vm_register_ops", n, || proptest::collection::vec(op_strategy(), 1..8), |ops: &Vec<Op>, case| ops_oracle(ctx, ops, case));
}
