//! C17 Font-metric arithmetic: fix_word text, store_scaled, table compression, NEXTLARGER
//! chains. Reference definitions live in `models::tfm_arith`.

use crate::engine::*;
use crate::models::tfm_arith as ma;
use proptest::collection::vec;
use proptest::prelude::*;
use serde::{de::DeserializeOwned, Deserialize, Serialize};
use std::collections::{BTreeMap, BTreeSet};
use std::fmt::Write as _;
use std::sync::atomic::{AtomicU64, Ordering};
use std::sync::Mutex;
use tfm::pl::ast::{Ast, Root};
use tfm::{Char, FixWord, NextLargerProgram, NextLargerProgramWarning};

const FLAG_MIDPOINT: &str = "flag:compress_midpoint_truncates_toward_zero";

// ------------------------------------------------------------------------------------
// Termination watchdog. `compress` and `NextLargerProgram::new` are loops over at most a few
// hundred items that return within microseconds. The verdict "does not terminate" is based on
// WORK, not on wall time: a call is reported as non-terminating once the helper thread that
// runs it has consumed WATCHDOG_CPU_SECS seconds of CPU time inside that one call (read from
// /proc/self/task/<tid>/schedstat, or .../stat), so a helper thread that is merely starved on
// an overloaded machine is waited for, not accused. A call that neither returns nor uses CPU
// for WATCHDOG_WALL_CAP_SECS, or a platform without per-thread CPU accounting, cannot be
// decided: the run ends INCONCLUSIVE (exit code 2), never green.
// After the first confirmed hang the function is not called again in this process (every
// further call would cost the full budget and leave another spinning thread behind), so a
// hanging case is reported unshrunk; the cases skipped for that reason can never turn into a
// pass of the run: `inconclusive_if_hung` ends the run with exit code 2 unless the hang itself
// has been recorded as the violation.

const WATCHDOG_CPU_SECS: u64 = 10;
const WATCHDOG_POLL_MS: u64 = 250;
const WATCHDOG_WALL_CAP_SECS: u64 = 1800;
const WATCHDOG_NO_ACCOUNTING_WALL_SECS: u64 = 120;
static HUNG: std::sync::atomic::AtomicBool = std::sync::atomic::AtomicBool::new(false);

const SKIP_AFTER_HANG: &str = "an earlier call did not terminate; the function is not called again in this process (the run cannot end green)";

enum Guarded<R> {
    Done(R),
    Panicked(panics::PanicInfo),
    /// CPU seconds used by the call when it was given up
    TimedOut(u64),
    NotCalled,
}

type Job = Box<dyn FnOnce() + Send + 'static>;

struct Helper {
    jobs: std::sync::mpsc::Sender<Job>,
    /// kernel thread id of the helper, when the platform tells
    tid: Option<u64>,
}

thread_local! {
    /// One helper thread per harness worker, created on first use and reused for every call.
    static HELPER: std::cell::RefCell<Option<Helper>> = const { std::cell::RefCell::new(None) };
}

/// CPU time (user+system, nanoseconds) consumed so far by thread `tid` of this process.
fn thread_cpu_ns(tid: u64) -> Option<u64> {
    if let Ok(s) = std::fs::read_to_string(format!("/proc/self/task/{tid}/schedstat")) {
        if let Some(ns) = s.split_whitespace().next().and_then(|f| f.parse::<u64>().ok()) {
            return Some(ns);
        }
    }
    // proc(5): after the parenthesised command name, utime and stime are the 12th and 13th
    // fields, in clock ticks of 1/100 s (USER_HZ).
    let s = std::fs::read_to_string(format!("/proc/self/task/{tid}/stat")).ok()?;
    let rest = &s[s.rfind(')')? + 1..];
    let f: Vec<&str> = rest.split_whitespace().collect();
    let (u, k) = (f.get(11)?.parse::<u64>().ok()?, f.get(12)?.parse::<u64>().ok()?);
    Some((u + k) * 10_000_000)
}

fn inconclusive(why: &str) -> ! {
    eprintln!("C17: INCONCLUSIVE: {why}");
    std::process::exit(2);
}

fn guarded<R: Send + 'static>(f: impl FnOnce() -> R + Send + 'static) -> Guarded<R> {
    if HUNG.load(Ordering::SeqCst) {
        return Guarded::NotCalled;
    }
    let (rtx, rrx) = std::sync::mpsc::channel();
    let job: Job = Box::new(move || {
        let _ = rtx.send(panics::catch(f));
    });
    let tid = HELPER.with(|h| {
        let mut h = h.borrow_mut();
        if h.is_none() {
            let (tx, rx) = std::sync::mpsc::channel::<Job>();
            let (tid_tx, tid_rx) = std::sync::mpsc::channel::<Option<u64>>();
            let spawned = std::thread::Builder::new().stack_size(8 << 20).spawn(move || {
                // "/proc/thread-self" -> "<pid>/task/<tid>"
                let tid = std::fs::read_link("/proc/thread-self").ok().and_then(|p| p.file_name().and_then(|n| n.to_str()).and_then(|n| n.parse::<u64>().ok()));
                let _ = tid_tx.send(tid);
                while let Ok(job) = rx.recv() {
                    job();
                }
            });
            if spawned.is_err() {
                inconclusive("cannot spawn a watchdog helper thread");
            }
            let tid = tid_rx.recv().ok().flatten().filter(|t| thread_cpu_ns(*t).is_some());
            *h = Some(Helper { jobs: tx, tid });
        }
        h.as_ref().unwrap().tid
    });
    // The helper is idle now, so this is its CPU time before the call.
    let cpu0 = tid.and_then(thread_cpu_ns);
    HELPER.with(|h| {
        if h.borrow().as_ref().unwrap().jobs.send(job).is_err() {
            inconclusive("watchdog helper thread is gone");
        }
    });
    let t0 = std::time::Instant::now();
    loop {
        match rrx.recv_timeout(std::time::Duration::from_millis(WATCHDOG_POLL_MS)) {
            Ok(Ok(r)) => return Guarded::Done(r),
            Ok(Err(p)) => return Guarded::Panicked(p),
            Err(std::sync::mpsc::RecvTimeoutError::Disconnected) => inconclusive("watchdog helper thread died inside a call"),
            Err(std::sync::mpsc::RecvTimeoutError::Timeout) => {}
        }
        let wall = t0.elapsed().as_secs();
        match (cpu0, tid.and_then(thread_cpu_ns)) {
            (Some(a), Some(b)) => {
                let used = b.saturating_sub(a) / 1_000_000_000;
                if used >= WATCHDOG_CPU_SECS {
                    HUNG.store(true, Ordering::SeqCst);
                    HELPER.with(|h| *h.borrow_mut() = None);
                    return Guarded::TimedOut(used);
                }
                if wall >= WATCHDOG_WALL_CAP_SECS {
                    inconclusive(&format!("a call has not returned after {wall} s of wall time but used only {used} s of CPU: cannot tell a hang from a starved thread"));
                }
            }
            _ => {
                if wall >= WATCHDOG_NO_ACCOUNTING_WALL_SECS {
                    inconclusive(&format!("a call has not returned after {wall} s and per-thread CPU time is not available on this platform: cannot tell a hang from a starved thread"));
                }
            }
        }
    }
}

/// A skipped-after-hang case must never contribute to a green run.
fn inconclusive_if_hung(ctx: &Ctx) {
    if HUNG.load(Ordering::SeqCst) && ctx.is_generate() && ctx.failures.lock().unwrap().is_empty() {
        inconclusive("a call was given up by the watchdog but no violation was recorded for it; cases were skipped afterwards");
    }
}

/// Verdict for a case that was not evaluated because of an earlier hang: a skip while the
/// generated search goes on (its failure is being reported), inconclusive in a replay.
fn skipped_after_hang(case: &Case) -> Verdict {
    if case.replay {
        inconclusive("replay case not evaluated: an earlier call in this process did not terminate");
    }
    Verdict::Skip(SKIP_AFTER_HANG)
}

// ------------------------------------------------------------------------------------
// Hot-loop driver (chunked, 16 workers, replay by value). The engine's `run_range` replays
// by index; here the stored case is the value itself so a replay does not depend on the seed.

#[derive(Default)]
struct Tally {
    evals: u64,
    nontrivial: u64,
    classes: BTreeMap<&'static str, u64>,
    skipped: BTreeMap<&'static str, u64>,
    samples: Vec<String>,
}

impl Tally {
    fn class(&mut self, c: &'static str, n: u64) {
        if n > 0 {
            *self.classes.entry(c).or_default() += n;
        }
    }
    #[allow(dead_code)]
    fn skip(&mut self, c: &'static str, n: u64) {
        if n > 0 {
            *self.skipped.entry(c).or_default() += n;
        }
    }
}

fn hot_loop<C>(
    ctx: &Ctx,
    sub: &str,
    chunks: u64,
    exhaustive: bool,
    work: impl Fn(u64, &mut Tally) -> Result<(), (C, String)> + Sync,
    single: impl Fn(&C) -> Verdict + Sync,
) where
    C: Serialize + DeserializeOwned + Send,
{
    match &ctx.mode {
        Mode::Replay { sub: s, case } => {
            if s != sub {
                return;
            }
            let c: C = match serde_json::from_value(case.clone()) {
                Ok(c) => c,
                Err(e) => {
                    eprintln!("replay file does not decode for {}:{}: {}", ctx.prop, sub, e);
                    std::process::exit(2);
                }
            };
            let v = match panics::catch(|| single(&c)) {
                Ok(v) => v,
                Err(p) => Verdict::Fail(format!("panic at {}: {}", p.site(), p.message)),
            };
            ctx.replay_verdicts.lock().unwrap().push((sub.to_string(), v));
            return;
        }
        Mode::Generate => {}
    }
    if ctx.stop.load(Ordering::SeqCst) {
        return;
    }
    let next = AtomicU64::new(0);
    let first_fail = AtomicU64::new(u64::MAX);
    let fails: Mutex<Vec<(u64, C, String)>> = Mutex::new(vec![]);
    let total: Mutex<Tally> = Mutex::new(Tally::default());
    std::thread::scope(|s| {
        for _ in 0..WORKERS {
            s.spawn(|| {
                let mut t = Tally::default();
                loop {
                    let i = next.fetch_add(1, Ordering::Relaxed);
                    if i >= chunks || i > first_fail.load(Ordering::Relaxed) {
                        break;
                    }
                    match panics::catch(|| work(i, &mut t)) {
                        Ok(Ok(())) => {}
                        Ok(Err((c, m))) => {
                            first_fail.fetch_min(i, Ordering::SeqCst);
                            fails.lock().unwrap().push((i, c, m));
                        }
                        Err(p) => {
                            // `work` catches panics of the code under test itself; anything
                            // arriving here is a defect of the harness: inconclusive.
                            eprintln!("{}:{}: panic inside the check itself at {}: {}", ctx.prop, sub, p.site(), p.message);
                            std::process::exit(2);
                        }
                    }
                }
                let mut g = total.lock().unwrap();
                g.evals += t.evals;
                g.nontrivial += t.nontrivial;
                for (k, v) in t.classes {
                    *g.classes.entry(k).or_default() += v;
                }
                for (k, v) in t.skipped {
                    *g.skipped.entry(k).or_default() += v;
                }
                for s in t.samples {
                    g.samples.push(s);
                }
            });
        }
    });
    let mut fs = fails.into_inner().unwrap();
    fs.sort_by_key(|f| f.0);
    let failed = !fs.is_empty();
    {
        let mut t = total.into_inner().unwrap();
        t.samples.sort();
        let mut st = ctx.stats.lock().unwrap();
        let e = st.entry(sub.to_string()).or_default();
        e.evaluations += t.evals;
        e.nontrivial += t.nontrivial;
        for (k, v) in t.classes {
            *e.classes.entry(k).or_default() += v;
        }
        for (k, v) in t.skipped {
            *e.skipped.entry(k).or_default() += v;
        }
        for s in t.samples.into_iter().take(3) {
            if e.samples.len() < 3 {
                e.samples.push(s);
            }
        }
        e.exhaustive = exhaustive && !failed;
        e.extra.insert("distinct_by_construction".into(), serde_json::json!(true));
    }
    if let Some((_, c, m)) = fs.into_iter().next() {
        ctx.fail_external(sub, &c, &m);
    }
}

// ------------------------------------------------------------------------------------
// (a) fix_word text

fn fmix32(mut h: u32) -> u32 {
    // murmur3 finaliser: a bijection on u32
    h ^= h >> 16;
    h = h.wrapping_mul(0x85eb_ca6b);
    h ^= h >> 13;
    h = h.wrapping_mul(0xc2b2_ae35);
    h ^= h >> 16;
    h
}

enum Seg {
    Range { lo: i64, n: u64 },
    Multiples { step: i64, kmin: i64, n: u64 },
    List(Vec<i32>),
    Mixed { n: u64, salt: u32 },
}

impl Seg {
    fn len(&self) -> u64 {
        match self {
            Seg::Range { n, .. } | Seg::Multiples { n, .. } | Seg::Mixed { n, .. } => *n,
            Seg::List(v) => v.len() as u64,
        }
    }
    fn at(&self, i: u64) -> i32 {
        match self {
            Seg::Range { lo, .. } => (*lo + i as i64) as i32,
            Seg::Multiples { step, kmin, .. } => ((*kmin + i as i64) * *step) as i32,
            Seg::List(v) => v[i as usize],
            Seg::Mixed { salt, .. } => fmix32((i as u32).wrapping_add(*salt)) as i32,
        }
    }
    fn contains(&self, v: i32) -> bool {
        match self {
            Seg::Range { lo, n } => (v as i64) >= *lo && ((v as i64) - *lo) < *n as i64,
            Seg::Multiples { step, .. } => (v as i64) % *step == 0,
            Seg::List(l) => l.binary_search(&v).is_ok(),
            Seg::Mixed { .. } => false,
        }
    }
}

struct Plan {
    segs: Vec<(u64, Seg)>,
    total: u64,
}

impl Plan {
    fn new(segs: Vec<Seg>) -> Plan {
        let mut start = 0;
        let mut out = vec![];
        for s in segs {
            let n = s.len();
            out.push((start, s));
            start += n;
        }
        Plan { segs: out, total: start }
    }
    /// (value, first time this value is enumerated?)
    fn at(&self, i: u64) -> (i32, bool) {
        let mut k = self.segs.len() - 1;
        while self.segs[k].0 > i {
            k -= 1;
        }
        let v = self.segs[k].1.at(i - self.segs[k].0);
        let fresh = !self.segs[..k].iter().any(|(_, s)| s.contains(v));
        (v, fresh)
    }
}

fn fix_edges() -> Vec<i32> {
    let mut v: Vec<i64> = vec![];
    for k in 0..=31 {
        let p = 1i64 << k;
        for s in [-1i64, 1] {
            for d in -2i64..=2 {
                v.push(s * p + d);
            }
        }
    }
    for n in [1i64, 2, 3, 9, 10, 11, 15, 16, 17, 99, 100, 127, 128, 255, 256, 999, 1000, 1023, 1024, 2046, 2047] {
        for d in -2i64..=2 {
            v.push((n << 20) + d);
            v.push(-(n << 20) + d);
        }
    }
    for j in 1..=7u32 {
        let p10 = 10i64.pow(j);
        for k in [1i64, 3, 5, 7, 9, p10 - 1] {
            let x = (k << 20) / p10;
            for d in -1i64..=1 {
                v.push(x + d);
                v.push(-(x + d));
            }
        }
    }
    let mut out: Vec<i32> = v.into_iter().filter(|&x| x > i32::MIN as i64 && x <= i32::MAX as i64).map(|x| x as i32).collect();
    out.sort_unstable();
    out.dedup();
    out
}

fn display_fix(v: i32, buf: &mut String) -> Result<(), String> {
    buf.clear();
    match panics::catch(|| write!(buf, "{}", FixWord(v))) {
        Ok(Ok(())) => Ok(()),
        Ok(Err(_)) => Err("Display returned fmt::Error".into()),
        Err(p) => Err(format!("Display panics at {}: {}", p.site(), p.message)),
    }
}

/// Display against TFtoPL §40–43, plus the two self-checks of the reference (the printed
/// decimal lies within half a fix_word unit of the value; PLtoTF's get_fix reads it back).
/// Returns the number of fraction digits.
fn check_display(v: i32, buf: &mut String, mb: &mut Vec<u8>) -> Result<usize, String> {
    display_fix(v, buf)?;
    mb.clear();
    ma::out_fix(v, mb)?;
    if buf.as_bytes() != &mb[..] {
        return Err(format!(
            "FixWord({v}) prints as {:?}; TFtoPL 40-43 prints {:?}",
            buf,
            String::from_utf8_lossy(mb)
        ));
    }
    let digits = ma::decimal_within_half_unit(mb, v).map_err(|e| format!("reference self-check: TFtoPL text {:?} for word {v}: {e}", String::from_utf8_lossy(mb)))?;
    match ma::get_fix(mb) {
        Some(r) if r == v => {}
        other => return Err(format!("reference self-check: PLtoTF get_fix reads {:?} as {:?}, word was {v}", String::from_utf8_lossy(mb), other)),
    }
    Ok(digits)
}

// The nodes of a property list that carry a fix_word. The printed text is read back inside
// each of them: the reader's handling of what follows the number (closing parenthesis,
// wrapper types `TupleValue`, `Option<FixWord>`, `DesignSize`, named parameters) differs per node.
#[derive(Clone, Copy, Debug, PartialEq, Eq)]
enum Carrier {
    Parameter,
    Slant,
    Kern,
    CharWd,
    CharHt,
    DesignUnits,
    DesignSize,
}

const CARRIERS: [Carrier; 7] = [Carrier::Parameter, Carrier::Slant, Carrier::Kern, Carrier::CharWd, Carrier::CharHt, Carrier::DesignUnits, Carrier::DesignSize];
const CARRIER_CLASSES: [&str; 7] = [
    "read back in (FONTDIMEN (PARAMETER D 1 R t) ..)",
    "read back in (FONTDIMEN (SLANT R t) ..)",
    "read back in (LIGTABLE (KRN C a R t) ..)",
    "read back in (CHARACTER C a (CHARWD R t) ..)",
    "read back in (CHARACTER C a (CHARHT R t) ..)",
    "read back in (DESIGNUNITS R t), t>0",
    "read back in (DESIGNSIZE R t), t>=1.0",
];

impl Carrier {
    /// PLtoTF accepts every fix_word in FONTDIMEN, KRN and CHAR.. nodes; DESIGNUNITS must be
    /// positive (PLtoTF 95) and DESIGNSIZE at least 1.0 (PLtoTF 94), so those two nodes carry
    /// only such values and every other value of their batches travels in a PARAMETER node.
    fn valid_for(self, v: i32) -> bool {
        match self {
            Carrier::DesignUnits => v > 0,
            Carrier::DesignSize => v >= 1 << 20,
            _ => true,
        }
    }
    fn for_value(self, v: i32) -> Carrier {
        if self.valid_for(v) {
            self
        } else {
            Carrier::Parameter
        }
    }
    fn idx(self) -> usize {
        CARRIERS.iter().position(|c| *c == self).unwrap()
    }
    fn wrap(self, text: &str, out: &mut String) {
        let (a, b) = match self {
            Carrier::Parameter => ("(FONTDIMEN (PARAMETER D 1 R ", "))\n"),
            Carrier::Slant => ("(FONTDIMEN (SLANT R ", "))\n"),
            Carrier::Kern => ("(LIGTABLE (KRN C a R ", "))\n"),
            Carrier::CharWd => ("(CHARACTER C a (CHARWD R ", "))\n"),
            Carrier::CharHt => ("(CHARACTER C a (CHARHT R ", "))\n"),
            Carrier::DesignUnits => ("(DESIGNUNITS R ", ")\n"),
            Carrier::DesignSize => ("(DESIGNSIZE R ", ")\n"),
        };
        out.push_str(a);
        out.push_str(text);
        out.push_str(b);
    }
    /// (opening of the enclosing list, opening of one item, closing of one item) for batches in
    /// which one list holds every value of the batch; `None` for the two root-level nodes.
    fn grouped(self) -> Option<(&'static str, &'static str, &'static str)> {
        match self {
            Carrier::Parameter => Some(("(FONTDIMEN\n", " (PARAMETER D 1 R ", ")\n")),
            Carrier::Slant => Some(("(FONTDIMEN\n", " (SLANT R ", ")\n")),
            Carrier::Kern => Some(("(LIGTABLE\n", " (KRN C a R ", ")\n")),
            Carrier::CharWd => Some(("(CHARACTER C a\n", " (CHARWD R ", ")\n")),
            Carrier::CharHt => Some(("(CHARACTER C a\n", " (CHARHT R ", ")\n")),
            Carrier::DesignUnits | Carrier::DesignSize => None,
        }
    }
    /// The fix_word the reader stored in this node, when the node has exactly the expected shape.
    fn extract(self, root: &Root) -> Option<i32> {
        let mut all = vec![];
        root_values(root, &mut all);
        match &all[..] {
            [(c, Some(v))] if *c == self => Some(*v),
            _ => None,
        }
    }
}

/// Every fix_word held by a root node, in source order, with the kind of node that holds it
/// (`None` for a child of an unexpected shape).
fn root_values(root: &Root, out: &mut Vec<(Carrier, Option<i32>)>) {
    use tfm::pl::ast::{Character, DesignSize, FontDimension, LigTable};
    match root {
        Root::FontDimension(b) => {
            for ch in &b.children {
                out.push(match ch {
                    FontDimension::IndexedParam(tv) if tv.left.0 == 1 => (Carrier::Parameter, Some(tv.right.0)),
                    FontDimension::NamedParam(tfm::NamedParameter::Slant, sv) => (Carrier::Slant, Some(sv.data.0)),
                    _ => (Carrier::Parameter, None),
                });
            }
        }
        Root::LigTable(b) => {
            for ch in &b.children {
                out.push(match ch {
                    LigTable::Kern(tv) if tv.left == Char(b'a') => (Carrier::Kern, Some(tv.right.0)),
                    _ => (Carrier::Kern, None),
                });
            }
        }
        Root::Character(b) if b.data == Char(b'a') => {
            for ch in &b.children {
                out.push(match ch {
                    Character::Width(sv) => (Carrier::CharWd, sv.data.map(|f| f.0)),
                    Character::Height(sv) => (Carrier::CharHt, Some(sv.data.0)),
                    _ => (Carrier::CharWd, None),
                });
            }
        }
        Root::DesignUnits(sv) => out.push((Carrier::DesignUnits, Some(sv.data.0))),
        Root::DesignSize(sv) => out.push((
            Carrier::DesignSize,
            match sv.data {
                DesignSize::Valid(f) => Some(f.0),
                DesignSize::Invalid => None,
            },
        )),
        _ => out.push((Carrier::Parameter, None)),
    }
}

fn parse_single_ast(v: i32, text: &str, carrier: Carrier) -> Result<(), String> {
    let mut src = String::new();
    carrier.wrap(text, &mut src);
    let (ast, warnings) = match panics::catch(|| Ast::from_pl_source_code(&src)) {
        Ok(r) => r,
        Err(p) => return Err(format!("PL reader panics on {:?} at {}: {}", src, p.site(), p.message)),
    };
    if !warnings.is_empty() {
        return Err(format!("PL reader warns on {:?}: {:?}", src, warnings));
    }
    match &ast.0[..] {
        [root] if carrier.extract(root) == Some(v) => Ok(()),
        other => Err(format!("FixWord({v}) prints as {text:?}; the PL reader reads {:?} back as {:?}", src, other)),
    }
}

fn parse_single_file(v: i32, text: &str) -> Result<(), String> {
    let src = format!("(FONTDIMEN\n   (PARAMETER D 3 R {text})\n   )\n(CHARACTER C a\n   (CHARWD R {text})\n   (CHARHT R {text})\n   (CHARDP R {text})\n   (CHARIC R {text})\n   )\n");
    let (file, warnings) = match panics::catch(|| tfm::pl::File::from_pl_source_code(&src)) {
        Ok(r) => r,
        Err(p) => return Err(format!("pl::File reader panics on {:?} at {}: {}", src, p.site(), p.message)),
    };
    if !warnings.is_empty() {
        return Err(format!("pl::File reader warns on {:?}: {:?}", src, warnings));
    }
    if file.params.len() != 3 || file.params[2].0 != v {
        return Err(format!("FixWord({v}) prints as {text:?}; pl::File reads the parameter back as {:?}", file.params));
    }
    let want = Some(FixWord(v));
    match file.char_dimens.get(&Char(b'a')) {
        Some(d) if d.width == want && d.height == want && d.depth == want && d.italic_correction == want => Ok(()),
        other => Err(format!("FixWord({v}) prints as {text:?}; pl::File reads the character dimensions back as {:?}", other)),
    }
}

/// The property-list WRITER: a `pl::File` holding the values is rendered with `display` (the
/// path `File::lower` -> `Ast::lower` -> `Parse::to_string` -> CST printer that produces .pl
/// files) and read again. Values travel as parameters (named and indexed), the four
/// dimensions of characters, kerns of one lig/kern program, and the design size when a value
/// can be one. Only identity of the values is demanded.
const WRITER_PARAMS: usize = 254;
const WRITER_CHARS: usize = 256;
const WRITER_KERNS: usize = 200;
const WRITER_BATCH: usize = WRITER_PARAMS + 4 * WRITER_CHARS + WRITER_KERNS;

#[derive(Default)]
struct WriterInfo {
    reader_warnings: usize,
    design_size: bool,
}

fn writer_round_trip(vals: &[i32], format: tfm::pl::CharDisplayFormat) -> Result<WriterInfo, String> {
    use tfm::ligkern::lang::{Instruction, Operation};
    let mut file = tfm::pl::File::default();
    let (pv, rest) = vals.split_at(vals.len().min(WRITER_PARAMS));
    let (dv, kv) = rest.split_at(rest.len().min(4 * WRITER_CHARS));
    file.params = pv.iter().map(|v| FixWord(*v)).collect();
    for (c, q) in dv.chunks(4).enumerate() {
        let g = |i: usize| q.get(i).map(|v| FixWord(*v));
        file.char_dimens.insert(Char(c as u8), tfm::pl::CharDimensions { width: Some(g(0).unwrap()), height: g(1), depth: g(2), italic_correction: g(3) });
    }
    if !kv.is_empty() {
        // one program: LABEL C <first character>, then one KRN per value, right characters 0..
        if !file.char_dimens.contains_key(&Char(0)) {
            file.char_dimens.insert(Char(0), tfm::pl::CharDimensions { width: Some(FixWord(0)), ..Default::default() });
        }
        for (i, v) in kv.iter().enumerate() {
            file.lig_kern_program.instructions.push(Instruction {
                next_instruction: if i + 1 == kv.len() { None } else { Some(0) },
                right_char: Char(i as u8),
                operation: Operation::Kern(FixWord(*v)),
            });
        }
        file.char_tags.insert(Char(0), tfm::pl::CharTag::Ligature(0));
    }
    let ds = vals.iter().copied().find(|v| *v >= 1 << 20);
    if let Some(ds) = ds {
        file.header.design_size = FixWord(ds);
    }
    let text = match panics::catch(|| format!("{}", file.display(3, format))) {
        Ok(t) => t,
        Err(p) => return Err(format!("the PL writer panics at {}: {}", p.site(), p.message)),
    };
    let (back, warnings) = match panics::catch(|| tfm::pl::File::from_pl_source_code(&text)) {
        Ok(r) => r,
        Err(p) => return Err(format!("pl::File reader panics on the writer's output at {}: {}", p.site(), p.message)),
    };
    let excerpt = |needle: String| -> String {
        text.lines().filter(|l| l.contains(&needle)).take(3).collect::<Vec<_>>().join(" | ")
    };
    if back.params != file.params {
        let k = (0..file.params.len()).find(|k| back.params.get(*k) != file.params.get(*k)).unwrap_or(back.params.len().min(file.params.len()));
        return Err(format!(
            "parameter {} = {:?} is written and read back as {:?} ({} parameters written, {} read; reader warnings {:?})",
            k + 1,
            file.params.get(k),
            back.params.get(k),
            file.params.len(),
            back.params.len(),
            warnings.iter().take(2).collect::<Vec<_>>()
        ));
    }
    if back.char_dimens != file.char_dimens {
        for (c, d) in &file.char_dimens {
            if back.char_dimens.get(c) != Some(d) {
                return Err(format!("character {} with {:?} is written and read back as {:?}; written text: {}", c.0, d, back.char_dimens.get(c), excerpt(format!("{}", d.width.unwrap_or_default()))));
            }
        }
        return Err(format!("{} characters written, {} read back", file.char_dimens.len(), back.char_dimens.len()));
    }
    let kerns = |f: &tfm::pl::File| -> Vec<(u8, Option<i32>)> {
        f.lig_kern_program.instructions.iter().map(|i| (i.right_char.0, match i.operation { Operation::Kern(k) => Some(k.0), _ => None })).collect()
    };
    let (kw, kb) = (kerns(&file), kerns(&back));
    if kw != kb {
        let k = (0..kw.len()).find(|k| kb.get(*k) != kw.get(*k)).unwrap_or(kb.len().min(kw.len()));
        return Err(format!("kern step {k} {:?} is written and read back as {:?} ({} steps written, {} read)", kw.get(k), kb.get(k), kw.len(), kb.len()));
    }
    if ds.is_some() && back.header.design_size != file.header.design_size {
        return Err(format!("design size {:?} is written and read back as {:?}", file.header.design_size, back.header.design_size));
    }
    Ok(WriterInfo { reader_warnings: warnings.len(), design_size: ds.is_some() })
}

/// i32::MIN: the word exists in TFM files (TFtoPL prints `-2048.0` for it), so `Display` must
/// not panic and must print what TFtoPL prints. The PL format cannot express the value
/// (PLtoTF 64 rejects every real constant of magnitude >= 2048), so identity of the read-back
/// is not demanded; the reader must not panic and must either report the number or return the
/// identical word, never silently another value.
fn check_min_word() -> Result<(), String> {
    let v = i32::MIN;
    let mut buf = String::new();
    let mut mb = vec![];
    display_fix(v, &mut buf)?;
    ma::out_fix(v, &mut mb)?;
    if buf.as_bytes() != &mb[..] || buf != "-2048.0" {
        return Err(format!("FixWord(i32::MIN) prints as {:?}; TFtoPL 40-43 prints {:?}", buf, String::from_utf8_lossy(&mb)));
    }
    if ma::get_fix(&mb).is_some() {
        return Err("reference self-check: PLtoTF get_fix accepts -2048.0".into());
    }
    for carrier in [Carrier::Parameter, Carrier::Kern, Carrier::CharWd] {
        let mut src = String::new();
        carrier.wrap(&buf, &mut src);
        let (ast, warnings) = match panics::catch(|| Ast::from_pl_source_code(&src)) {
            Ok(r) => r,
            Err(p) => return Err(format!("PL reader panics on {:?} at {}: {}", src, p.site(), p.message)),
        };
        let got = match &ast.0[..] {
            [root] => carrier.extract(root),
            _ => None,
        };
        if warnings.is_empty() && got != Some(v) {
            return Err(format!("the PL reader reads {:?} as {:?} without any warning (PLtoTF 64: real constants must be less than 2048)", src, got));
        }
    }
    // the writer must survive the word as well
    let mut file = tfm::pl::File::default();
    file.params = vec![FixWord(v)];
    file.char_dimens.insert(Char(b'a'), tfm::pl::CharDimensions { width: Some(FixWord(v)), height: Some(FixWord(v)), depth: None, italic_correction: None });
    match panics::catch(|| format!("{}", file.display(3, tfm::pl::CharDisplayFormat::Default))) {
        Ok(t) if t.matches("R -2048.0").count() == 3 => Ok(()),
        Ok(t) => Err(format!("the PL writer does not print `R -2048.0` three times for i32::MIN: {t:?}")),
        Err(p) => Err(format!("the PL writer panics on FixWord(i32::MIN) at {}: {}", p.site(), p.message)),
    }
}

fn fix_single(v: &i32) -> Verdict {
    let v = *v;
    if v == i32::MIN {
        return match check_min_word() {
            Ok(()) => Verdict::pass(false),
            Err(e) => Verdict::Fail(e),
        };
    }
    let mut buf = String::new();
    let mut mb = vec![];
    if let Err(e) = check_display(v, &mut buf, &mut mb) {
        return Verdict::Fail(e);
    }
    for c in CARRIERS {
        if c.valid_for(v) {
            if let Err(e) = parse_single_ast(v, &buf, c) {
                return Verdict::Fail(e);
            }
        }
    }
    if let Err(e) = parse_single_file(v, &buf) {
        return Verdict::Fail(e);
    }
    for format in [tfm::pl::CharDisplayFormat::Default, tfm::pl::CharDisplayFormat::Octal] {
        // as a parameter, as all four dimensions of a character, and as a kern
        let mut vals = vec![v; 2];
        vals.extend(std::iter::repeat(0).take(WRITER_PARAMS - 2));
        vals.extend([v; 4]);
        vals.extend(std::iter::repeat(0).take(4 * WRITER_CHARS - 4));
        vals.extend([v; 2]);
        if let Err(e) = writer_round_trip(&vals, format) {
            return Verdict::Fail(format!("PL writer: {e}"));
        }
    }
    Verdict::pass(v & 0xFFFFF != 0)
}

fn pinpoint(vals: &[i32], why: String) -> (i32, String) {
    for v in vals {
        if let Verdict::Fail(m) = fix_single(v) {
            return (*v, m);
        }
    }
    (vals[0], format!("{why}; every value of the batch passes when read alone (batch of {} starting at this value)", vals.len()))
}

const DIGIT_CLASSES: [&str; 8] = [
    "fraction_digits=0", "fraction_digits=1", "fraction_digits=2", "fraction_digits=3", "fraction_digits=4", "fraction_digits=5", "fraction_digits=6",
    "fraction_digits=7",
];

fn run_fixword_text(ctx: &Ctx) {
    let edges = fix_edges();
    let salt = mix(ctx.seed, 0xC17A) as u32;
    let (plan, exhaustive) = match ctx.tier {
        Tier::Quick => (
            Plan::new(vec![
                Seg::Range { lo: -((1 << 22) - 1), n: (1 << 23) - 1 },
                // 4099 * 523_904 < 2^31: no multiple wraps around
                Seg::Multiples { step: 4099, kmin: -523_904, n: 2 * 523_904 + 1 },
                Seg::List(edges.clone()),
                Seg::Mixed { n: 16_000_000, salt },
            ]),
            false,
        ),
        Tier::Thorough => (Plan::new(vec![Seg::Range { lo: -(i32::MAX as i64), n: u32::MAX as u64 }]), true),
    };
    const B: u64 = 4096;
    let chunks = plan.total.div_ceil(B);
    hot_loop(
        ctx,
        "fixword_text",
        chunks,
        exhaustive,
        |j, t: &mut Tally| {
            if j == 0 {
                // the one word outside the enumeration
                check_min_word().map_err(|e| (i32::MIN, e))?;
                t.evals += 1;
                t.class("i32::MIN: Display = TFtoPL `-2048.0`, reader rejects it (PL cannot express -2048.0)", 1);
            }
            let lo = j * B;
            let hi = ((j + 1) * B).min(plan.total);
            let batch_carrier = CARRIERS[(j % CARRIERS.len() as u64) as usize];
            let mut src = String::with_capacity((hi - lo) as usize * 48);
            if let Some((open, _, _)) = batch_carrier.grouped() {
                src.push_str(open);
            }
            let mut vals: Vec<(i32, Carrier)> = Vec::with_capacity((hi - lo) as usize);
            let mut buf = String::new();
            let mut mb: Vec<u8> = vec![];
            let mut digits = [0u64; 8];
            let mut carried = [0u64; 7];
            let (mut neg, mut big, mut nt) = (0u64, 0u64, 0u64);
            for i in lo..hi {
                let (v, fresh) = plan.at(i);
                if v == i32::MIN {
                    continue; // checked once above
                }
                let d = check_display(v, &mut buf, &mut mb).map_err(|e| (v, e))?;
                digits[d.min(7)] += 1;
                let carrier = batch_carrier.for_value(v);
                match batch_carrier.grouped() {
                    Some((_, a, b)) => {
                        src.push_str(a);
                        src.push_str(&buf);
                        src.push_str(b);
                    }
                    None => carrier.wrap(&buf, &mut src),
                }
                carried[carrier.idx()] += 1;
                vals.push((v, carrier));
                if v < 0 {
                    neg += 1;
                }
                if !(-(1 << 24)..(1 << 24)).contains(&v) {
                    big += 1;
                }
                if fresh && v & 0xFFFFF != 0 {
                    nt += 1;
                    if i % 1_000_003 == 0 {
                        t.samples.push(format!("FixWord({v}) <-> R {buf}"));
                    }
                }
            }
            if batch_carrier.grouped().is_some() {
                src.push_str(" )\n");
            }
            let plain: Vec<i32> = vals.iter().map(|x| x.0).collect();
            let (ast, warnings) = match panics::catch(|| Ast::from_pl_source_code(&src)) {
                Ok(r) => r,
                Err(p) => return Err(pinpoint(&plain, format!("PL reader panics at {}: {}", p.site(), p.message))),
            };
            let mut got: Vec<(Carrier, Option<i32>)> = Vec::with_capacity(vals.len());
            for root in &ast.0 {
                root_values(root, &mut got);
            }
            if !warnings.is_empty() || got.len() != vals.len() {
                return Err(pinpoint(&plain, format!("PL reader returns {} fix_word nodes and {} warnings for {} values", got.len(), warnings.len(), vals.len())));
            }
            for (g, &(v, carrier)) in got.iter().zip(vals.iter()) {
                if *g != (carrier, Some(v)) {
                    let mut b = String::new();
                    let _ = display_fix(v, &mut b);
                    return Err((v, format!("FixWord({v}) prints as {b:?} which the PL reader reads back in a {:?} node as {:?}", carrier, g)));
                }
            }
            t.evals += vals.len() as u64;
            t.nontrivial += nt;
            for (k, n) in digits.iter().enumerate() {
                t.class(DIGIT_CLASSES[k], *n);
            }
            for (k, n) in carried.iter().enumerate() {
                t.class(CARRIER_CLASSES[k], *n);
            }
            t.class("negative", neg);
            t.class("|value|>=16.0", big);
            Ok(())
        },
        fix_single,
    );
    ctx.extra("fixword_text", "values_enumerated", serde_json::json!(plan.total));

    // The same round trip through the complete reader pl::File::from_pl_source_code, 254
    // values per file: FONTDIMEN PARAMETER values (unrestricted fix_words) in even batches,
    // the four dimensions of 64 characters (252 values used) in odd batches.
    let n_mixed = ctx.tier.pick(200_000u64, 5_000_000u64);
    let plan2 = Plan::new(vec![Seg::List(edges.clone()), Seg::Mixed { n: n_mixed, salt: salt ^ 0x5555_5555 }]);
    const B2: u64 = 254;
    hot_loop(
        ctx,
        "fixword_text_file",
        plan2.total.div_ceil(B2),
        false,
        |j, t: &mut Tally| {
            let lo = j * B2;
            let hi = ((j + 1) * B2).min(plan2.total);
            let as_dimens = j % 2 == 1;
            const DIMS: [&str; 4] = ["CHARWD", "CHARHT", "CHARDP", "CHARIC"];
            let mut src = String::from(if as_dimens { "" } else { "(FONTDIMEN\n" });
            let mut vals: Vec<i32> = vec![];
            let mut buf = String::new();
            let (mut nt, mut neg, mut big) = (0u64, 0u64, 0u64);
            for i in lo..hi {
                let (v, fresh) = plan2.at(i);
                if v == i32::MIN {
                    continue; // see fixword_text
                }
                display_fix(v, &mut buf).map_err(|e| (v, e))?;
                let k = vals.len();
                vals.push(v);
                if as_dimens {
                    if k % 4 == 0 {
                        let _ = writeln!(src, "(CHARACTER D {}", k / 4);
                    }
                    let _ = writeln!(src, "   ({} R {})", DIMS[k % 4], buf);
                    if k % 4 == 3 || i + 1 == hi {
                        src.push_str("   )\n");
                    }
                } else {
                    let _ = writeln!(src, "   (PARAMETER D {} R {})", vals.len(), buf);
                }
                if fresh && v & 0xFFFFF != 0 {
                    nt += 1;
                }
                neg += (v < 0) as u64;
                big += !(-(1 << 24)..(1 << 24)).contains(&v) as u64;
            }
            if !as_dimens {
                src.push_str("   )\n");
            }
            let (file, warnings) = match panics::catch(|| tfm::pl::File::from_pl_source_code(&src)) {
                Ok(r) => r,
                Err(p) => return Err(pinpoint(&vals, format!("pl::File reader panics at {}: {}", p.site(), p.message))),
            };
            let got: Vec<Option<i32>> = if as_dimens {
                (0..vals.len())
                    .map(|k| {
                        file.char_dimens.get(&Char((k / 4) as u8)).and_then(|d| [d.width, d.height, d.depth, d.italic_correction][k % 4]).map(|f| f.0)
                    })
                    .collect()
            } else {
                file.params.iter().map(|p| Some(p.0)).collect()
            };
            if !warnings.is_empty() || got.len() != vals.len() {
                return Err(pinpoint(&vals, format!("pl::File reader returns {} values and {} warnings for {} values", got.len(), warnings.len(), vals.len())));
            }
            for (p, &v) in got.iter().zip(vals.iter()) {
                if *p != Some(v) {
                    let _ = display_fix(v, &mut buf);
                    return Err((v, format!("FixWord({v}) prints as {buf:?}; pl::File reads the {} back as {:?}", if as_dimens { "character dimension" } else { "parameter" }, p)));
                }
            }
            t.evals += vals.len() as u64;
            t.nontrivial += nt;
            t.class(if as_dimens { "read back as CHARWD/CHARHT/CHARDP/CHARIC" } else { "read back as PARAMETER" }, vals.len() as u64);
            t.class("negative", neg);
            t.class("|value|>=16.0", big);
            Ok(())
        },
        fix_single,
    );

    // The property-list writer (File::display), re-read.
    let n_mixed = ctx.tier.pick(150_000u64, 3_000_000u64);
    let plan3 = Plan::new(vec![Seg::List(edges), Seg::Mixed { n: n_mixed, salt: salt ^ 0x3333_CCCC }]);
    const B3: u64 = WRITER_BATCH as u64;
    hot_loop(
        ctx,
        "fixword_text_writer",
        plan3.total.div_ceil(B3),
        false,
        |j, t: &mut Tally| {
            let lo = j * B3;
            let hi = ((j + 1) * B3).min(plan3.total);
            let mut vals: Vec<i32> = vec![];
            let (mut nt, mut neg, mut big) = (0u64, 0u64, 0u64);
            for i in lo..hi {
                let (v, fresh) = plan3.at(i);
                if v == i32::MIN {
                    continue; // see fixword_text
                }
                vals.push(v);
                if fresh && v & 0xFFFFF != 0 {
                    nt += 1;
                }
                neg += (v < 0) as u64;
                big += !(-(1 << 24)..(1 << 24)).contains(&v) as u64;
            }
            let format = [tfm::pl::CharDisplayFormat::Default, tfm::pl::CharDisplayFormat::Ascii, tfm::pl::CharDisplayFormat::Octal][(j % 3) as usize];
            let info = match writer_round_trip(&vals, format) {
                Ok(i) => i,
                Err(e) => return Err(pinpoint(&vals, format!("PL writer, batch of {} values written as one file: {e}", vals.len()))),
            };
            t.evals += vals.len() as u64;
            t.nontrivial += nt;
            let n = vals.len();
            t.class("written as FONTDIMEN parameter", n.min(WRITER_PARAMS) as u64);
            t.class("written as CHARWD/CHARHT/CHARDP/CHARIC", n.saturating_sub(WRITER_PARAMS).min(4 * WRITER_CHARS) as u64);
            t.class("written as KRN", n.saturating_sub(WRITER_PARAMS + 4 * WRITER_CHARS) as u64);
            t.class("written as DESIGNSIZE", info.design_size as u64);
            t.class("files whose re-reading gives warnings (values still identical)", (info.reader_warnings > 0) as u64);
            t.class("negative", neg);
            t.class("|value|>=16.0", big);
            Ok(())
        },
        fix_single,
    );
}

// ------------------------------------------------------------------------------------
// (b) to_scaled

fn bij(x: u64, bits: u32, salt: u64) -> u64 {
    // composition of bijections on `bits`-bit integers
    let mask = (1u64 << bits) - 1;
    let h = bits / 2;
    let mut x = x.wrapping_add(salt) & mask;
    x ^= x >> h;
    x = x.wrapping_mul(0x9E37_79B9_7F4A_7C15) & mask;
    x ^= x >> (h + 1);
    x = x.wrapping_mul(0xBF58_476D_1CE4_E5B9) & mask;
    x ^= x >> h;
    x
}

fn scaled_grid() -> (Vec<i32>, Vec<i32>) {
    let mut vs: Vec<i64> = vec![0, -(1 << 24)];
    for k in 0..=24 {
        let p = 1i64 << k;
        for d in -2i64..=2 {
            vs.push(p + d);
            vs.push(-(p + d));
        }
    }
    for pat in [0x0000FFi64, 0x00FF00, 0xFF0000, 0x00FFFF, 0xFFFF00, 0xFF00FF, 0x010101, 0x800000, 0x7FFFFF, 0x555555, 0xAAAAAA, 0x0100FF, 0x01FF00, 0x7F7F7F, 0x808080, 0xFFFFFE] {
        vs.push(pat);
        vs.push(-pat);
        vs.push(pat - (1 << 24));
    }
    // cmr10-like dimensions
    for w in [349526i64, 1048579, 291271, 174763, 116508, 451470, 728178, 81556] {
        vs.push(w);
        vs.push(-w);
    }
    let mut vs: Vec<i32> = vs.into_iter().filter(|x| (-(1 << 24)..(1 << 24)).contains(x)).map(|x| x as i32).collect();
    vs.sort_unstable();
    vs.dedup();

    let mut ds: Vec<i64> = vec![];
    for e in 20..=30 {
        let p = 1i64 << e;
        for d in [0i64, 1, 2, 15, 16, 17, 31, 32, 33, 255, 256, 257] {
            ds.push(p + d);
            ds.push(2 * p - 1 - d);
        }
        ds.push(p + p / 2);
        ds.push(p + p / 3);
    }
    for n in [5i64, 6, 7, 8, 9, 10, 11, 12, 14, 17, 20, 25, 100, 1000, 2047] {
        ds.push(n << 20);
    }
    for x in [11_482_955i64, 12_582_912 + 7, 26_089_779, 10_485_760 + 8] {
        ds.push(x);
    }
    // `at` sizes below 1pt (TeX 568 accepts every 0 < s < 2048pt): z = word div 16 in [1, 2^16)
    for e in 4..=19 {
        let p = 1i64 << e;
        for d in [0i64, 1, 15, 16, 17] {
            ds.push(p + d);
            ds.push(2 * p - 1 - d);
        }
        ds.push(p + p / 3);
    }
    let mut ds: Vec<i32> = ds.into_iter().filter(|x| (16..(1i64 << 31)).contains(x)).map(|x| x as i32).collect();
    ds.sort_unstable();
    ds.dedup();
    (vs, ds)
}

#[derive(Clone, Copy, Debug)]
struct ScaledInfo {
    negative: bool,
    halvings: u32,
    exact: bool,
    below_1pt: bool,
}

fn check_to_scaled(v: i32, ds: i32) -> Result<ScaledInfo, String> {
    let got = match panics::catch(|| FixWord(v).to_scaled(FixWord(ds))) {
        Ok(s) => s.0 as i64,
        Err(p) => return Err(format!("FixWord({v}).to_scaled(FixWord({ds})) panics at {}: {}", p.site(), p.message)),
    };
    // Design sizes are at least 1pt (TeX 568 aborts below); a smaller word can only be an `at`
    // size, which TeX 568 substitutes for z before the same 571-572 arithmetic runs.
    let sc = if ds >= 1 << 20 { ma::tex_scale(ds) } else { ma::tex_scale_at((ds / 16) as i64) };
    let sc = sc.ok_or_else(|| format!("reference: TeX would abort on size word {ds}"))?;
    let want = ma::store_scaled(v, &sc).ok_or_else(|| format!("reference: store_scaled aborts on word {v}"))?;
    let (want2, exact) = ma::store_scaled_i128(v, ds).ok_or_else(|| format!("reference: closed form undefined for ({v},{ds})"))?;
    if want as i128 != want2 {
        return Err(format!("reference self-check: TeX 571 byte arithmetic gives {want}, closed form gives {want2} for word {v}, design size word {ds}"));
    }
    if got != want {
        return Err(format!(
            "FixWord({v}).to_scaled(FixWord({ds})) = {got} sp; TeX 571-572 store_scaled gives {want} sp (z'={}, alpha={}, beta={})",
            sc.z, sc.alpha, sc.beta
        ));
    }
    Ok(ScaledInfo { negative: v < 0, halvings: sc.halvings, exact, below_1pt: ds < 1 << 20 })
}

const HALVING_CLASSES: [&str; 5] = ["beta=16 (design size < 128pt)", "beta=8", "beta=4", "beta=2", "beta=1 (design size >= 1024pt)"];

fn run_to_scaled(ctx: &Ctx) {
    let (gv, gd) = scaled_grid();
    let grid = (gv.len() * gd.len()) as u64;
    let random = ctx.tier.pick(50_000_000u64, 1_000_000_000u64);
    // additional pairs with an `at` size below 1pt, 16 magnitude classes of the size word
    let random_low = ctx.tier.pick(4_000_000u64, 80_000_000u64);
    let total = grid + random + random_low;
    let salt = mix(ctx.seed, 0xC17B);
    let pair_at = |i: u64| -> (i32, i32, bool) {
        if i < grid {
            let (a, b) = ((i / gd.len() as u64) as usize, (i % gd.len() as u64) as usize);
            (gv[a], gd[b], true)
        } else {
            let i = i - grid;
            // magnitude class of the size word: [2^e, 2^(e+1))
            let (e, j) = if i < random { (20 + (i % 11) as u32, i / 11) } else { (4 + ((i - random) % 16) as u32, (i - random) / 16) };
            let h = bij(j, 25 + e, salt);
            let v = (h & ((1 << 25) - 1)) as i64 - (1 << 24);
            let ds = (1i64 << e) + (h >> 25) as i64;
            let v = v as i32;
            let ds = ds as i32;
            let fresh = !(gv.binary_search(&v).is_ok() && gd.binary_search(&ds).is_ok());
            (v, ds, fresh)
        }
    };
    const B: u64 = 1 << 16;
    hot_loop(
        ctx,
        "to_scaled",
        total.div_ceil(B),
        false,
        |j, t: &mut Tally| {
            let lo = j * B;
            let hi = ((j + 1) * B).min(total);
            let mut halv = [0u64; 5];
            let (mut neg, mut exact, mut nt, mut low) = (0u64, 0u64, 0u64, 0u64);
            for i in lo..hi {
                let (v, ds, fresh) = pair_at(i);
                let info = check_to_scaled(v, ds).map_err(|e| ((v, ds), e))?;
                halv[info.halvings.min(4) as usize] += 1;
                low += info.below_1pt as u64;
                if info.negative {
                    neg += 1;
                }
                if info.exact {
                    exact += 1;
                } else if fresh {
                    nt += 1;
                    if i % 1_000_003 == 0 {
                        t.samples.push(format!("FixWord({v}).to_scaled(FixWord({ds}))"));
                    }
                }
            }
            t.evals += hi - lo;
            t.nontrivial += nt;
            for (k, n) in halv.iter().enumerate() {
                t.class(HALVING_CLASSES[k], *n);
            }
            t.class("negative value", neg);
            t.class("no truncation (trivial)", exact);
            t.class("size below 1pt (an `at` size, z < 2^16)", low);
            Ok(())
        },
        |&(v, ds): &(i32, i32)| {
            if !(-(1 << 24)..(1 << 24)).contains(&v) || ds < 16 {
                return Verdict::Skip("outside TeX's legal ranges");
            }
            match check_to_scaled(v, ds) {
                Ok(i) => Verdict::pass(!i.exact),
                Err(e) => Verdict::Fail(e),
            }
        },
    );
    ctx.extra("to_scaled", "grid_pairs", serde_json::json!(grid));
}

// ------------------------------------------------------------------------------------
// (c) compress

#[derive(Clone, Debug, Serialize, Deserialize)]
pub struct CompressCase {
    pub values: Vec<i32>,
    pub limit: u8,
}

const LEGAL: i32 = 1 << 24;

fn clamp_legal(x: i64) -> i32 {
    x.clamp(-(LEGAL as i64) + 1, LEGAL as i64 - 1) as i32
}

const FIX_MAX: i32 = i32::MAX; // 2047.999999..., the largest PL real

fn compress_strategy() -> impl Strategy<Value = CompressCase> {
    let small = vec(-24i32..=24, 0..=300);
    let lattice = (1i32..=2000, -60i32..=60, vec((0i32..=80, 0u8..=9), 0..=300)).prop_map(|(step, off, ks)| {
        ks.into_iter().map(|(k, j)| clamp_legal((k + off) as i64 * step as i64 + if j == 0 { 1 } else { 0 })).collect::<Vec<i32>>()
    });
    let clustered = (vec(-LEGAL + 1..LEGAL, 1..=24), vec((any::<u16>(), -200i32..=200), 0..=300)).prop_map(|(centres, pts)| {
        pts.into_iter().map(|(p, o)| clamp_legal(centres[pick_idx(p, centres.len())] as i64 + o as i64)).collect::<Vec<i32>>()
    });
    let wide = vec(-LEGAL + 1..LEGAL, 0..=300);
    // dimensions as PL files have them: thousandths of the design size, rounded to fix_words
    let afm = vec(-300i32..=1000, 0..=300).prop_map(|ks| ks.into_iter().map(|k| ((k as i64 * (1 << 20) + if k >= 0 { 500 } else { -500 }) / 1000) as i32).collect::<Vec<i32>>());
    // --- raw PL reals, as `From<pl::File>` passes them (DESIGNUNITS is not applied before the
    // tables are compressed, in PLtoTF as well): magnitudes up to 2047.999999, 33-bit differences
    // the whole 32-bit range
    let full = vec(-FIX_MAX..=FIX_MAX, 0..=300);
    // (DESIGNUNITS R 1000): integers and halves of AFM units
    let units = vec((-300i32..=1000, 0u8..=7), 0..=300).prop_map(|ks| ks.into_iter().map(|(k, h)| k * (1 << 20) + if h == 0 { 1 << 19 } else { 0 }).collect::<Vec<i32>>());
    // clusters at the ends and in the middle of the range: gaps of about 2^30, 2^31 and 2^32,
    // among them pairs exactly 2^31-1 apart
    let anchors: [i64; 9] = [-(FIX_MAX as i64), -(1 << 30), -(1 << 30) - 1, -1, 0, 1 << 30, (1 << 30) - 1, FIX_MAX as i64 - (1 << 30), FIX_MAX as i64];
    let extremes = vec((0usize..9, 0i64..=40, 0u8..=3), 0..=300).prop_map(move |pts| {
        pts.into_iter()
            .map(|(a, o, z)| {
                let o = if z == 0 { 0 } else { o };
                let x = if anchors[a] > 0 { anchors[a] - o } else { anchors[a] + o };
                x.clamp(-(FIX_MAX as i64), FIX_MAX as i64) as i32
            })
            .collect::<Vec<i32>>()
    });
    // pairs (x, x + 2^31 - 1): the tolerance 2^31-1 is the largest a 32-bit word can hold
    let max_gap = (vec((-FIX_MAX..=0, 0i32..=3), 1..=6), vec(-FIX_MAX..=FIX_MAX, 0..=6)).prop_map(|(pairs, others)| {
        let mut v = others;
        for (x, o) in pairs {
            v.push(x);
            v.push((x as i64 + FIX_MAX as i64 - o as i64) as i32);
        }
        v
    });
    // the word i32::MIN (-2048.0): cannot come from a PL file but is a FixWord
    let with_min = (vec(any::<i32>(), 0..=40), vec(-8i32..=8, 0..=8)).prop_map(|(mut v, near)| {
        v.push(i32::MIN);
        v.extend(near.into_iter().map(|o| if o < 0 { i32::MAX + o } else { i32::MIN + o }));
        v
    });
    // more than 255 distinct values: increasing by construction, then shuffled. This is what
    // `compress(widths, 255)` sees for a font whose 256 characters all differ in width.
    let many_distinct = (-(1i64 << 24)..(1i64 << 23), vec(1i64..=3000, 256..=300), any::<bool>())
        .prop_map(|(start, gaps, big)| {
            let mut x = start;
            gaps.into_iter()
                .map(|g| {
                    x += if big { g * 2000 } else { g };
                    x as i32
                })
                .collect::<Vec<i32>>()
        })
        .prop_shuffle();
    let values = prop_oneof![
        3 => small,
        3 => lattice,
        2 => clustered,
        2 => wide,
        2 => afm,
        2 => full,
        2 => units,
        2 => extremes,
        1 => max_gap,
        1 => with_min,
    ];
    let limit = prop_oneof![
        3 => 1u8..=8,
        2 => Just(15u8),
        1 => Just(63u8),
        1 => Just(255u8),
        4 => 1u8..=255,
    ];
    // Heights, depths and italic corrections of real fonts are mostly non-negative: half of
    // the cases use magnitudes only.
    let general = (values, limit, any::<bool>())
        .prop_map(|(values, limit, magnitudes)| CompressCase { values: if magnitudes { values.into_iter().map(|v| v.saturating_abs()).collect() } else { values }, limit });
    let widths = (many_distinct, prop_oneof![3 => Just(255u8), 2 => 128u8..=255, 1 => 1u8..=255]).prop_map(|(values, limit)| CompressCase { values, limit });
    prop_oneof![
        10 => general,
        1 => widths,
    ]
}

#[derive(Debug, Default)]
struct CompressInfo {
    classes: usize,
    dstar: i64,
    /// classes whose representative is not PLtoTF's midpoint: (l, u, representative found)
    bad_midpoints: Vec<(i64, i64, i64)>,
    odd_negative_sum_class: bool,
}

/// The validity predicate of C17(c), applied to any (table, value→index) answer.
fn compress_valid(sorted: &[i64], limit: usize, table: &[i64], index_of: &BTreeMap<i64, usize>) -> Result<CompressInfo, String> {
    let n = sorted.len();
    if table.first() != Some(&0) {
        return Err(format!("table does not start with the zero entry: {:?}", table.first()));
    }
    let k = table.len() - 1;
    if k > limit {
        return Err(format!("{k} classes returned, limit is {limit}"));
    }
    if index_of.len() != n {
        return Err(format!("index map has {} keys, there are {} distinct inputs", index_of.len(), n));
    }
    let mut idx: Vec<usize> = Vec::with_capacity(n);
    for s in sorted {
        match index_of.get(s) {
            Some(&i) if i >= 1 && i <= k => idx.push(i),
            Some(&i) => return Err(format!("input {s} maps to index {i}, table has classes 1..={k}")),
            None => return Err(format!("input {s} has no class")),
        }
    }
    // classes are consecutive runs of the sorted distinct inputs, numbered 1..=k in order
    if n == 0 {
        if k != 0 {
            return Err(format!("no inputs but {k} classes"));
        }
    } else {
        if idx[0] != 1 {
            return Err(format!("smallest input {} is in class {}, not 1", sorted[0], idx[0]));
        }
        for w in 0..n - 1 {
            if idx[w + 1] != idx[w] && idx[w + 1] != idx[w] + 1 {
                return Err(format!(
                    "classes are not consecutive intervals: {} is in class {}, the next input {} in class {}",
                    sorted[w],
                    idx[w],
                    sorted[w + 1],
                    idx[w + 1]
                ));
            }
        }
        if idx[n - 1] != k {
            return Err(format!("largest input is in class {}, table has {k} classes (empty class)", idx[n - 1]));
        }
    }
    let dstar = ma::smallest_tolerance(sorted, limit);
    let mut info = CompressInfo { classes: k, dstar, ..Default::default() };
    let mut spread = 0i64;
    let mut w = 0usize;
    while w < n {
        let mut e = w;
        while e + 1 < n && idx[e + 1] == idx[w] {
            e += 1;
        }
        let (l, u) = (sorted[w], sorted[e]);
        spread = spread.max(u - l);
        let rep = table[idx[w]];
        if (l + u) < 0 && (l + u) % 2 != 0 {
            info.odd_negative_sum_class = true;
        }
        if rep != ma::midpoint(l, u, ma::Midpoint::PlToTf) {
            info.bad_midpoints.push((l, u, rep));
        }
        for &s in &sorted[w..=e] {
            // within half the tolerance, on the fix_word grid: |s-rep| <= ceil(dstar/2)
            if 2 * (s - rep).abs() > dstar + 1 {
                return Err(format!(
                    "input {s} is {} away from its representative {rep}; half the smallest tolerance {dstar} is {}",
                    (s - rep).abs(),
                    (dstar + 1) / 2
                ));
            }
        }
        w = e + 1;
    }
    if spread != dstar {
        return Err(format!(
            "largest class spread is {spread}; the smallest tolerance for which {limit} intervals cover the {n} distinct inputs is {dstar}"
        ));
    }
    Ok(info)
}

fn compress_oracle(ctx: &Ctx, c: &CompressCase, case: &mut Case) -> Verdict {
    if c.limit == 0 {
        return Verdict::Skip("class limit 0 is outside 1..=255");
    }
    if c.values.len() > 300 {
        return Verdict::Skip("outside the stated domain (<=300 values)");
    }
    let limit = c.limit as usize;
    let input: Vec<FixWord> = c.values.iter().map(|v| FixWord(*v)).collect();
    let lim = c.limit;
    let (table, map) = match guarded(move || tfm::compress(&input, lim)) {
        Guarded::Done(r) => r,
        Guarded::Panicked(p) => return Verdict::Fail(format!("compress(values, {}) panics at {}: {}\nvalues: {:?}", c.limit, p.site(), p.message, c.values)),
        Guarded::TimedOut(cpu) => return Verdict::Fail(format!("compress(values, {}) has not returned after {cpu} s of CPU time (it normally takes microseconds): it does not terminate\nvalues: {:?}", c.limit, c.values)),
        Guarded::NotCalled => return skipped_after_hang(case),
    };
    let sorted: Vec<i64> = c.values.iter().map(|v| *v as i64).collect::<BTreeSet<i64>>().into_iter().collect();
    let n = sorted.len();
    let table: Vec<i64> = table.iter().map(|f| f.0 as i64).collect();
    let index_of: BTreeMap<i64, usize> = map.iter().map(|(k, v)| (k.0 as i64, v.get() as usize)).collect();

    case.class_if(n > limit, "needs compression");
    case.class_if(n < c.values.len(), "has duplicates");
    case.class_if(sorted.first().is_some_and(|v| *v < 0), "has negative values");
    case.class_if(n >= 100, "distinct>=100");
    case.class_if(n > 255, "distinct>255");
    case.class_if(n > limit && limit >= 128, "needs compression with limit>=128");
    case.class_if(n > limit && limit == 255, "needs compression with limit=255 (widths)");
    case.class_if(n > limit && (limit == 15 || limit == 63), "needs compression with limit 15 or 63 (heights, depths, italics)");
    let outside = sorted.first().is_some_and(|v| *v <= -(LEGAL as i64)) || sorted.last().is_some_and(|v| *v >= LEGAL as i64);
    let range = sorted.last().copied().unwrap_or(0) - sorted.first().copied().unwrap_or(0);
    case.class_if(outside, "has |value|>=16.0 (raw PL real)");
    case.class_if(outside && n > limit, "has |value|>=16.0 and needs compression");
    case.class_if(range > i32::MAX as i64, "range needs 33 bits");
    case.class_if(range > i32::MAX as i64 && n > limit && limit >= 2, "range needs 33 bits, needs compression, limit>=2");
    case.class_if(sorted.first() == Some(&(i32::MIN as i64)), "contains i32::MIN");
    case.note = Some(format!("limit {} for {} values ({} distinct): {:?}", c.limit, c.values.len(), n, c.values));

    let info = match compress_valid(&sorted, limit, &table, &index_of) {
        Ok(i) => i,
        Err(e) => return Verdict::Fail(format!("compress(values, {}) is not a valid answer: {e}\nvalues (sorted, distinct): {:?}\ntable: {:?}", c.limit, sorted, table)),
    };
    // PLtoTF's own search must find the same tolerance as the brute-force definition. (A
    // cross-check between two references; its linear search costs up to n^3 steps, so above 100
    // distinct values it runs on every fourth case, chosen by the case's content.)
    if n <= 100 || fnv64(&sorted.iter().flat_map(|v| v.to_le_bytes()).collect::<Vec<u8>>()) % 4 == 0 {
        let d_knuth = ma::shorten(&sorted, limit);
        if d_knuth != info.dstar {
            return Verdict::Fail(format!("reference self-check: PLtoTF shorten gives {d_knuth}, brute force gives {} for {:?} limit {limit}", info.dstar, sorted));
        }
        case.class("reference tolerance cross-checked with PLtoTF 76 shorten");
    }
    // For small inputs: the tolerance straight from the statement (every cutting into runs).
    if let Some(d_def) = ma::smallest_tolerance_by_enumeration(&sorted, limit).filter(|_| n <= 12) {
        if d_def != info.dstar {
            return Verdict::Fail(format!("reference self-check: enumeration of all cuttings gives tolerance {d_def}, greedy brute force gives {} for {:?} limit {limit}", info.dstar, sorted));
        }
        case.class("tolerance confirmed by enumerating every cutting (n<=12)");
    }
    case.class_if(info.dstar >= i32::MAX as i64 && limit >= 2, "smallest tolerance >= 2^31-1 with limit>=2");
    case.class_if(info.dstar > (1 << 30) && n > limit, "smallest tolerance > 2^30");
    case.class_if(info.odd_negative_sum_class, "class with odd negative l+u");
    if n > limit {
        case.class_if(info.classes < limit, "fewer classes than the limit");
        // Informational: PLtoTF stops merging once the table fits (`excess`), the full greedy
        // cover may merge more. Both satisfy the property.
        let (gi, _) = ma::set_indices(&sorted, info.dstar, None, ma::Midpoint::PlToTf);
        let (pi, _) = ma::set_indices(&sorted, info.dstar, Some(n - limit), ma::Midpoint::PlToTf);
        let got: Vec<usize> = sorted.iter().map(|s| index_of[s]).collect();
        case.class_if(got == gi, "partition = full greedy cover");
        case.class_if(got == pi, "partition = PLtoTF set_indices (excess rule)");
        case.class_if(gi != pi, "PLtoTF excess rule gives another partition");
    }
    if !info.bad_midpoints.is_empty() {
        let explained = info.bad_midpoints.iter().all(|&(l, u, rep)| rep == ma::midpoint(l, u, ma::Midpoint::SumTruncatedTowardZero));
        if explained && ctx.known(FLAG_MIDPOINT) {
            return Verdict::Known(FLAG_MIDPOINT.into());
        }
        let (l, u, rep) = info.bad_midpoints[0];
        return Verdict::Fail(format!(
            "compress(values, {}): class [{l}, {u}] is represented by {rep}; PLtoTF 78 stores l+(u-l) div 2 = {}{}\nvalues (sorted, distinct): {:?}\ntable: {:?}",
            c.limit,
            ma::midpoint(l, u, ma::Midpoint::PlToTf),
            if explained { " (all differences are explained by (l+u)/2 truncated toward zero)" } else { "" },
            sorted,
            table
        ));
    }
    Verdict::pass(n > limit)
}

/// Exhaustive small scope: every subset of a 12-point universe with every limit 1..=12.
const SMALL_UNIVERSE: [i32; 12] = [-14, -9, -8, -5, -3, -2, 0, 1, 4, 6, 7, 13];

fn compress_small_case(i: u64) -> CompressCase {
    let subset = i % (1 << 12);
    let limit = (i >> 12) as u8 + 1;
    let values = (0..12).filter(|b| subset >> b & 1 == 1).map(|b| SMALL_UNIVERSE[b]).collect();
    CompressCase { values, limit }
}

/// Second exhaustive scope, raw PL reals: both ends of the 32-bit range (with i32::MIN), the
/// middle, and points 2^30 and 2^31-1 apart, so that gaps, tolerances and sums need 33 bits.
const WIDE_UNIVERSE: [i32; 12] =
    [-i32::MAX, 0, i32::MAX, -(1 << 30) - 1, -(1 << 30), -1, 1, (1 << 30) - 1, 1 << 30, (1 << 30) + 2, i32::MAX - 1, i32::MIN];

fn compress_small_wide_case(i: u64) -> CompressCase {
    let subset = i % (1 << 12);
    let limit = (i >> 12) as u8 + 1;
    let values = (0..12).filter(|b| subset >> b & 1 == 1).map(|b| WIDE_UNIVERSE[b]).collect();
    CompressCase { values, limit }
}

// ------------------------------------------------------------------------------------
// (c') compress as its production caller uses it: PL text -> pl::File -> tfm::File. The four
// tables of the TFM file are compress(widths, 255), compress(heights, 15), compress(depths, 15),
// compress(italic corrections, 63) of the RAW reals of the PL file (PLtoTF 75-80 works on the
// values as written too; DESIGNUNITS only matters when the words are output).

#[derive(Clone, Debug, Serialize, Deserialize)]
pub struct PlCallerCase {
    /// (DESIGNUNITS R n), 0 = no such property
    pub design_units: u16,
    /// per character (code = position): width, height, depth, italic correction as fix_words
    /// (a dimension equal to i32::MIN is not written)
    pub chars: Vec<[i32; 4]>,
}

fn pl_caller_strategy() -> impl Strategy<Value = PlCallerCase> {
    // one generator of dimension values per column; few distinct values (no compression), AFM
    // units, the whole PL range, and the ends of the range
    fn column(n: usize) -> impl Strategy<Value = Vec<i32>> {
        prop_oneof![
            2 => (vec(-FIX_MAX..=FIX_MAX, 1..=6), vec(any::<u16>(), n)).prop_map(|(pool, picks)| picks.into_iter().map(|p| pool[pick_idx(p, pool.len())]).collect::<Vec<i32>>()),
            3 => vec((-300i32..=1000, 0u8..=5), n).prop_map(|ks| ks.into_iter().map(|(k, h)| k * (1 << 20) + if h == 0 { 1 << 19 } else { 0 }).collect::<Vec<i32>>()),
            2 => vec(-FIX_MAX..=FIX_MAX, n),
            2 => vec(-LEGAL + 1..LEGAL, n),
            1 => vec((0u8..=4, 0i32..=30), n).prop_map(|ks| ks.into_iter().map(|(a, o)| match a { 0 => -FIX_MAX + o, 1 => FIX_MAX - o, 2 => o - 15, 3 => (1 << 30) + o, _ => -(1 << 30) - o }).collect::<Vec<i32>>()),
            1 => Just(vec![0; n]),
        ]
    }
    prop_oneof![3 => 1usize..=40, 2 => 41usize..=255, 3 => Just(256usize)].prop_flat_map(|n| {
        (prop_oneof![2 => Just(0u16), 2 => Just(1000u16), 1 => 1u16..=2047], column(n), column(n), column(n), column(n), any::<bool>()).prop_map(|(design_units, w, h, d, i, magnitudes)| {
            let f = |x: i32| if magnitudes { x.saturating_abs() } else { x };
            PlCallerCase { design_units, chars: (0..w.len()).map(|k| [w[k], f(h[k]), f(d[k]), i[k]]).collect() }
        })
    })
}

fn pl_caller_oracle(c: &PlCallerCase, case: &mut Case) -> Verdict {
    if c.chars.len() > 256 {
        return Verdict::Skip("more than 256 characters");
    }
    // The PL text is written with the reference printer (TFtoPL 40-43), not with the code under test.
    let mut src = String::new();
    if c.design_units > 0 {
        let _ = writeln!(src, "(DESIGNUNITS R {}.0)", c.design_units);
    }
    const DIMS: [&str; 4] = ["CHARWD", "CHARHT", "CHARDP", "CHARIC"];
    let mut mb = vec![];
    for (code, dims) in c.chars.iter().enumerate() {
        let _ = writeln!(src, "(CHARACTER D {code}");
        for (k, v) in dims.iter().enumerate() {
            if *v == i32::MIN {
                continue;
            }
            mb.clear();
            if let Err(e) = ma::out_fix(*v, &mut mb) {
                return Verdict::Fail(format!("reference: {e}"));
            }
            let _ = writeln!(src, "   ({} R {})", DIMS[k], String::from_utf8_lossy(&mb));
        }
        src.push_str("   )\n");
    }
    let (pl, _warnings) = match panics::catch(|| tfm::pl::File::from_pl_source_code(&src)) {
        Ok(r) => r,
        Err(p) => return Verdict::Fail(format!("pl::File reader panics at {}: {}\n{}", p.site(), p.message, src)),
    };
    // The multisets handed to compress are those the reader produced (what (a) is about is not
    // decided again here).
    let read: BTreeMap<u8, [Option<i32>; 4]> = pl.char_dimens.iter().map(|(ch, d)| (ch.0, [d.width.map(|f| f.0), d.height.map(|f| f.0), d.depth.map(|f| f.0), d.italic_correction.map(|f| f.0)])).collect();
    if read.len() != c.chars.len() {
        return Verdict::Fail(format!("{} CHARACTER lists written, pl::File has {} characters\n{}", c.chars.len(), read.len(), src));
    }
    let tfm_file = match guarded(move || tfm::File::from(pl)) {
        Guarded::Done(f) => f,
        Guarded::Panicked(p) => return Verdict::Fail(format!("tfm::File::from(pl::File) panics at {}: {}\n{}", p.site(), p.message, src)),
        Guarded::TimedOut(cpu) => return Verdict::Fail(format!("tfm::File::from(pl::File) has not returned after {cpu} s of CPU time: it does not terminate\n{}", src)),
        Guarded::NotCalled => return skipped_after_hang(case),
    };
    const LIMITS: [usize; 4] = [255, 15, 15, 63];
    const NAMES: [&str; 4] = ["width", "height", "depth", "italic correction"];
    let mut any_compression = false;
    for k in 0..4 {
        let table: Vec<i64> = [&tfm_file.widths, &tfm_file.heights, &tfm_file.depths, &tfm_file.italic_corrections][k].iter().map(|f| f.0 as i64).collect();
        // PLtoTF 74 (sort_in): a zero height, depth or italic correction is not entered in its
        // list and has index 0; every width is entered (a missing CHARWD counts as width 0).
        let mut index_of: BTreeMap<i64, usize> = BTreeMap::new();
        let mut values: BTreeSet<i64> = BTreeSet::new();
        for (code, dims) in &read {
            let v = match (k, dims[k]) {
                (0, v) => v.unwrap_or(0) as i64,
                (_, v) => v.unwrap_or(0) as i64,
            };
            let Some(cd) = tfm_file.char_dimens.get(&Char(*code)) else {
                return Verdict::Fail(format!("character {code} of the PL file is missing from the TFM file\n{src}"));
            };
            let idx = match k {
                0 => match cd.width_index {
                    tfm::WidthIndex::Valid(i) => i.get() as usize,
                    _ => return Verdict::Fail(format!("character {code} has no valid width index\n{src}")),
                },
                1 => cd.height_index as usize,
                2 => cd.depth_index as usize,
                _ => cd.italic_index as usize,
            };
            if k > 0 && v == 0 {
                if idx != 0 {
                    return Verdict::Fail(format!("character {code}: {} 0 has index {idx}, PLtoTF 74 gives index 0\n{src}", NAMES[k]));
                }
                continue;
            }
            values.insert(v);
            if let Some(prev) = index_of.insert(v, idx) {
                if prev != idx {
                    return Verdict::Fail(format!("{} {v} has index {prev} for one character and {idx} for character {code}\n{src}", NAMES[k]));
                }
            }
        }
        let sorted: Vec<i64> = values.into_iter().collect();
        if table.is_empty() {
            return Verdict::Fail(format!("{} table of the TFM file is empty (entry 0 must be 0)\n{src}", NAMES[k]));
        }
        let numeric = match compress_valid(&sorted, LIMITS[k], &table, &index_of) {
            Ok(info) => match info.bad_midpoints.first() {
                None => Ok(()),
                Some(&(l, u, rep)) => Err(format!("class [{l}, {u}] is represented by {rep}; PLtoTF 78 stores l+(u-l) div 2 = {}", ma::midpoint(l, u, ma::Midpoint::PlToTf))),
            },
            Err(e) => Err(e),
        };
        if let Err(e) = numeric {
            if c.design_units == 0 {
                return Verdict::Fail(format!("{} table of tfm::File::from(pl::File) is not a valid compression with limit {}: {e}\nvalues (sorted, distinct): {:?}\ntable: {:?}", NAMES[k], LIMITS[k], sorted, table));
            }
            // With DESIGNUNITS the words of the TFM file are the representatives divided by the
            // design units (PLtoTF 128 out_scaled, in Pascal real arithmetic, not modelled here).
            // The repository stores the raw representatives at the time of writing, which the
            // numeric predicate above accepts; should it start to scale them, only what scaling
            // preserves is demanded: the number of classes and their order.
            let kk = table.len() - 1;
            let idx: Vec<usize> = sorted.iter().map(|v| index_of[v]).collect();
            let ordered = idx.windows(2).all(|w| w[0] <= w[1]) && idx.iter().all(|i| (1..=kk).contains(i));
            if kk > LIMITS[k] || !ordered || table[0] != 0 {
                return Verdict::Fail(format!("{} table of tfm::File::from(pl::File) with DESIGNUNITS: {kk} classes for limit {}, indices in value order {:?}; as a compression of the raw values: {e}\nvalues (sorted, distinct): {:?}\ntable: {:?}", NAMES[k], LIMITS[k], idx, sorted, table));
            }
            case.class("DESIGNUNITS given and table is not a compression of the raw values (scaled?): class count and order checked only");
        } else if c.design_units > 0 {
            case.class("DESIGNUNITS given: table is a valid compression of the raw values");
        }
        let needs = sorted.len() > LIMITS[k];
        any_compression |= needs;
        case.class_if(needs, ["widths need compression (256 distinct)", "heights need compression", "depths need compression", "italic corrections need compression"][k]);
        case.class_if(needs && sorted.iter().any(|v| v.abs() >= LEGAL as i64), "table with |value|>=16.0 needs compression");
        case.class_if(needs && sorted.last().unwrap() - sorted.first().unwrap() > i32::MAX as i64, "table whose range needs 33 bits needs compression");
    }
    case.class_if(c.design_units > 0, "DESIGNUNITS given");
    case.class_if(c.chars.len() == 256, "256 characters");
    case.note = Some(format!("DESIGNUNITS {} and {} characters: {:?}", c.design_units, c.chars.len(), &c.chars[..c.chars.len().min(6)]));
    Verdict::pass(any_compression)
}

// ------------------------------------------------------------------------------------
// (d) next larger

#[derive(Clone, Debug, Serialize, Deserialize)]
pub struct NlCase {
    /// (character, pick, mode): the character's NEXTLARGER is, depending on mode, another
    /// listed character chosen by `pick`, the next listed character (cyclically), or the
    /// arbitrary character `pick mod 256`. A character listed twice keeps its first link.
    pub links: Vec<(u8, u16, u8)>,
    /// characters without a CHARACTER entry (unless they carry a link themselves)
    pub missing: Vec<u8>,
    pub drop_missing: bool,
    /// explicit links (character, its NEXTLARGER) in the order they are handed over, used after
    /// those of `links`; a character listed twice keeps its first link. (Absent in replay files
    /// written before this field existed.)
    #[serde(default)]
    pub direct: Vec<(u8, u8)>,
}

/// Long chains and cycles: a random arrangement of all 256 codes (or a prefix of it) is cut
/// into 1..=4 pieces; each piece becomes a path, a cycle, or a path whose end links back into
/// the piece (a tail leading into a cycle); the links are handed over in shuffled order.
fn nl_long_strategy() -> impl Strategy<Value = NlCase> {
    let codes: Vec<u8> = (0..=255u8).collect();
    (
        Just(codes).prop_shuffle(),
        prop_oneof![3 => Just(256usize), 1 => Just(255usize), 2 => 130usize..=256],
        vec((any::<u16>(), 0u8..=2, any::<u16>()), 0..=3),
        any::<u64>(),
        vec(any::<u8>(), 0..=3),
        any::<bool>(),
        any::<bool>(),
    )
        .prop_map(|(perm, used, cuts, order_salt, missing, drop_missing, sorted_order)| {
            let perm = &perm[..used];
            // piece boundaries
            let mut bounds: Vec<usize> = cuts.iter().map(|c| 1 + pick_idx(c.0, used - 1)).collect();
            bounds.push(used);
            bounds.sort_unstable();
            bounds.dedup();
            let mut direct: Vec<(u8, u8)> = vec![];
            let mut lo = 0usize;
            for (k, &hi) in bounds.iter().enumerate() {
                let piece = &perm[lo..hi];
                for w in piece.windows(2) {
                    direct.push((w[0], w[1]));
                }
                let (_, kind, back) = cuts.get(k).copied().unwrap_or((0, (order_salt >> 60) as u8 % 3, (order_salt >> 40) as u16));
                match kind {
                    0 => {}                                                                   // a path
                    1 => direct.push((piece[piece.len() - 1], piece[0])),                      // a cycle
                    _ => direct.push((piece[piece.len() - 1], piece[pick_idx(back, piece.len())])), // a tail into a cycle
                }
                lo = hi;
            }
            // order in which the links reach the constructor: by character (as `from_ast`
            // iterates a BTreeMap) or shuffled by a bijection on positions
            if sorted_order {
                direct.sort_unstable();
            } else {
                let n = direct.len() as u64;
                let mut keyed: Vec<(u64, (u8, u8))> = direct.iter().enumerate().map(|(i, e)| (mix(order_salt, i as u64) % (4 * n.max(1)) * 1024 + i as u64, *e)).collect();
                keyed.sort_unstable();
                direct = keyed.into_iter().map(|k| k.1).collect();
            }
            NlCase { links: vec![], missing, drop_missing, direct }
        })
}

fn nl_strategy() -> impl Strategy<Value = NlCase> {
    let entry = (any::<u8>(), any::<u16>(), any::<u8>());
    let narrow = (0u8..=255, 1u8..=12).prop_flat_map(|(base, width)| {
        vec(((0..width).prop_map(move |o| base.wrapping_add(o.wrapping_mul(37))), any::<u16>(), any::<u8>()), 0..=24)
    });
    let links = prop_oneof![
        3 => vec(entry.clone(), 0..=12),
        3 => narrow,
        3 => vec(entry.clone(), 0..=80),
        2 => vec(entry, 150..=400),
    ];
    let general = (links, vec(any::<u8>(), 0..=6), any::<bool>()).prop_map(|(links, missing, drop_missing)| NlCase { links, missing, drop_missing, direct: vec![] });
    prop_oneof![
        15 => general,
        1 => nl_long_strategy(),
    ]
}

struct NlBuilt {
    order: Vec<(u8, u8)>,
    exists: [bool; 256],
}

fn nl_build(c: &NlCase) -> NlBuilt {
    let raw: Vec<u8> = c.links.iter().map(|l| l.0).collect();
    let mut has = [false; 256];
    let mut order = vec![];
    for (i, &(src, pick, mode)) in c.links.iter().enumerate() {
        if has[src as usize] {
            continue;
        }
        has[src as usize] = true;
        let tgt = match mode {
            0..=149 => raw[pick_idx(pick, raw.len())],
            150..=219 => raw[(i + 1) % raw.len()],
            _ => (pick & 255) as u8,
        };
        order.push((src, tgt));
    }
    for &(src, tgt) in &c.direct {
        if !has[src as usize] {
            has[src as usize] = true;
            order.push((src, tgt));
        }
    }
    let mut exists = [true; 256];
    for &m in &c.missing {
        exists[m as usize] = false;
    }
    for &(s, _) in &order {
        exists[s as usize] = true;
    }
    NlBuilt { order, exists }
}

fn nl_check(order: &[(u8, u8)], exists: &[bool; 256], drop_missing: bool, case: &mut Case) -> Result<Option<bool>, String> {
    let (o2, e2) = (order.to_vec(), *exists);
    let (program, warnings) = match guarded(move || NextLargerProgram::new(o2.iter().map(|&(a, b)| (Char(a), Char(b))), |c| e2[c.0 as usize], drop_missing)) {
        Guarded::Done(r) => r,
        Guarded::Panicked(p) => return Err(format!("NextLargerProgram::new panics at {}: {}\nlinks {:?} drop={drop_missing}", p.site(), p.message, order)),
        Guarded::TimedOut(cpu) => return Err(format!("NextLargerProgram::new has not returned after {cpu} s of CPU time: it does not terminate\nlinks {:?} drop={drop_missing}", order)),
        Guarded::NotCalled => return Ok(None),
    };

    // The font's links, after TFtoPL (drop) or PLtoTF (keep) treated links to absent characters.
    let mut links: ma::Links = [None; 256];
    let mut want_missing: Vec<(u8, u8)> = vec![];
    for &(a, b) in order {
        if !exists[b as usize] {
            want_missing.push((a, b));
            if drop_missing {
                continue;
            }
        }
        links[a as usize] = Some(b);
    }
    // Property text: every cycle is cut at its largest character ...
    let cyc = ma::cycles(&links);
    let want_cut: Vec<u8> = cyc.iter().map(|m| *m.last().unwrap()).collect();
    // ... which is what TFtoPL 84 / PLtoTF 113 compute.
    let mut cut_links = links;
    let knuth_cut = ma::break_cycles_knuth(&mut cut_links);
    if knuth_cut != want_cut {
        return Err(format!("reference self-check: TFtoPL 84 cuts at {:?}, the largest characters of the cycles are {:?}", knuth_cut, want_cut));
    }

    let mut got_missing: Vec<(u8, u8)> = vec![];
    let mut got_loops: Vec<(u8, u8)> = vec![];
    for w in &warnings {
        match w {
            NextLargerProgramWarning::NonExistentCharacter { original, next_larger } => got_missing.push((original.0, next_larger.0)),
            NextLargerProgramWarning::InfiniteLoop { original, next_larger } => got_loops.push((original.0, next_larger.0)),
        }
    }
    let loops_in_knuth_order = got_loops.windows(2).all(|w| w[0].0 < w[1].0);
    got_missing.sort_unstable();
    got_loops.sort_unstable();
    want_missing.sort_unstable();
    let want_loops: Vec<(u8, u8)> = want_cut.iter().map(|&c| (c, links[c as usize].unwrap())).collect();
    let describe = || format!("links {:?}, absent targets {:?}, drop={drop_missing}", order, want_missing);
    if got_loops != want_loops {
        return Err(format!(
            "cycle warnings (character cut, its link) {:?}; expected one per cycle at the largest character of the cycle: {:?} (cycles {:?})\n{}",
            got_loops,
            want_loops,
            cyc,
            describe()
        ));
    }
    if got_missing != want_missing {
        return Err(format!("warnings about absent characters {:?}, expected {:?}\n{}", got_missing, want_missing, describe()));
    }
    let mut tail_into_cycle = false;
    let mut longest_chain = 0usize;
    let on_cycle: BTreeSet<u8> = cyc.iter().flatten().copied().collect();
    for c in 0..=255u8 {
        let got: Vec<u8> = program.get(Char(c)).take(300).map(|c| c.0).collect();
        if got.len() > 256 {
            return Err(format!("the chain of character {c} does not end within 256 steps\n{}", describe()));
        }
        let want = ma::chain(&cut_links, c).ok_or("reference: chain not finite after cutting")?;
        if got != want {
            return Err(format!("chain of character {c} is {:?}, expected {:?} (cycles {:?} cut at {:?})\n{}", got, want, cyc, want_cut, describe()));
        }
        if !on_cycle.contains(&c) && want.iter().any(|x| on_cycle.contains(x)) {
            tail_into_cycle = true;
        }
        longest_chain = longest_chain.max(want.len());
    }
    // characters that are the NEXTLARGER of another one after cutting: each of them needs an
    // entry of the compiled program
    let entries = cut_links.iter().flatten().collect::<BTreeSet<_>>().len();
    let linked = links.iter().flatten().count();
    let longest_cycle = cyc.iter().map(|m| m.len()).max().unwrap_or(0);
    case.class_if(longest_chain >= 60, "chain length>=60");
    case.class_if(longest_chain >= 128, "chain length>=128");
    case.class_if(longest_chain >= 200, "chain length>=200");
    case.class_if(longest_chain == 255, "chain length=255 (the maximum)");
    case.class_if(entries >= 128, "program entries>=128");
    case.class_if(entries >= 200, "program entries>=200");
    case.class_if(entries == 255, "program entries=255 (the maximum)");
    case.class_if(longest_cycle >= 60, "cycle of length>=60");
    case.class_if(longest_cycle >= 128, "cycle of length>=128");
    case.class_if(longest_cycle == 256, "cycle through all 256 characters");
    case.class_if(linked == 256, "every character has a link");
    case.class_if(cyc.len() >= 2 && cyc.iter().filter(|m| m.len() >= 60).count() >= 2, "two cycles of length>=60");
    case.class_if(tail_into_cycle && longest_chain >= 128 && longest_cycle >= 2, "long tail or long cycle with a tail");
    let big = cyc.iter().any(|m| m.len() >= 2);
    case.class_if(cyc.is_empty(), "no cycle");
    case.class_if(big, "cycle of length>=2");
    case.class_if(cyc.iter().any(|m| m.len() == 1), "self loop");
    case.class_if(cyc.len() >= 2, "two or more cycles");
    case.class_if(cyc.iter().any(|m| m.len() >= 10), "cycle of length>=10");
    case.class_if(tail_into_cycle, "tail leading into a cycle");
    case.class_if(!want_missing.is_empty(), "link to absent character");
    case.class_if(!want_missing.is_empty() && !drop_missing, "absent character kept as end of a chain");
    case.class_if(!loops_in_knuth_order, "cycle warnings not in increasing order");
    case.class_if(order.len() >= 100, "links>=100");
    Ok(Some(big || tail_into_cycle))
}

fn nl_oracle(c: &NlCase, case: &mut Case) -> Verdict {
    if c.links.len() > 400 {
        return Verdict::Skip("more than 400 link entries");
    }
    let b = nl_build(c);
    case.note = Some(format!("links {:?} absent {:?} drop={}", b.order, (0..=255u8).filter(|c| !b.exists[*c as usize]).collect::<Vec<u8>>(), c.drop_missing));
    case.class_if(!c.direct.is_empty(), "shape: arrangement of all codes cut into paths/cycles/tails");
    match nl_check(&b.order, &b.exists, c.drop_missing, case) {
        Ok(Some(nt)) => Verdict::pass(nt),
        Ok(None) => skipped_after_hang(case),
        Err(e) => Verdict::Fail(e),
    }
}

/// Deterministic long shapes (`which` selects the shape, `par` a parameter of it): every one of
/// them is also reachable by `nl_long_strategy`, here they are guaranteed.
fn nl_long_fixed_case(i: u64) -> NlCase {
    let (which, par) = (i % 8, (i / 8) as u8);
    // code of position k: identity, reversed, or multiplied by an odd number (a bijection mod 256)
    let code = |k: u8| -> u8 {
        match par % 3 {
            0 => k,
            1 => 255 - k,
            _ => k.wrapping_mul(par | 1).wrapping_add(par),
        }
    };
    let mut direct: Vec<(u8, u8)> = vec![];
    match which {
        0 => (0..255u8).for_each(|k| direct.push((code(k), code(k + 1)))), // path through all 256
        1 => (0..=255u8).for_each(|k| direct.push((code(k), code(k.wrapping_add(1))))), // 256-cycle
        2 => {
            // two cycles of 128
            for k in 0..128u8 {
                direct.push((code(k), code((k + 1) % 128)));
                direct.push((code(128 + k), code(128 + (k + 1) % 128)));
            }
        }
        3 => {
            // tail of 255 into a self loop
            (0..255u8).for_each(|k| direct.push((code(k), code(k + 1))));
            direct.push((code(255), code(255)));
        }
        4 => {
            // tail of (255 - par) into a cycle of par+1
            (0..255u8).for_each(|k| direct.push((code(k), code(k + 1))));
            direct.push((code(255), code(255 - par)));
        }
        5 => {
            // star: everything links to one character, which links to itself or nothing
            (0..255u8).for_each(|k| direct.push((code(k), code(255))));
            if par % 2 == 0 {
                direct.push((code(255), code(255)));
            }
        }
        6 => {
            // 128 two-cycles
            for k in 0..128u8 {
                direct.push((code(2 * k), code(2 * k + 1)));
                direct.push((code(2 * k + 1), code(2 * k)));
            }
        }
        _ => {
            // two paths of 128 joining a third character chain: a tree with long branches
            for k in 0..127u8 {
                direct.push((code(k), code(k + 1)));
                direct.push((code(128 + k), code(128 + k + 1)));
            }
            direct.push((code(127), code(255)));
        }
    }
    if par % 2 == 1 {
        direct.reverse();
    }
    if par % 5 == 2 {
        direct.sort_unstable();
    }
    NlCase { links: vec![], missing: vec![], drop_missing: par % 4 < 2, direct }
}

/// Exhaustive small scope: 5 characters (codes not in index order), each without a link or
/// linked to one of the five: 6^5 graphs, times two code assignments.
const SMALL_CHARS: [[u8; 5]; 2] = [[200, 3, 97, 255, 0], [5, 6, 7, 8, 9]];

fn nl_small_case(i: u64) -> (Vec<(u8, u8)>, u8) {
    let which = (i % 2) as usize;
    let mut g = i / 2;
    let chars = SMALL_CHARS[which];
    let mut order = vec![];
    for k in 0..5 {
        let d = (g % 6) as usize;
        g /= 6;
        if d > 0 {
            order.push((chars[k], chars[d - 1]));
        }
    }
    // rotate the edge order so that insertion order varies too
    if !order.is_empty() {
        let r = (i as usize / 7) % order.len();
        order.rotate_left(r);
    }
    (order, which as u8)
}

// ------------------------------------------------------------------------------------
// Calibration on the repository's TeX-verified goldens

fn calibrate_compress() -> Result<u64, String> {
    let one = 1i64 << 20;
    // (values, limit, want table, want index per input) — crates/tfm/src/lib.rs compress_tests!
    let goldens: Vec<(Vec<i64>, usize, Vec<i64>, Vec<usize>)> = vec![
        (vec![], 1, vec![0], vec![]),
        (vec![2 * one, one], 2, vec![0, one, 2 * one], vec![2, 1]),
        (vec![one, one], 1, vec![0, one], vec![1, 1]),
        (vec![one, 2 * one], 1, vec![0, one * 3 / 2], vec![1, 1]),
        (vec![one, 2 * one, 200 * one, 201 * one], 2, vec![0, one * 3 / 2, one * 401 / 2], vec![1, 1, 2, 2]),
        (vec![1, 3], 1, vec![0, 2], vec![1, 1]),
        (vec![0, 2], 1, vec![0, 1], vec![1, 1]),
        (vec![1, 4], 1, vec![0, 2], vec![1, 1]),
        (vec![1, 2], 1, vec![0, 1], vec![1, 1]),
    ];
    let n = goldens.len() as u64;
    for (values, limit, table, idx) in goldens {
        let sorted: Vec<i64> = values.iter().copied().collect::<BTreeSet<i64>>().into_iter().collect();
        let index_of: BTreeMap<i64, usize> = values.iter().copied().zip(idx.iter().copied()).collect();
        compress_valid(&sorted, limit, &table, &index_of).map_err(|e| format!("the validity predicate rejects the golden answer for {:?} limit {limit}: {e}", values)).and_then(|i| {
            if i.bad_midpoints.is_empty() {
                Ok(())
            } else {
                Err(format!("golden answer for {:?} has a representative that is not PLtoTF's midpoint: {:?}", values, i.bad_midpoints))
            }
        })?;
        // the literal PLtoTF transcription reproduces the golden exactly
        let d = ma::shorten(&sorted, limit);
        let excess = sorted.len().checked_sub(limit).filter(|e| *e > 0);
        let (mi, reps) = ma::set_indices(&sorted, d, excess, ma::Midpoint::PlToTf);
        let mut t = vec![0];
        t.extend(reps);
        if t != table {
            return Err(format!("PLtoTF transcription gives table {:?} for {:?} limit {limit}, golden is {:?}", t, values, table));
        }
        for (s, i) in sorted.iter().zip(mi.iter()) {
            if index_of[s] != *i {
                return Err(format!("PLtoTF transcription puts {s} in class {i}, golden has {}", index_of[s]));
            }
        }
    }
    Ok(n)
}

fn calibrate_next_larger() -> Result<u64, String> {
    let (a, b, c, x, y, z) = (b'A', b'B', b'C', b'X', b'Y', b'Z');
    type G = (Vec<(u8, u8)>, Vec<(u8, Vec<u8>)>, Vec<(u8, u8)>);
    let big_edges: Vec<(u8, u8)> = (0..=255u8).map(|u| (u, u.wrapping_add(1))).collect();
    let big_seqs: Vec<(u8, Vec<u8>)> = (0..=255u8).map(|u| (u, if u == 255 { vec![] } else { (u + 1..=255).collect() })).collect();
    let goldens: Vec<G> = vec![
        (vec![(a, a)], vec![(a, vec![])], vec![(a, a)]),
        (
            vec![(a, b), (b, c), (c, b), (x, y), (y, z), (z, x)],
            vec![(a, vec![b, c]), (b, vec![c]), (c, vec![]), (x, vec![y, z]), (y, vec![z]), (z, vec![])],
            vec![(c, b), (z, x)],
        ),
        (vec![(a, b), (b, c), (c, b)], vec![(a, vec![b, c]), (b, vec![c]), (c, vec![])], vec![(c, b)]),
        (big_edges, big_seqs, vec![(255, 0)]),
    ];
    let n = goldens.len() as u64;
    for (edges, seqs, warns) in goldens {
        let mut links: ma::Links = [None; 256];
        for &(s, t) in &edges {
            links[s as usize] = Some(t);
        }
        let cyc = ma::cycles(&links);
        let by_text: Vec<(u8, u8)> = cyc.iter().map(|m| (*m.last().unwrap(), links[*m.last().unwrap() as usize].unwrap())).collect();
        let mut cut = links;
        let k: Vec<(u8, u8)> = ma::break_cycles_knuth(&mut cut).into_iter().map(|c| (c, links[c as usize].unwrap())).collect();
        if k != warns || by_text != warns {
            return Err(format!("next-larger golden {:?}: TFtoPL transcription cuts {:?}, cycle maxima {:?}, golden warnings {:?}", &edges[..edges.len().min(6)], k, by_text, warns));
        }
        let want: BTreeMap<u8, Vec<u8>> = seqs.into_iter().collect();
        for ch in 0..=255u8 {
            let got = ma::chain(&cut, ch).ok_or("chain not finite")?;
            let w = want.get(&ch).cloned().unwrap_or_default();
            if got != w {
                return Err(format!("next-larger golden: reference chain of {ch} is {:?}, golden {:?}", got, w));
            }
        }
    }
    Ok(n)
}

/// fix_words of a TFM file, read directly from the bytes (TFtoPL §8–11 layout).
fn raw_tfm_fix_words(b: &[u8]) -> Option<Vec<i32>> {
    if b.len() < 24 {
        return None;
    }
    let h = |i: usize| u16::from_be_bytes([b[2 * i], b[2 * i + 1]]) as usize;
    let (lf, lh, bc, ec, nw, nh, nd, ni, nl, nk, ne, np) = (h(0), h(1), h(2), h(3), h(4), h(5), h(6), h(7), h(8), h(9), h(10), h(11));
    if lf * 4 != b.len() || ec + 1 < bc || lh < 2 {
        return None;
    }
    let nc = ec + 1 - bc;
    if lf != 6 + lh + nc + nw + nh + nd + ni + nl + nk + ne + np {
        return None;
    }
    let word = |i: usize| i32::from_be_bytes([b[4 * i], b[4 * i + 1], b[4 * i + 2], b[4 * i + 3]]);
    let mut out = vec![word(6 + 1)];
    let dims = 6 + lh + nc;
    for i in dims..dims + nw + nh + nd + ni {
        out.push(word(i));
    }
    let kern = dims + nw + nh + nd + ni + nl;
    for i in kern..kern + nk {
        out.push(word(i));
    }
    let param = kern + nk + ne;
    for i in param..param + np {
        out.push(word(i));
    }
    Some(out)
}

fn pl_real_texts(s: &str) -> Vec<String> {
    let b = s.as_bytes();
    let mut out = vec![];
    let mut i = 0;
    while i + 3 < b.len() {
        if b[i] == b' ' && b[i + 1] == b'R' && b[i + 2] == b' ' {
            let mut j = i + 3;
            while j < b.len() && (b[j] == b'-' || b[j] == b'.' || b[j].is_ascii_digit()) {
                j += 1;
            }
            if j > i + 3 {
                out.push(s[i + 3..j].to_string());
            }
            i = j;
        } else {
            i += 1;
        }
    }
    out
}

/// Computer Modern metrics in the repository's corpus come from METAFONT, so their .plst
/// partner is the output of Knuth's tftopl: every `R` text in it must be what the
/// transcription of TFtoPL §40–43 prints for one of the file's fix_words.
fn calibrate_out_fix_on_corpus(ctx: &Ctx) -> Result<u64, String> {
    let dir = std::env::var("VP_TFM_CORPUS").unwrap_or_else(|_| "/repo/crates/tfm/corpus/computer-modern".to_string());
    let Ok(rd) = std::fs::read_dir(&dir) else {
        ctx.assume("the tftopl corpus directory was not found; TFtoPL 40-43 was calibrated on embedded cmr10 values only");
        return Ok(0);
    };
    let mut names: Vec<std::path::PathBuf> = rd.filter_map(|e| e.ok().map(|e| e.path())).filter(|p| p.extension().is_some_and(|e| e == "tfm")).collect();
    names.sort();
    let mut texts_checked = 0u64;
    let mut files = 0u64;
    for tfm_path in names {
        let pl_path = tfm_path.with_extension("plst");
        let (Ok(bytes), Ok(pl)) = (std::fs::read(&tfm_path), std::fs::read_to_string(&pl_path)) else { continue };
        let Some(words) = raw_tfm_fix_words(&bytes) else { continue };
        let mut printed: BTreeSet<String> = BTreeSet::new();
        for w in words {
            if w == i32::MIN {
                continue;
            }
            let mut v = vec![];
            ma::out_fix(w, &mut v)?;
            printed.insert(String::from_utf8(v).unwrap());
        }
        for t in pl_real_texts(&pl) {
            if !printed.contains(&t) {
                return Err(format!("{}: tftopl printed `R {t}`, which the TFtoPL 40-43 transcription prints for none of the fix_words of {}", pl_path.display(), tfm_path.display()));
            }
            texts_checked += 1;
        }
        files += 1;
    }
    ctx.extra("calibration", "tftopl_corpus_files", serde_json::json!(files));
    ctx.extra("calibration", "tftopl_corpus_real_texts_matched", serde_json::json!(texts_checked));
    Ok(texts_checked)
}

fn calibrate_all(ctx: &Ctx) -> Result<u64, String> {
    let mut n = 0;
    // cmr10 parameter words; the expected texts follow from the definition (shortest decimal
    // within half a unit) and are what cmr10.plst shows.
    let embedded: [(i32, &str); 8] =
        [(0, "0.0"), (349526, "0.333334"), (1048579, "1.000003"), (10 << 20, "10.0"), (174763, "0.166667"), (116509, "0.111112"), (451470, "0.430555"), (-291272, "-0.277779")];
    for (w, text) in embedded {
        let mut v = vec![];
        ma::out_fix(w, &mut v)?;
        if v != text.as_bytes() {
            return Err(format!("TFtoPL 40-43 transcription prints {:?} for word {w}, tftopl prints {text:?}", String::from_utf8_lossy(&v)));
        }
        n += 1;
    }
    n += calibrate_compress()?;
    n += calibrate_next_larger()?;
    n += calibrate_out_fix_on_corpus(ctx)?;
    // TeX 571 on the repository's to_scaled golden (1.0 at design size 1.0 is 1pt)
    let s = ma::tex_scale(1 << 20).ok_or("tex_scale aborts on design size 1.0")?;
    if ma::store_scaled(1 << 20, &s) != Some(65536) || ma::store_scaled(0, &s) != Some(0) {
        return Err("TeX 571 transcription fails the to_scaled_test golden".to_string());
    }
    Ok(n + 2)
}

fn calibrate(ctx: &Ctx) {
    if !ctx.is_generate() || ctx.stop.load(Ordering::SeqCst) {
        return;
    }
    match calibrate_all(ctx) {
        Ok(n) => ctx.add_stats("calibration", n, 0, vec![]),
        Err(e) => ctx.fail_external("calibration", &"reference model disagrees with a golden of the repository", &e),
    }
}

// ------------------------------------------------------------------------------------

pub fn run(ctx: &Ctx) {
    ctx.rule(
        "fixword_text: fix_word bit patterns enumerated by value (quick: |v|<2^22, multiples of 4099, +-2^k+-{0,1,2} and unit boundaries, a bijectively mixed sample; thorough: all 2^32-1, plus i32::MIN for Display), \
         each printed, compared with TFtoPL 40-43 and read back through the PL reader in batches, the carrying node rotating per batch among PARAMETER, SLANT, KRN, CHARWD, CHARHT, DESIGNUNITS, DESIGNSIZE; \
         fixword_text_file reads parameters and character dimensions through pl::File; fixword_text_writer renders a pl::File with the values (parameters, character dimensions, kerns, design size) through File::display and reads it again; \
         non-trivial = non-zero fraction part, values counted once. \
         to_scaled: edge grid x random (value, size) pairs from a bijection per size magnitude, sizes from 2^-16 pt to 2048pt; non-trivial = the product is truncated. \
         compress: multisets from ten shapes (small integers, lattices with equal gaps, clusters, wide legal, thousandths; raw PL reals: full 32-bit range, design units 1000, clusters at the ends of the range, pairs 2^31-1 apart, with i32::MIN) and 256..300 distinct values, x class limit; two exhaustive 12-point universes; compress_pl_caller: PL text -> pl::File -> tfm::File, the four tables checked with limits 255/15/15/63; non-trivial = more distinct values than the limit. \
         next_larger: partial functional graphs on character codes, random and arrangements of all 256 codes cut into long paths, cycles and tails; non-trivial = a cycle of length>=2 or a tail leading into a cycle.",
    );
    ctx.assume("fix_word i32::MIN (-2048.0) is excluded from the read-back half of print/parse: PLtoTF 62-64 rejects every real constant of magnitude >= 2048, so the PL format cannot express it (TFtoPL itself prints `-2048.0`, which PLtoTF rejects); for this word Display must equal TFtoPL's text, reader and writer must not panic, and the reader must report the number rather than return another value silently");
    ctx.assume("print/parse carriers: DESIGNUNITS nodes carry only positive values and DESIGNSIZE nodes only values >= 1.0 (PLtoTF 94-95 reject others); all values travel in PARAMETER, SLANT, KRN, CHARWD and CHARHT nodes; the writer sub-check demands identical values only, warnings of the re-reading are counted");
    ctx.assume("to_scaled: |value| < 16.0 (first byte 0 or 255, otherwise TeX aborts); the size argument is TeX's z: a design size in [1,2048) (TeX 568 aborts below 1) or, below 1.0, an `at` size that TeX 568 puts in its place (legal for 0 < s < 2048pt), followed by the same 571-572 arithmetic; size words below 16 (z = 0) are excluded");
    ctx.assume("compress: inputs are arbitrary fix_words, as the production caller From<pl::File> passes raw PL reals up to +-2047.999999 (PLtoTF 75-80 also works on the values as written; its 32-bit arithmetic is only safe for |v| < 16.0, the reference runs on 64-bit integers); 'within half the tolerance' is read on the fix_word grid, |v-rep| <= ceil(tolerance/2), because PLtoTF's own midpoint l+(u-l) div 2 leaves the upper end of an odd-spread class ceil(spread/2) away (golden lower_upper_close_edge_case_3)");
    ctx.assume("compress is checked by a validity predicate: any partition into consecutive intervals with PLtoTF midpoints, at most `limit` classes and largest spread equal to the smallest feasible tolerance passes; PLtoTF's `excess` rule (stop merging once the table fits) and the full greedy cover are both accepted and counted in the class histogram");
    ctx.assume("compress_pl_caller: a zero (or absent) height, depth or italic correction is not part of the compressed multiset and has index 0 (PLtoTF 74 sort_in); every width is, an absent CHARWD counts as 0; the multisets are the values the PL reader returned; files with a DESIGNUNITS property are held to the numeric predicate only as long as the tables hold the raw representatives (PLtoTF 128 divides them by the design units on output, which is not modelled), otherwise to the number and order of classes");
    ctx.assume("next_larger: each character has at most one link (a functional graph); a character that carries a link exists; links to absent characters are dropped (TFtoPL 84) or kept (PLtoTF 111) according to the constructor flag before cycles are looked for; the order of warnings is not constrained");
    ctx.assume("termination of compress / NextLargerProgram::new / From<pl::File> is decided by work: a call that has used 10 s of CPU time (normally microseconds) does not terminate; a call that cannot be decided that way ends the run inconclusive (exit 2)");

    calibrate(ctx);
    run_fixword_text(ctx);
    run_to_scaled(ctx);

    // (c)
    run_indexed(ctx, "compress_small", 12 << 12, true, compress_small_case, |c: &CompressCase, case| compress_oracle(ctx, c, case));
    run_indexed(ctx, "compress_small_wide", 12 << 12, true, compress_small_wide_case, |c: &CompressCase, case| compress_oracle(ctx, c, case));
    let n = ctx.tier.pick(44_000u64, 300_000u64);
    run_generated(ctx, "compress", n, compress_strategy, |c: &CompressCase, case| compress_oracle(ctx, c, case));
    let n = ctx.tier.pick(3_000u64, 40_000u64);
    run_generated(ctx, "compress_pl_caller", n, pl_caller_strategy, pl_caller_oracle);

    // (d)
    run_indexed(ctx, "next_larger_small", 2 * 6u64.pow(5) * 2, true, |i| { let (o, w) = nl_small_case(i / 2); (o, w, i % 2 == 1) }, |(order, _w, drop): &(Vec<(u8, u8)>, u8, bool), case| {
        let mut exists = [true; 256];
        // in the second code assignment character 9 has no CHARACTER entry unless it carries a link
        if *_w == 1 && !order.iter().any(|(s, _)| *s == 9) {
            exists[9] = false;
        }
        match nl_check(order, &exists, *drop, case) {
            Ok(Some(nt)) => Verdict::pass(nt),
            Ok(None) => skipped_after_hang(case),
            Err(e) => Verdict::Fail(e),
        }
    });
    run_indexed(ctx, "next_larger_long", 8 * 64, false, nl_long_fixed_case, nl_oracle);
    let n = ctx.tier.pick(100_000u64, 1_000_000u64);
    run_generated(ctx, "next_larger", n, nl_strategy, nl_oracle);

    inconclusive_if_hung(ctx);
}
