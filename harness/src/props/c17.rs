//! C17 Font-metric arithmetic: fix_word text, store_scaled, table compression, NEXTLARGER
//! chains. Reference definitions live in `models::tfm_arith`.

use crate::engine::*;
use crate::models::tfm_arith as ma;
use proptest::collection::vec;
use proptest::prelude::*;
use serde::{de::DeserializeOwned, Deserialize, Serialize};
use std::collections::{BTreeMap, BTreeSet};
use std::fmt::Write as _;
use std::sync::atomic::{AtomicU64, Ordering};
use std::sync::Mutex;
use tfm::pl::ast::{Ast, Root};
use tfm::{Char, FixWord, NextLargerProgram, NextLargerProgramWarning};

const FLAG_MIDPOINT: &str = "flag:compress_midpoint_truncates_toward_zero";

// ------------------------------------------------------------------------------------
// Termination watchdog. `compress` and `NextLargerProgram::new` are loops over at most a few
// hundred items that return within microseconds; a call that has not returned after
// WATCHDOG_SECS is reported as non-terminating. After the first such call the function is
// not called again in this process (every further call would cost the full timeout and leave
// another spinning thread behind), so a hanging case is reported unshrunk.

const WATCHDOG_SECS: u64 = 20;
static HUNG: std::sync::atomic::AtomicBool = std::sync::atomic::AtomicBool::new(false);

enum Guarded<R> {
    Done(R),
    Panicked(panics::PanicInfo),
    TimedOut,
    NotCalled,
}

type Job = Box<dyn FnOnce() + Send + 'static>;

thread_local! {
    /// One helper thread per harness worker, created on first use and reused for every call.
    static HELPER: std::cell::RefCell<Option<std::sync::mpsc::Sender<Job>>> = const { std::cell::RefCell::new(None) };
}

fn guarded<R: Send + 'static>(f: impl FnOnce() -> R + Send + 'static) -> Guarded<R> {
    if HUNG.load(Ordering::SeqCst) {
        return Guarded::NotCalled;
    }
    let (rtx, rrx) = std::sync::mpsc::channel();
    let job: Job = Box::new(move || {
        let _ = rtx.send(panics::catch(f));
    });
    HELPER.with(|h| {
        let mut h = h.borrow_mut();
        if h.is_none() {
            let (tx, rx) = std::sync::mpsc::channel::<Job>();
            let spawned = std::thread::Builder::new().stack_size(8 << 20).spawn(move || {
                while let Ok(job) = rx.recv() {
                    job();
                }
            });
            if spawned.is_err() {
                eprintln!("C17: cannot spawn a watchdog helper thread");
                std::process::exit(2);
            }
            *h = Some(tx);
        }
        if h.as_ref().unwrap().send(job).is_err() {
            eprintln!("C17: watchdog helper thread is gone");
            std::process::exit(2);
        }
    });
    match rrx.recv_timeout(std::time::Duration::from_secs(WATCHDOG_SECS)) {
        Ok(Ok(r)) => Guarded::Done(r),
        Ok(Err(p)) => Guarded::Panicked(p),
        Err(_) => {
            HUNG.store(true, Ordering::SeqCst);
            HELPER.with(|h| *h.borrow_mut() = None);
            Guarded::TimedOut
        }
    }
}

// ------------------------------------------------------------------------------------
// Hot-loop driver (chunked, 16 workers, replay by value). The engine's `run_range` replays
// by index; here the stored case is the value itself so a replay does not depend on the seed.

#[derive(Default)]
struct Tally {
    evals: u64,
    nontrivial: u64,
    classes: BTreeMap<&'static str, u64>,
    skipped: BTreeMap<&'static str, u64>,
    samples: Vec<String>,
}

impl Tally {
    fn class(&mut self, c: &'static str, n: u64) {
        if n > 0 {
            *self.classes.entry(c).or_default() += n;
        }
    }
    fn skip(&mut self, c: &'static str, n: u64) {
        if n > 0 {
            *self.skipped.entry(c).or_default() += n;
        }
    }
}

fn hot_loop<C>(
    ctx: &Ctx,
    sub: &str,
    chunks: u64,
    exhaustive: bool,
    work: impl Fn(u64, &mut Tally) -> Result<(), (C, String)> + Sync,
    single: impl Fn(&C) -> Verdict + Sync,
) where
    C: Serialize + DeserializeOwned + Send,
{
    match &ctx.mode {
        Mode::Replay { sub: s, case } => {
            if s != sub {
                return;
            }
            let c: C = match serde_json::from_value(case.clone()) {
                Ok(c) => c,
                Err(e) => {
                    eprintln!("replay file does not decode for {}:{}: {}", ctx.prop, sub, e);
                    std::process::exit(2);
                }
            };
            let v = match panics::catch(|| single(&c)) {
                Ok(v) => v,
                Err(p) => Verdict::Fail(format!("panic at {}: {}", p.site(), p.message)),
            };
            ctx.replay_verdicts.lock().unwrap().push((sub.to_string(), v));
            return;
        }
        Mode::Generate => {}
    }
    if ctx.stop.load(Ordering::SeqCst) {
        return;
    }
    let next = AtomicU64::new(0);
    let first_fail = AtomicU64::new(u64::MAX);
    let fails: Mutex<Vec<(u64, C, String)>> = Mutex::new(vec![]);
    let total: Mutex<Tally> = Mutex::new(Tally::default());
    std::thread::scope(|s| {
        for _ in 0..WORKERS {
            s.spawn(|| {
                let mut t = Tally::default();
                loop {
                    let i = next.fetch_add(1, Ordering::Relaxed);
                    if i >= chunks || i > first_fail.load(Ordering::Relaxed) {
                        break;
                    }
                    match panics::catch(|| work(i, &mut t)) {
                        Ok(Ok(())) => {}
                        Ok(Err((c, m))) => {
                            first_fail.fetch_min(i, Ordering::SeqCst);
                            fails.lock().unwrap().push((i, c, m));
                        }
                        Err(p) => {
                            // `work` catches panics of the code under test itself; anything
                            // arriving here is a defect of the harness: inconclusive.
                            eprintln!("{}:{}: panic inside the check itself at {}: {}", ctx.prop, sub, p.site(), p.message);
                            std::process::exit(2);
                        }
                    }
                }
                let mut g = total.lock().unwrap();
                g.evals += t.evals;
                g.nontrivial += t.nontrivial;
                for (k, v) in t.classes {
                    *g.classes.entry(k).or_default() += v;
                }
                for (k, v) in t.skipped {
                    *g.skipped.entry(k).or_default() += v;
                }
                for s in t.samples {
                    g.samples.push(s);
                }
            });
        }
    });
    let mut fs = fails.into_inner().unwrap();
    fs.sort_by_key(|f| f.0);
    let failed = !fs.is_empty();
    {
        let mut t = total.into_inner().unwrap();
        t.samples.sort();
        let mut st = ctx.stats.lock().unwrap();
        let e = st.entry(sub.to_string()).or_default();
        e.evaluations += t.evals;
        e.nontrivial += t.nontrivial;
        for (k, v) in t.classes {
            *e.classes.entry(k).or_default() += v;
        }
        for (k, v) in t.skipped {
            *e.skipped.entry(k).or_default() += v;
        }
        for s in t.samples.into_iter().take(3) {
            if e.samples.len() < 3 {
                e.samples.push(s);
            }
        }
        e.exhaustive = exhaustive && !failed;
        e.extra.insert("distinct_by_construction".into(), serde_json::json!(true));
    }
    if let Some((_, c, m)) = fs.into_iter().next() {
        ctx.fail_external(sub, &c, &m);
    }
}

// ------------------------------------------------------------------------------------
// (a) fix_word text

fn fmix32(mut h: u32) -> u32 {
    // murmur3 finaliser: a bijection on u32
    h ^= h >> 16;
    h = h.wrapping_mul(0x85eb_ca6b);
    h ^= h >> 13;
    h = h.wrapping_mul(0xc2b2_ae35);
    h ^= h >> 16;
    h
}

enum Seg {
    Range { lo: i64, n: u64 },
    Multiples { step: i64, kmin: i64, n: u64 },
    List(Vec<i32>),
    Mixed { n: u64, salt: u32 },
}

impl Seg {
    fn len(&self) -> u64 {
        match self {
            Seg::Range { n, .. } | Seg::Multiples { n, .. } | Seg::Mixed { n, .. } => *n,
            Seg::List(v) => v.len() as u64,
        }
    }
    fn at(&self, i: u64) -> i32 {
        match self {
            Seg::Range { lo, .. } => (*lo + i as i64) as i32,
            Seg::Multiples { step, kmin, .. } => ((*kmin + i as i64) * *step) as i32,
            Seg::List(v) => v[i as usize],
            Seg::Mixed { salt, .. } => fmix32((i as u32).wrapping_add(*salt)) as i32,
        }
    }
    fn contains(&self, v: i32) -> bool {
        match self {
            Seg::Range { lo, n } => (v as i64) >= *lo && ((v as i64) - *lo) < *n as i64,
            Seg::Multiples { step, .. } => (v as i64) % *step == 0,
            Seg::List(l) => l.binary_search(&v).is_ok(),
            Seg::Mixed { .. } => false,
        }
    }
}

struct Plan {
    segs: Vec<(u64, Seg)>,
    total: u64,
}

impl Plan {
    fn new(segs: Vec<Seg>) -> Plan {
        let mut start = 0;
        let mut out = vec![];
        for s in segs {
            let n = s.len();
            out.push((start, s));
            start += n;
        }
        Plan { segs: out, total: start }
    }
    /// (value, first time this value is enumerated?)
    fn at(&self, i: u64) -> (i32, bool) {
        let mut k = self.segs.len() - 1;
        while self.segs[k].0 > i {
            k -= 1;
        }
        let v = self.segs[k].1.at(i - self.segs[k].0);
        let fresh = !self.segs[..k].iter().any(|(_, s)| s.contains(v));
        (v, fresh)
    }
}

fn fix_edges() -> Vec<i32> {
    let mut v: Vec<i64> = vec![];
    for k in 0..=31 {
        let p = 1i64 << k;
        for s in [-1i64, 1] {
            for d in -2i64..=2 {
                v.push(s * p + d);
            }
        }
    }
    for n in [1i64, 2, 3, 9, 10, 11, 15, 16, 17, 99, 100, 127, 128, 255, 256, 999, 1000, 1023, 1024, 2046, 2047] {
        for d in -2i64..=2 {
            v.push((n << 20) + d);
            v.push(-(n << 20) + d);
        }
    }
    for j in 1..=7u32 {
        let p10 = 10i64.pow(j);
        for k in [1i64, 3, 5, 7, 9, p10 - 1] {
            let x = (k << 20) / p10;
            for d in -1i64..=1 {
                v.push(x + d);
                v.push(-(x + d));
            }
        }
    }
    let mut out: Vec<i32> = v.into_iter().filter(|&x| x > i32::MIN as i64 && x <= i32::MAX as i64).map(|x| x as i32).collect();
    out.sort_unstable();
    out.dedup();
    out
}

fn display_fix(v: i32, buf: &mut String) -> Result<(), String> {
    buf.clear();
    match panics::catch(|| write!(buf, "{}", FixWord(v))) {
        Ok(Ok(())) => Ok(()),
        Ok(Err(_)) => Err("Display returned fmt::Error".into()),
        Err(p) => Err(format!("Display panics at {}: {}", p.site(), p.message)),
    }
}

/// Display against TFtoPL §40–43, plus the two self-checks of the reference (the printed
/// decimal lies within half a fix_word unit of the value; PLtoTF's get_fix reads it back).
/// Returns the number of fraction digits.
fn check_display(v: i32, buf: &mut String, mb: &mut Vec<u8>) -> Result<usize, String> {
    display_fix(v, buf)?;
    mb.clear();
    ma::out_fix(v, mb)?;
    if buf.as_bytes() != &mb[..] {
        return Err(format!(
            "FixWord({v}) prints as {:?}; TFtoPL 40-43 prints {:?}",
            buf,
            String::from_utf8_lossy(mb)
        ));
    }
    let digits = ma::decimal_within_half_unit(mb, v).map_err(|e| format!("reference self-check: TFtoPL text {:?} for word {v}: {e}", String::from_utf8_lossy(mb)))?;
    match ma::get_fix(mb) {
        Some(r) if r == v => {}
        other => return Err(format!("reference self-check: PLtoTF get_fix reads {:?} as {:?}, word was {v}", String::from_utf8_lossy(mb), other)),
    }
    Ok(digits)
}

fn parse_single_ast(v: i32, text: &str) -> Result<(), String> {
    let src = format!("(DESIGNUNITS R {text})\n");
    let (ast, warnings) = match panics::catch(|| Ast::from_pl_source_code(&src)) {
        Ok(r) => r,
        Err(p) => return Err(format!("PL reader panics on {:?} at {}: {}", src, p.site(), p.message)),
    };
    if !warnings.is_empty() {
        return Err(format!("PL reader warns on {:?}: {:?}", src, warnings));
    }
    match &ast.0[..] {
        [Root::DesignUnits(sv)] if sv.data.0 == v => Ok(()),
        other => Err(format!("FixWord({v}) prints as {text:?} which the PL reader reads back as {:?}", other)),
    }
}

fn parse_single_file(v: i32, text: &str) -> Result<(), String> {
    let src = format!("(FONTDIMEN\n   (PARAMETER D 3 R {text})\n   )\n");
    let (file, warnings) = match panics::catch(|| tfm::pl::File::from_pl_source_code(&src)) {
        Ok(r) => r,
        Err(p) => return Err(format!("pl::File reader panics on {:?} at {}: {}", src, p.site(), p.message)),
    };
    if !warnings.is_empty() {
        return Err(format!("pl::File reader warns on {:?}: {:?}", src, warnings));
    }
    if file.params.len() != 3 || file.params[2].0 != v {
        return Err(format!("FixWord({v}) prints as {text:?}; pl::File reads the parameter back as {:?}", file.params));
    }
    Ok(())
}

fn fix_single(v: &i32) -> Verdict {
    let v = *v;
    if v == i32::MIN {
        return Verdict::Skip("i32::MIN (-2048.0) is not expressible in PL");
    }
    let mut buf = String::new();
    let mut mb = vec![];
    if let Err(e) = check_display(v, &mut buf, &mut mb) {
        return Verdict::Fail(e);
    }
    if let Err(e) = parse_single_ast(v, &buf) {
        return Verdict::Fail(e);
    }
    if let Err(e) = parse_single_file(v, &buf) {
        return Verdict::Fail(e);
    }
    Verdict::pass(v & 0xFFFFF != 0)
}

fn pinpoint(vals: &[i32], why: String) -> (i32, String) {
    for v in vals {
        if let Verdict::Fail(m) = fix_single(v) {
            return (*v, m);
        }
    }
    (vals[0], format!("{why}; every value of the batch passes when read alone (batch of {} starting at this value)", vals.len()))
}

const DIGIT_CLASSES: [&str; 8] = [
    "fraction_digits=0", "fraction_digits=1", "fraction_digits=2", "fraction_digits=3", "fraction_digits=4", "fraction_digits=5", "fraction_digits=6",
    "fraction_digits=7",
];

fn run_fixword_text(ctx: &Ctx) {
    let edges = fix_edges();
    let salt = mix(ctx.seed, 0xC17A) as u32;
    let (plan, exhaustive) = match ctx.tier {
        Tier::Quick => (
            Plan::new(vec![
                Seg::Range { lo: -((1 << 22) - 1), n: (1 << 23) - 1 },
                Seg::Multiples { step: 4099, kmin: -523_905, n: 2 * 523_905 + 1 },
                Seg::List(edges.clone()),
                Seg::Mixed { n: 16_000_000, salt },
            ]),
            false,
        ),
        Tier::Thorough => (Plan::new(vec![Seg::Range { lo: -(i32::MAX as i64), n: u32::MAX as u64 }]), true),
    };
    const B: u64 = 4096;
    let chunks = plan.total.div_ceil(B);
    hot_loop(
        ctx,
        "fixword_text",
        chunks,
        exhaustive,
        |j, t: &mut Tally| {
            let lo = j * B;
            let hi = ((j + 1) * B).min(plan.total);
            let mut src = String::with_capacity((hi - lo) as usize * 30);
            let mut vals: Vec<i32> = Vec::with_capacity((hi - lo) as usize);
            let mut buf = String::new();
            let mut mb: Vec<u8> = vec![];
            let mut digits = [0u64; 8];
            let (mut neg, mut big, mut nt) = (0u64, 0u64, 0u64);
            for i in lo..hi {
                let (v, fresh) = plan.at(i);
                if v == i32::MIN {
                    t.skip("i32::MIN (-2048.0) is not expressible in PL", 1);
                    continue;
                }
                let d = check_display(v, &mut buf, &mut mb).map_err(|e| (v, e))?;
                digits[d.min(7)] += 1;
                src.push_str("(DESIGNUNITS R ");
                src.push_str(&buf);
                src.push_str(")\n");
                vals.push(v);
                if v < 0 {
                    neg += 1;
                }
                if !(-(1 << 24)..(1 << 24)).contains(&v) {
                    big += 1;
                }
                if fresh && v & 0xFFFFF != 0 {
                    nt += 1;
                    if i % 1_000_003 == 0 {
                        t.samples.push(format!("FixWord({v}) <-> R {buf}"));
                    }
                }
            }
            let (ast, warnings) = match panics::catch(|| Ast::from_pl_source_code(&src)) {
                Ok(r) => r,
                Err(p) => return Err(pinpoint(&vals, format!("PL reader panics at {}: {}", p.site(), p.message))),
            };
            if !warnings.is_empty() || ast.0.len() != vals.len() {
                return Err(pinpoint(&vals, format!("PL reader returns {} nodes and {} warnings for {} values", ast.0.len(), warnings.len(), vals.len())));
            }
            for (root, &v) in ast.0.iter().zip(vals.iter()) {
                match root {
                    Root::DesignUnits(sv) if sv.data.0 == v => {}
                    other => {
                        let mut b = String::new();
                        let _ = display_fix(v, &mut b);
                        return Err((v, format!("FixWord({v}) prints as {b:?} which the PL reader reads back as {:?}", other)));
                    }
                }
            }
            t.evals += vals.len() as u64;
            t.nontrivial += nt;
            for (k, n) in digits.iter().enumerate() {
                t.class(DIGIT_CLASSES[k], *n);
            }
            t.class("negative", neg);
            t.class("|value|>=16.0", big);
            Ok(())
        },
        fix_single,
    );
    ctx.extra("fixword_text", "values_enumerated", serde_json::json!(plan.total));

    // The same round trip through the complete reader pl::File::from_pl_source_code
    // (FONTDIMEN PARAMETER values are unrestricted fix_words), 254 values per file.
    let n_mixed = ctx.tier.pick(200_000u64, 5_000_000u64);
    let plan2 = Plan::new(vec![Seg::List(edges), Seg::Mixed { n: n_mixed, salt: salt ^ 0x5555_5555 }]);
    const B2: u64 = 254;
    hot_loop(
        ctx,
        "fixword_text_file",
        plan2.total.div_ceil(B2),
        false,
        |j, t: &mut Tally| {
            let lo = j * B2;
            let hi = ((j + 1) * B2).min(plan2.total);
            let mut src = String::from("(FONTDIMEN\n");
            let mut vals: Vec<i32> = vec![];
            let mut buf = String::new();
            let mut nt = 0;
            for i in lo..hi {
                let (v, fresh) = plan2.at(i);
                if v == i32::MIN {
                    t.skip("i32::MIN (-2048.0) is not expressible in PL", 1);
                    continue;
                }
                display_fix(v, &mut buf).map_err(|e| (v, e))?;
                vals.push(v);
                let _ = writeln!(src, "   (PARAMETER D {} R {})", vals.len(), buf);
                if fresh && v & 0xFFFFF != 0 {
                    nt += 1;
                }
            }
            src.push_str("   )\n");
            let (file, warnings) = match panics::catch(|| tfm::pl::File::from_pl_source_code(&src)) {
                Ok(r) => r,
                Err(p) => return Err(pinpoint(&vals, format!("pl::File reader panics at {}: {}", p.site(), p.message))),
            };
            if !warnings.is_empty() || file.params.len() != vals.len() {
                return Err(pinpoint(&vals, format!("pl::File reader returns {} parameters and {} warnings for {} values", file.params.len(), warnings.len(), vals.len())));
            }
            for (p, &v) in file.params.iter().zip(vals.iter()) {
                if p.0 != v {
                    let _ = display_fix(v, &mut buf);
                    return Err((v, format!("FixWord({v}) prints as {buf:?}; pl::File reads the parameter back as {}", p.0)));
                }
            }
            t.evals += vals.len() as u64;
            t.nontrivial += nt;
            Ok(())
        },
        fix_single,
    );
}

// ------------------------------------------------------------------------------------
// (b) to_scaled

fn bij(x: u64, bits: u32, salt: u64) -> u64 {
    // composition of bijections on `bits`-bit integers
    let mask = (1u64 << bits) - 1;
    let h = bits / 2;
    let mut x = x.wrapping_add(salt) & mask;
    x ^= x >> h;
    x = x.wrapping_mul(0x9E37_79B9_7F4A_7C15) & mask;
    x ^= x >> (h + 1);
    x = x.wrapping_mul(0xBF58_476D_1CE4_E5B9) & mask;
    x ^= x >> h;
    x
}

fn scaled_grid() -> (Vec<i32>, Vec<i32>) {
    let mut vs: Vec<i64> = vec![0, -(1 << 24)];
    for k in 0..=24 {
        let p = 1i64 << k;
        for d in -2i64..=2 {
            vs.push(p + d);
            vs.push(-(p + d));
        }
    }
    for pat in [0x0000FFi64, 0x00FF00, 0xFF0000, 0x00FFFF, 0xFFFF00, 0xFF00FF, 0x010101, 0x800000, 0x7FFFFF, 0x555555, 0xAAAAAA, 0x0100FF, 0x01FF00, 0x7F7F7F, 0x808080, 0xFFFFFE] {
        vs.push(pat);
        vs.push(-pat);
        vs.push(pat - (1 << 24));
    }
    // cmr10-like dimensions
    for w in [349526i64, 1048579, 291271, 174763, 116508, 451470, 728178, 81556] {
        vs.push(w);
        vs.push(-w);
    }
    let mut vs: Vec<i32> = vs.into_iter().filter(|x| (-(1 << 24)..(1 << 24)).contains(x)).map(|x| x as i32).collect();
    vs.sort_unstable();
    vs.dedup();

    let mut ds: Vec<i64> = vec![];
    for e in 20..=30 {
        let p = 1i64 << e;
        for d in [0i64, 1, 2, 15, 16, 17, 31, 32, 33, 255, 256, 257] {
            ds.push(p + d);
            ds.push(2 * p - 1 - d);
        }
        ds.push(p + p / 2);
        ds.push(p + p / 3);
    }
    for n in [5i64, 6, 7, 8, 9, 10, 11, 12, 14, 17, 20, 25, 100, 1000, 2047] {
        ds.push(n << 20);
    }
    for x in [11_482_955i64, 12_582_912 + 7, 26_089_779, 10_485_760 + 8] {
        ds.push(x);
    }
    let mut ds: Vec<i32> = ds.into_iter().filter(|x| ((1 << 20)..(1i64 << 31)).contains(x)).map(|x| x as i32).collect();
    ds.sort_unstable();
    ds.dedup();
    (vs, ds)
}

#[derive(Clone, Copy, Debug)]
struct ScaledInfo {
    negative: bool,
    halvings: u32,
    exact: bool,
}

fn check_to_scaled(v: i32, ds: i32) -> Result<ScaledInfo, String> {
    let got = match panics::catch(|| FixWord(v).to_scaled(FixWord(ds))) {
        Ok(s) => s.0 as i64,
        Err(p) => return Err(format!("FixWord({v}).to_scaled(FixWord({ds})) panics at {}: {}", p.site(), p.message)),
    };
    let sc = ma::tex_scale(ds).ok_or_else(|| format!("reference: TeX would abort on design size word {ds}"))?;
    let want = ma::store_scaled(v, &sc).ok_or_else(|| format!("reference: store_scaled aborts on word {v}"))?;
    let (want2, exact) = ma::store_scaled_i128(v, ds).ok_or_else(|| format!("reference: closed form undefined for ({v},{ds})"))?;
    if want as i128 != want2 {
        return Err(format!("reference self-check: TeX 571 byte arithmetic gives {want}, closed form gives {want2} for word {v}, design size word {ds}"));
    }
    if got != want {
        return Err(format!(
            "FixWord({v}).to_scaled(FixWord({ds})) = {got} sp; TeX 571-572 store_scaled gives {want} sp (z'={}, alpha={}, beta={})",
            sc.z, sc.alpha, sc.beta
        ));
    }
    Ok(ScaledInfo { negative: v < 0, halvings: sc.halvings, exact })
}

const HALVING_CLASSES: [&str; 5] = ["beta=16 (design size < 128pt)", "beta=8", "beta=4", "beta=2", "beta=1 (design size >= 1024pt)"];

fn run_to_scaled(ctx: &Ctx) {
    let (gv, gd) = scaled_grid();
    let grid = (gv.len() * gd.len()) as u64;
    let random = ctx.tier.pick(50_000_000u64, 1_000_000_000u64);
    let total = grid + random;
    let salt = mix(ctx.seed, 0xC17B);
    let pair_at = |i: u64| -> (i32, i32, bool) {
        if i < grid {
            let (a, b) = ((i / gd.len() as u64) as usize, (i % gd.len() as u64) as usize);
            (gv[a], gd[b], true)
        } else {
            let i = i - grid;
            let e = 20 + (i % 11) as u32; // magnitude class of the design size: [2^e, 2^(e+1))
            let j = i / 11;
            let h = bij(j, 25 + e, salt);
            let v = (h & ((1 << 25) - 1)) as i64 - (1 << 24);
            let ds = (1i64 << e) + (h >> 25) as i64;
            let v = v as i32;
            let ds = ds as i32;
            let fresh = !(gv.binary_search(&v).is_ok() && gd.binary_search(&ds).is_ok());
            (v, ds, fresh)
        }
    };
    const B: u64 = 1 << 16;
    hot_loop(
        ctx,
        "to_scaled",
        total.div_ceil(B),
        false,
        |j, t: &mut Tally| {
            let lo = j * B;
            let hi = ((j + 1) * B).min(total);
            let mut halv = [0u64; 5];
            let (mut neg, mut exact, mut nt) = (0u64, 0u64, 0u64);
            for i in lo..hi {
                let (v, ds, fresh) = pair_at(i);
                let info = check_to_scaled(v, ds).map_err(|e| ((v, ds), e))?;
                halv[info.halvings.min(4) as usize] += 1;
                if info.negative {
                    neg += 1;
                }
                if info.exact {
                    exact += 1;
                } else if fresh {
                    nt += 1;
                    if i % 1_000_003 == 0 {
                        t.samples.push(format!("FixWord({v}).to_scaled(FixWord({ds}))"));
                    }
                }
            }
            t.evals += hi - lo;
            t.nontrivial += nt;
            for (k, n) in halv.iter().enumerate() {
                t.class(HALVING_CLASSES[k], *n);
            }
            t.class("negative value", neg);
            t.class("no truncation (trivial)", exact);
            Ok(())
        },
        |&(v, ds): &(i32, i32)| {
            if !(-(1 << 24)..(1 << 24)).contains(&v) || ds < (1 << 20) {
                return Verdict::Skip("outside TeX's legal ranges");
            }
            match check_to_scaled(v, ds) {
                Ok(i) => Verdict::pass(!i.exact),
                Err(e) => Verdict::Fail(e),
            }
        },
    );
    ctx.extra("to_scaled", "grid_pairs", serde_json::json!(grid));
}

// ------------------------------------------------------------------------------------
// (c) compress

#[derive(Clone, Debug, Serialize, Deserialize)]
pub struct CompressCase {
    pub values: Vec<i32>,
    pub limit: u8,
}

const LEGAL: i32 = 1 << 24;

fn clamp_legal(x: i64) -> i32 {
    x.clamp(-(LEGAL as i64) + 1, LEGAL as i64 - 1) as i32
}

fn compress_strategy() -> impl Strategy<Value = CompressCase> {
    let small = vec(-24i32..=24, 0..=300);
    let lattice = (1i32..=2000, -60i32..=60, vec((0i32..=80, 0u8..=9), 0..=300)).prop_map(|(step, off, ks)| {
        ks.into_iter().map(|(k, j)| clamp_legal((k + off) as i64 * step as i64 + if j == 0 { 1 } else { 0 })).collect::<Vec<i32>>()
    });
    let clustered = (vec(-LEGAL + 1..LEGAL, 1..=24), vec((any::<u16>(), -200i32..=200), 0..=300)).prop_map(|(centres, pts)| {
        pts.into_iter().map(|(p, o)| clamp_legal(centres[pick_idx(p, centres.len())] as i64 + o as i64)).collect::<Vec<i32>>()
    });
    let wide = vec(-LEGAL + 1..LEGAL, 0..=300);
    // dimensions as PL files have them: thousandths of the design size, rounded to fix_words
    let afm = vec(-300i32..=1000, 0..=300).prop_map(|ks| ks.into_iter().map(|k| ((k as i64 * (1 << 20) + if k >= 0 { 500 } else { -500 }) / 1000) as i32).collect::<Vec<i32>>());
    let values = prop_oneof![
        3 => small,
        3 => lattice,
        2 => clustered,
        2 => wide,
        2 => afm,
    ];
    let limit = prop_oneof![
        3 => 1u8..=8,
        2 => Just(15u8),
        1 => Just(63u8),
        1 => Just(255u8),
        4 => 1u8..=255,
    ];
    // Heights, depths and italic corrections of real fonts are mostly non-negative: half of
    // the cases use magnitudes only.
    (values, limit, any::<bool>()).prop_map(|(values, limit, magnitudes)| CompressCase { values: if magnitudes { values.into_iter().map(|v| v.abs()).collect() } else { values }, limit })
}

#[derive(Debug, Default)]
struct CompressInfo {
    classes: usize,
    dstar: i64,
    /// classes whose representative is not PLtoTF's midpoint: (l, u, representative found)
    bad_midpoints: Vec<(i64, i64, i64)>,
    odd_negative_sum_class: bool,
}

/// The validity predicate of C17(c), applied to any (table, value→index) answer.
fn compress_valid(sorted: &[i64], limit: usize, table: &[i64], index_of: &BTreeMap<i64, usize>) -> Result<CompressInfo, String> {
    let n = sorted.len();
    if table.first() != Some(&0) {
        return Err(format!("table does not start with the zero entry: {:?}", table.first()));
    }
    let k = table.len() - 1;
    if k > limit {
        return Err(format!("{k} classes returned, limit is {limit}"));
    }
    if index_of.len() != n {
        return Err(format!("index map has {} keys, there are {} distinct inputs", index_of.len(), n));
    }
    let mut idx: Vec<usize> = Vec::with_capacity(n);
    for s in sorted {
        match index_of.get(s) {
            Some(&i) if i >= 1 && i <= k => idx.push(i),
            Some(&i) => return Err(format!("input {s} maps to index {i}, table has classes 1..={k}")),
            None => return Err(format!("input {s} has no class")),
        }
    }
    // classes are consecutive runs of the sorted distinct inputs, numbered 1..=k in order
    if n == 0 {
        if k != 0 {
            return Err(format!("no inputs but {k} classes"));
        }
    } else {
        if idx[0] != 1 {
            return Err(format!("smallest input {} is in class {}, not 1", sorted[0], idx[0]));
        }
        for w in 0..n - 1 {
            if idx[w + 1] != idx[w] && idx[w + 1] != idx[w] + 1 {
                return Err(format!(
                    "classes are not consecutive intervals: {} is in class {}, the next input {} in class {}",
                    sorted[w],
                    idx[w],
                    sorted[w + 1],
                    idx[w + 1]
                ));
            }
        }
        if idx[n - 1] != k {
            return Err(format!("largest input is in class {}, table has {k} classes (empty class)", idx[n - 1]));
        }
    }
    let dstar = ma::smallest_tolerance(sorted, limit);
    let mut info = CompressInfo { classes: k, dstar, ..Default::default() };
    let mut spread = 0i64;
    let mut w = 0usize;
    while w < n {
        let mut e = w;
        while e + 1 < n && idx[e + 1] == idx[w] {
            e += 1;
        }
        let (l, u) = (sorted[w], sorted[e]);
        spread = spread.max(u - l);
        let rep = table[idx[w]];
        if (l + u) < 0 && (l + u) % 2 != 0 {
            info.odd_negative_sum_class = true;
        }
        if rep != ma::midpoint(l, u, ma::Midpoint::PlToTf) {
            info.bad_midpoints.push((l, u, rep));
        }
        for &s in &sorted[w..=e] {
            // within half the tolerance, on the fix_word grid: |s-rep| <= ceil(dstar/2)
            if 2 * (s - rep).abs() > dstar + 1 {
                return Err(format!(
                    "input {s} is {} away from its representative {rep}; half the smallest tolerance {dstar} is {}",
                    (s - rep).abs(),
                    (dstar + 1) / 2
                ));
            }
        }
        w = e + 1;
    }
    if spread != dstar {
        return Err(format!(
            "largest class spread is {spread}; the smallest tolerance for which {limit} intervals cover the {n} distinct inputs is {dstar}"
        ));
    }
    Ok(info)
}

fn compress_oracle(ctx: &Ctx, c: &CompressCase, case: &mut Case) -> Verdict {
    if c.limit == 0 {
        return Verdict::Skip("class limit 0 is outside 1..=255");
    }
    if c.values.len() > 300 || c.values.iter().any(|v| *v <= -LEGAL || *v >= LEGAL) {
        return Verdict::Skip("outside the stated domain (<=300 values, |value| < 16.0)");
    }
    let limit = c.limit as usize;
    let input: Vec<FixWord> = c.values.iter().map(|v| FixWord(*v)).collect();
    let lim = c.limit;
    let (table, map) = match guarded(move || tfm::compress(&input, lim)) {
        Guarded::Done(r) => r,
        Guarded::Panicked(p) => return Verdict::Fail(format!("compress(values, {}) panics at {}: {}\nvalues: {:?}", c.limit, p.site(), p.message, c.values)),
        Guarded::TimedOut => return Verdict::Fail(format!("compress(values, {}) did not return within {WATCHDOG_SECS} s (it normally takes microseconds): it does not terminate\nvalues: {:?}", c.limit, c.values)),
        Guarded::NotCalled => return Verdict::Skip("an earlier call did not terminate; the function is not called again in this process"),
    };
    let sorted: Vec<i64> = c.values.iter().map(|v| *v as i64).collect::<BTreeSet<i64>>().into_iter().collect();
    let n = sorted.len();
    let table: Vec<i64> = table.iter().map(|f| f.0 as i64).collect();
    let index_of: BTreeMap<i64, usize> = map.iter().map(|(k, v)| (k.0 as i64, v.get() as usize)).collect();

    case.class_if(n > limit, "needs compression");
    case.class_if(n < c.values.len(), "has duplicates");
    case.class_if(sorted.first().is_some_and(|v| *v < 0), "has negative values");
    case.class_if(n >= 100, "distinct>=100");
    case.note = Some(format!("limit {} for {} values ({} distinct): {:?}", c.limit, c.values.len(), n, c.values));

    let info = match compress_valid(&sorted, limit, &table, &index_of) {
        Ok(i) => i,
        Err(e) => return Verdict::Fail(format!("compress(values, {}) is not a valid answer: {e}\nvalues (sorted, distinct): {:?}\ntable: {:?}", c.limit, sorted, table)),
    };
    // PLtoTF's own search must find the same tolerance as the brute-force definition.
    let d_knuth = ma::shorten(&sorted, limit);
    if d_knuth != info.dstar {
        return Verdict::Fail(format!("reference self-check: PLtoTF shorten gives {d_knuth}, brute force gives {} for {:?} limit {limit}", info.dstar, sorted));
    }
    case.class_if(info.odd_negative_sum_class, "class with odd negative l+u");
    if n > limit {
        case.class_if(info.classes < limit, "fewer classes than the limit");
        // Informational: PLtoTF stops merging once the table fits (`excess`), the full greedy
        // cover may merge more. Both satisfy the property.
        let (gi, _) = ma::set_indices(&sorted, info.dstar, None, ma::Midpoint::PlToTf);
        let (pi, _) = ma::set_indices(&sorted, info.dstar, Some(n - limit), ma::Midpoint::PlToTf);
        let got: Vec<usize> = sorted.iter().map(|s| index_of[s]).collect();
        case.class_if(got == gi, "partition = full greedy cover");
        case.class_if(got == pi, "partition = PLtoTF set_indices (excess rule)");
        case.class_if(gi != pi, "PLtoTF excess rule gives another partition");
    }
    if !info.bad_midpoints.is_empty() {
        let explained = info.bad_midpoints.iter().all(|&(l, u, rep)| rep == ma::midpoint(l, u, ma::Midpoint::SumTruncatedTowardZero));
        if explained && ctx.known(FLAG_MIDPOINT) {
            return Verdict::Known(FLAG_MIDPOINT.into());
        }
        let (l, u, rep) = info.bad_midpoints[0];
        return Verdict::Fail(format!(
            "compress(values, {}): class [{l}, {u}] is represented by {rep}; PLtoTF 78 stores l+(u-l) div 2 = {}{}\nvalues (sorted, distinct): {:?}\ntable: {:?}",
            c.limit,
            ma::midpoint(l, u, ma::Midpoint::PlToTf),
            if explained { " (all differences are explained by (l+u)/2 truncated toward zero)" } else { "" },
            sorted,
            table
        ));
    }
    Verdict::pass(n > limit)
}

/// Exhaustive small scope: every subset of a 12-point universe with every limit 1..=12.
const SMALL_UNIVERSE: [i32; 12] = [-14, -9, -8, -5, -3, -2, 0, 1, 4, 6, 7, 13];

fn compress_small_case(i: u64) -> CompressCase {
    let subset = i % (1 << 12);
    let limit = (i >> 12) as u8 + 1;
    let values = (0..12).filter(|b| subset >> b & 1 == 1).map(|b| SMALL_UNIVERSE[b]).collect();
    CompressCase { values, limit }
}

// ------------------------------------------------------------------------------------
// (d) next larger

#[derive(Clone, Debug, Serialize, Deserialize)]
pub struct NlCase {
    /// (character, pick, mode): the character's NEXTLARGER is, depending on mode, another
    /// listed character chosen by `pick`, the next listed character (cyclically), or the
    /// arbitrary character `pick mod 256`. A character listed twice keeps its first link.
    pub links: Vec<(u8, u16, u8)>,
    /// characters without a CHARACTER entry (unless they carry a link themselves)
    pub missing: Vec<u8>,
    pub drop_missing: bool,
}

fn nl_strategy() -> impl Strategy<Value = NlCase> {
    let entry = (any::<u8>(), any::<u16>(), any::<u8>());
    let narrow = (0u8..=255, 1u8..=12).prop_flat_map(|(base, width)| {
        vec(((0..width).prop_map(move |o| base.wrapping_add(o.wrapping_mul(37))), any::<u16>(), any::<u8>()), 0..=24)
    });
    let links = prop_oneof![
        3 => vec(entry.clone(), 0..=12),
        3 => narrow,
        3 => vec(entry.clone(), 0..=80),
        2 => vec(entry, 150..=400),
    ];
    (links, vec(any::<u8>(), 0..=6), any::<bool>()).prop_map(|(links, missing, drop_missing)| NlCase { links, missing, drop_missing })
}

struct NlBuilt {
    order: Vec<(u8, u8)>,
    exists: [bool; 256],
}

fn nl_build(c: &NlCase) -> NlBuilt {
    let raw: Vec<u8> = c.links.iter().map(|l| l.0).collect();
    let mut has = [false; 256];
    let mut order = vec![];
    for (i, &(src, pick, mode)) in c.links.iter().enumerate() {
        if has[src as usize] {
            continue;
        }
        has[src as usize] = true;
        let tgt = match mode {
            0..=149 => raw[pick_idx(pick, raw.len())],
            150..=219 => raw[(i + 1) % raw.len()],
            _ => (pick & 255) as u8,
        };
        order.push((src, tgt));
    }
    let mut exists = [true; 256];
    for &m in &c.missing {
        exists[m as usize] = false;
    }
    for &(s, _) in &order {
        exists[s as usize] = true;
    }
    NlBuilt { order, exists }
}

fn nl_check(order: &[(u8, u8)], exists: &[bool; 256], drop_missing: bool, case: &mut Case) -> Result<Option<bool>, String> {
    let (o2, e2) = (order.to_vec(), *exists);
    let (program, warnings) = match guarded(move || NextLargerProgram::new(o2.iter().map(|&(a, b)| (Char(a), Char(b))), |c| e2[c.0 as usize], drop_missing)) {
        Guarded::Done(r) => r,
        Guarded::Panicked(p) => return Err(format!("NextLargerProgram::new panics at {}: {}\nlinks {:?} drop={drop_missing}", p.site(), p.message, order)),
        Guarded::TimedOut => return Err(format!("NextLargerProgram::new did not return within {WATCHDOG_SECS} s: it does not terminate\nlinks {:?} drop={drop_missing}", order)),
        Guarded::NotCalled => return Ok(None),
    };

    // The font's links, after TFtoPL (drop) or PLtoTF (keep) treated links to absent characters.
    let mut links: ma::Links = [None; 256];
    let mut want_missing: Vec<(u8, u8)> = vec![];
    for &(a, b) in order {
        if !exists[b as usize] {
            want_missing.push((a, b));
            if drop_missing {
                continue;
            }
        }
        links[a as usize] = Some(b);
    }
    // Property text: every cycle is cut at its largest character ...
    let cyc = ma::cycles(&links);
    let want_cut: Vec<u8> = cyc.iter().map(|m| *m.last().unwrap()).collect();
    // ... which is what TFtoPL 84 / PLtoTF 113 compute.
    let mut cut_links = links;
    let knuth_cut = ma::break_cycles_knuth(&mut cut_links);
    if knuth_cut != want_cut {
        return Err(format!("reference self-check: TFtoPL 84 cuts at {:?}, the largest characters of the cycles are {:?}", knuth_cut, want_cut));
    }

    let mut got_missing: Vec<(u8, u8)> = vec![];
    let mut got_loops: Vec<(u8, u8)> = vec![];
    for w in &warnings {
        match w {
            NextLargerProgramWarning::NonExistentCharacter { original, next_larger } => got_missing.push((original.0, next_larger.0)),
            NextLargerProgramWarning::InfiniteLoop { original, next_larger } => got_loops.push((original.0, next_larger.0)),
        }
    }
    let loops_in_knuth_order = got_loops.windows(2).all(|w| w[0].0 < w[1].0);
    got_missing.sort_unstable();
    got_loops.sort_unstable();
    want_missing.sort_unstable();
    let want_loops: Vec<(u8, u8)> = want_cut.iter().map(|&c| (c, links[c as usize].unwrap())).collect();
    let describe = || format!("links {:?}, absent targets {:?}, drop={drop_missing}", order, want_missing);
    if got_loops != want_loops {
        return Err(format!(
            "cycle warnings (character cut, its link) {:?}; expected one per cycle at the largest character of the cycle: {:?} (cycles {:?})\n{}",
            got_loops,
            want_loops,
            cyc,
            describe()
        ));
    }
    if got_missing != want_missing {
        return Err(format!("warnings about absent characters {:?}, expected {:?}\n{}", got_missing, want_missing, describe()));
    }
    let mut tail_into_cycle = false;
    let on_cycle: BTreeSet<u8> = cyc.iter().flatten().copied().collect();
    for c in 0..=255u8 {
        let got: Vec<u8> = program.get(Char(c)).take(300).map(|c| c.0).collect();
        if got.len() > 256 {
            return Err(format!("the chain of character {c} does not end within 256 steps\n{}", describe()));
        }
        let want = ma::chain(&cut_links, c).ok_or("reference: chain not finite after cutting")?;
        if got != want {
            return Err(format!("chain of character {c} is {:?}, expected {:?} (cycles {:?} cut at {:?})\n{}", got, want, cyc, want_cut, describe()));
        }
        if !on_cycle.contains(&c) && want.iter().any(|x| on_cycle.contains(x)) {
            tail_into_cycle = true;
        }
    }
    let big = cyc.iter().any(|m| m.len() >= 2);
    case.class_if(cyc.is_empty(), "no cycle");
    case.class_if(big, "cycle of length>=2");
    case.class_if(cyc.iter().any(|m| m.len() == 1), "self loop");
    case.class_if(cyc.len() >= 2, "two or more cycles");
    case.class_if(cyc.iter().any(|m| m.len() >= 10), "cycle of length>=10");
    case.class_if(tail_into_cycle, "tail leading into a cycle");
    case.class_if(!want_missing.is_empty(), "link to absent character");
    case.class_if(!want_missing.is_empty() && !drop_missing, "absent character kept as end of a chain");
    case.class_if(!loops_in_knuth_order, "cycle warnings not in increasing order");
    case.class_if(order.len() >= 100, "links>=100");
    Ok(Some(big || tail_into_cycle))
}

fn nl_oracle(c: &NlCase, case: &mut Case) -> Verdict {
    if c.links.len() > 400 {
        return Verdict::Skip("more than 400 link entries");
    }
    let b = nl_build(c);
    case.note = Some(format!("links {:?} absent {:?} drop={}", b.order, (0..=255u8).filter(|c| !b.exists[*c as usize]).collect::<Vec<u8>>(), c.drop_missing));
    match nl_check(&b.order, &b.exists, c.drop_missing, case) {
        Ok(Some(nt)) => Verdict::pass(nt),
        Ok(None) => Verdict::Skip("an earlier call did not terminate; the function is not called again in this process"),
        Err(e) => Verdict::Fail(e),
    }
}

/// Exhaustive small scope: 5 characters (codes not in index order), each without a link or
/// linked to one of the five: 6^5 graphs, times two code assignments.
const SMALL_CHARS: [[u8; 5]; 2] = [[200, 3, 97, 255, 0], [5, 6, 7, 8, 9]];

fn nl_small_case(i: u64) -> (Vec<(u8, u8)>, u8) {
    let which = (i % 2) as usize;
    let mut g = i / 2;
    let chars = SMALL_CHARS[which];
    let mut order = vec![];
    for k in 0..5 {
        let d = (g % 6) as usize;
        g /= 6;
        if d > 0 {
            order.push((chars[k], chars[d - 1]));
        }
    }
    // rotate the edge order so that insertion order varies too
    if !order.is_empty() {
        let r = (i as usize / 7) % order.len();
        order.rotate_left(r);
    }
    (order, which as u8)
}

// ------------------------------------------------------------------------------------
// Calibration on the repository's TeX-verified goldens

fn calibrate_compress() -> Result<u64, String> {
    let one = 1i64 << 20;
    // (values, limit, want table, want index per input) — crates/tfm/src/lib.rs compress_tests!
    let goldens: Vec<(Vec<i64>, usize, Vec<i64>, Vec<usize>)> = vec![
        (vec![], 1, vec![0], vec![]),
        (vec![2 * one, one], 2, vec![0, one, 2 * one], vec![2, 1]),
        (vec![one, one], 1, vec![0, one], vec![1, 1]),
        (vec![one, 2 * one], 1, vec![0, one * 3 / 2], vec![1, 1]),
        (vec![one, 2 * one, 200 * one, 201 * one], 2, vec![0, one * 3 / 2, one * 401 / 2], vec![1, 1, 2, 2]),
        (vec![1, 3], 1, vec![0, 2], vec![1, 1]),
        (vec![0, 2], 1, vec![0, 1], vec![1, 1]),
        (vec![1, 4], 1, vec![0, 2], vec![1, 1]),
        (vec![1, 2], 1, vec![0, 1], vec![1, 1]),
    ];
    let n = goldens.len() as u64;
    for (values, limit, table, idx) in goldens {
        let sorted: Vec<i64> = values.iter().copied().collect::<BTreeSet<i64>>().into_iter().collect();
        let index_of: BTreeMap<i64, usize> = values.iter().copied().zip(idx.iter().copied()).collect();
        compress_valid(&sorted, limit, &table, &index_of).map_err(|e| format!("the validity predicate rejects the golden answer for {:?} limit {limit}: {e}", values)).and_then(|i| {
            if i.bad_midpoints.is_empty() {
                Ok(())
            } else {
                Err(format!("golden answer for {:?} has a representative that is not PLtoTF's midpoint: {:?}", values, i.bad_midpoints))
            }
        })?;
        // the literal PLtoTF transcription reproduces the golden exactly
        let d = ma::shorten(&sorted, limit);
        let excess = sorted.len().checked_sub(limit).filter(|e| *e > 0);
        let (mi, reps) = ma::set_indices(&sorted, d, excess, ma::Midpoint::PlToTf);
        let mut t = vec![0];
        t.extend(reps);
        if t != table {
            return Err(format!("PLtoTF transcription gives table {:?} for {:?} limit {limit}, golden is {:?}", t, values, table));
        }
        for (s, i) in sorted.iter().zip(mi.iter()) {
            if index_of[s] != *i {
                return Err(format!("PLtoTF transcription puts {s} in class {i}, golden has {}", index_of[s]));
            }
        }
    }
    Ok(n)
}

fn calibrate_next_larger() -> Result<u64, String> {
    let (a, b, c, x, y, z) = (b'A', b'B', b'C', b'X', b'Y', b'Z');
    type G = (Vec<(u8, u8)>, Vec<(u8, Vec<u8>)>, Vec<(u8, u8)>);
    let big_edges: Vec<(u8, u8)> = (0..=255u8).map(|u| (u, u.wrapping_add(1))).collect();
    let big_seqs: Vec<(u8, Vec<u8>)> = (0..=255u8).map(|u| (u, if u == 255 { vec![] } else { (u + 1..=255).collect() })).collect();
    let goldens: Vec<G> = vec![
        (vec![(a, a)], vec![(a, vec![])], vec![(a, a)]),
        (
            vec![(a, b), (b, c), (c, b), (x, y), (y, z), (z, x)],
            vec![(a, vec![b, c]), (b, vec![c]), (c, vec![]), (x, vec![y, z]), (y, vec![z]), (z, vec![])],
            vec![(c, b), (z, x)],
        ),
        (vec![(a, b), (b, c), (c, b)], vec![(a, vec![b, c]), (b, vec![c]), (c, vec![])], vec![(c, b)]),
        (big_edges, big_seqs, vec![(255, 0)]),
    ];
    let n = goldens.len() as u64;
    for (edges, seqs, warns) in goldens {
        let mut links: ma::Links = [None; 256];
        for &(s, t) in &edges {
            links[s as usize] = Some(t);
        }
        let cyc = ma::cycles(&links);
        let by_text: Vec<(u8, u8)> = cyc.iter().map(|m| (*m.last().unwrap(), links[*m.last().unwrap() as usize].unwrap())).collect();
        let mut cut = links;
        let k: Vec<(u8, u8)> = ma::break_cycles_knuth(&mut cut).into_iter().map(|c| (c, links[c as usize].unwrap())).collect();
        if k != warns || by_text != warns {
            return Err(format!("next-larger golden {:?}: TFtoPL transcription cuts {:?}, cycle maxima {:?}, golden warnings {:?}", &edges[..edges.len().min(6)], k, by_text, warns));
        }
        let want: BTreeMap<u8, Vec<u8>> = seqs.into_iter().collect();
        for ch in 0..=255u8 {
            let got = ma::chain(&cut, ch).ok_or("chain not finite")?;
            let w = want.get(&ch).cloned().unwrap_or_default();
            if got != w {
                return Err(format!("next-larger golden: reference chain of {ch} is {:?}, golden {:?}", got, w));
            }
        }
    }
    Ok(n)
}

/// fix_words of a TFM file, read directly from the bytes (TFtoPL §8–11 layout).
fn raw_tfm_fix_words(b: &[u8]) -> Option<Vec<i32>> {
    if b.len() < 24 {
        return None;
    }
    let h = |i: usize| u16::from_be_bytes([b[2 * i], b[2 * i + 1]]) as usize;
    let (lf, lh, bc, ec, nw, nh, nd, ni, nl, nk, ne, np) = (h(0), h(1), h(2), h(3), h(4), h(5), h(6), h(7), h(8), h(9), h(10), h(11));
    if lf * 4 != b.len() || ec + 1 < bc || lh < 2 {
        return None;
    }
    let nc = ec + 1 - bc;
    if lf != 6 + lh + nc + nw + nh + nd + ni + nl + nk + ne + np {
        return None;
    }
    let word = |i: usize| i32::from_be_bytes([b[4 * i], b[4 * i + 1], b[4 * i + 2], b[4 * i + 3]]);
    let mut out = vec![word(6 + 1)];
    let dims = 6 + lh + nc;
    for i in dims..dims + nw + nh + nd + ni {
        out.push(word(i));
    }
    let kern = dims + nw + nh + nd + ni + nl;
    for i in kern..kern + nk {
        out.push(word(i));
    }
    let param = kern + nk + ne;
    for i in param..param + np {
        out.push(word(i));
    }
    Some(out)
}

fn pl_real_texts(s: &str) -> Vec<String> {
    let b = s.as_bytes();
    let mut out = vec![];
    let mut i = 0;
    while i + 3 < b.len() {
        if b[i] == b' ' && b[i + 1] == b'R' && b[i + 2] == b' ' {
            let mut j = i + 3;
            while j < b.len() && (b[j] == b'-' || b[j] == b'.' || b[j].is_ascii_digit()) {
                j += 1;
            }
            if j > i + 3 {
                out.push(s[i + 3..j].to_string());
            }
            i = j;
        } else {
            i += 1;
        }
    }
    out
}

/// Computer Modern metrics in the repository's corpus come from METAFONT, so their .plst
/// partner is the output of Knuth's tftopl: every `R` text in it must be what the
/// transcription of TFtoPL §40–43 prints for one of the file's fix_words.
fn calibrate_out_fix_on_corpus(ctx: &Ctx) -> Result<u64, String> {
    let dir = std::env::var("VP_TFM_CORPUS").unwrap_or_else(|_| "/repo/crates/tfm/corpus/computer-modern".to_string());
    let Ok(rd) = std::fs::read_dir(&dir) else {
        ctx.assume("the tftopl corpus directory was not found; TFtoPL 40-43 was calibrated on embedded cmr10 values only");
        return Ok(0);
    };
    let mut names: Vec<std::path::PathBuf> = rd.filter_map(|e| e.ok().map(|e| e.path())).filter(|p| p.extension().is_some_and(|e| e == "tfm")).collect();
    names.sort();
    let mut texts_checked = 0u64;
    let mut files = 0u64;
    for tfm_path in names {
        let pl_path = tfm_path.with_extension("plst");
        let (Ok(bytes), Ok(pl)) = (std::fs::read(&tfm_path), std::fs::read_to_string(&pl_path)) else { continue };
        let Some(words) = raw_tfm_fix_words(&bytes) else { continue };
        let mut printed: BTreeSet<String> = BTreeSet::new();
        for w in words {
            if w == i32::MIN {
                continue;
            }
            let mut v = vec![];
            ma::out_fix(w, &mut v)?;
            printed.insert(String::from_utf8(v).unwrap());
        }
        for t in pl_real_texts(&pl) {
            if !printed.contains(&t) {
                return Err(format!("{}: tftopl printed `R {t}`, which the TFtoPL 40-43 transcription prints for none of the fix_words of {}", pl_path.display(), tfm_path.display()));
            }
            texts_checked += 1;
        }
        files += 1;
    }
    ctx.extra("calibration", "tftopl_corpus_files", serde_json::json!(files));
    ctx.extra("calibration", "tftopl_corpus_real_texts_matched", serde_json::json!(texts_checked));
    Ok(texts_checked)
}

fn calibrate_all(ctx: &Ctx) -> Result<u64, String> {
    let mut n = 0;
    // cmr10 parameter words; the expected texts follow from the definition (shortest decimal
    // within half a unit) and are what cmr10.plst shows.
    let embedded: [(i32, &str); 8] =
        [(0, "0.0"), (349526, "0.333334"), (1048579, "1.000003"), (10 << 20, "10.0"), (174763, "0.166667"), (116509, "0.111112"), (451470, "0.430555"), (-291272, "-0.277779")];
    for (w, text) in embedded {
        let mut v = vec![];
        ma::out_fix(w, &mut v)?;
        if v != text.as_bytes() {
            return Err(format!("TFtoPL 40-43 transcription prints {:?} for word {w}, tftopl prints {text:?}", String::from_utf8_lossy(&v)));
        }
        n += 1;
    }
    n += calibrate_compress()?;
    n += calibrate_next_larger()?;
    n += calibrate_out_fix_on_corpus(ctx)?;
    // TeX 571 on the repository's to_scaled golden (1.0 at design size 1.0 is 1pt)
    let s = ma::tex_scale(1 << 20).ok_or("tex_scale aborts on design size 1.0")?;
    if ma::store_scaled(1 << 20, &s) != Some(65536) || ma::store_scaled(0, &s) != Some(0) {
        return Err("TeX 571 transcription fails the to_scaled_test golden".to_string());
    }
    Ok(n + 2)
}

fn calibrate(ctx: &Ctx) {
    if !ctx.is_generate() || ctx.stop.load(Ordering::SeqCst) {
        return;
    }
    match calibrate_all(ctx) {
        Ok(n) => ctx.add_stats("calibration", n, 0, vec![]),
        Err(e) => ctx.fail_external("calibration", &"reference model disagrees with a golden of the repository", &e),
    }
}

// ------------------------------------------------------------------------------------

pub fn run(ctx: &Ctx) {
    ctx.rule(
        "fixword_text: fix_word bit patterns enumerated by value (quick: |v|<2^22, multiples of 4099, +-2^k+-{0,1,2} and unit boundaries, a bijectively mixed sample; thorough: all 2^32-1), \
         each printed, compared with TFtoPL 40-43 and read back through the PL reader in batches; non-trivial = non-zero fraction part, values counted once. \
         to_scaled: edge grid x random (value, design size) pairs from a bijection per design-size magnitude; non-trivial = the product is truncated. \
         compress: multisets from five shapes (small integers, lattices with equal gaps, clusters, wide, thousandths) x class limit; non-trivial = more distinct values than the limit. \
         next_larger: partial functional graphs on character codes; non-trivial = a cycle of length>=2 or a tail leading into a cycle.",
    );
    ctx.assume("fix_word i32::MIN (-2048.0) is excluded from print/parse: PLtoTF 62-64 rejects every real constant of magnitude >= 2048, so the PL format cannot express it");
    ctx.assume("to_scaled: font loaded at its design size (TeX 568 with s=-1000), |value| < 16.0 (first byte 0 or 255, otherwise TeX aborts), design size in [1,2048) (TeX aborts below 1)");
    ctx.assume("compress: inputs are legal font dimensions |v| < 16.0 (differences fit 32 bits, as PLtoTF assumes); 'within half the tolerance' is read on the fix_word grid, |v-rep| <= ceil(tolerance/2), because PLtoTF's own midpoint l+(u-l) div 2 leaves the upper end of an odd-spread class ceil(spread/2) away (golden lower_upper_close_edge_case_3)");
    ctx.assume("compress is checked by a validity predicate: any partition into consecutive intervals with PLtoTF midpoints, at most `limit` classes and largest spread equal to the smallest feasible tolerance passes; PLtoTF's `excess` rule (stop merging once the table fits) and the full greedy cover are both accepted and counted in the class histogram");
    ctx.assume("next_larger: each character has at most one link (a functional graph); a character that carries a link exists; links to absent characters are dropped (TFtoPL 84) or kept (PLtoTF 111) according to the constructor flag before cycles are looked for; the order of warnings is not constrained");

    calibrate(ctx);
    run_fixword_text(ctx);
    run_to_scaled(ctx);

    // (c)
    run_indexed(ctx, "compress_small", 12 << 12, true, compress_small_case, |c: &CompressCase, case| compress_oracle(ctx, c, case));
    let n = ctx.tier.pick(40_000u64, 200_000u64);
    run_generated(ctx, "compress", n, compress_strategy, |c: &CompressCase, case| compress_oracle(ctx, c, case));

    // (d)
    run_indexed(ctx, "next_larger_small", 2 * 6u64.pow(5) * 2, true, |i| { let (o, w) = nl_small_case(i / 2); (o, w, i % 2 == 1) }, |(order, _w, drop): &(Vec<(u8, u8)>, u8, bool), case| {
        let mut exists = [true; 256];
        // in the second code assignment character 9 has no CHARACTER entry unless it carries a link
        if *_w == 1 && !order.iter().any(|(s, _)| *s == 9) {
            exists[9] = false;
        }
        match nl_check(order, &exists, *drop, case) {
            Ok(Some(nt)) => Verdict::pass(nt),
            Ok(None) => Verdict::Skip("an earlier call did not terminate; the function is not called again in this process"),
            Err(e) => Verdict::Fail(e),
        }
    });
    let n = ctx.tier.pick(100_000u64, 1_000_000u64);
    run_generated(ctx, "next_larger", n, nl_strategy, nl_oracle);
}
