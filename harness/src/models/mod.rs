//! Reference models.
