//! Reference models.
pub mod tex_arith;
pub mod liang;
pub mod hpack;
pub mod dvi_track;
pub mod ligkern_interp;
pub mod tex_lexer;
pub mod tfm_arith;
