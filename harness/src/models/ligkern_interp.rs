//! `ligkern_interp`: a moving-cursor interpreter of RAW lig/kern instructions.
//!
//! Written from TeX82 §1034–1040 (the main loop: `main_lig_loop`, `main_loop_wrapup`,
//! `main_loop_move`, `main_loop_move_lig`, `pack_lig`, `wrapup`) and TFtoPL §88 (the function
//! f(x,y) that is defined iff the instructions for the pair (x,y) terminate). It is independent of
//! `tfm::ligkern::CompiledProgram`: it never builds a replacement table, it edits a list under a
//! cursor.
//!
//! Semantics (DESIGN.md A.6). The cursor stands on a symbol x whose right neighbour is y.
//! * x's program is searched for the first instruction whose right character is y (TeX §1039: an
//!   instruction whose skip byte exceeds 128 never matches and ends the search).
//! * no instruction: x is emitted, the cursor moves to y.
//! * kern k: x is emitted, then the kern; the cursor moves to y.
//! * ligature 4a+2b+c inserting z: the list becomes x z y; x is deleted if b=0, y if c=0; the
//!   cursor moves right by a; the search restarts with the new pair.
//! * left boundary: a virtual x whose program starts at the boundary label; right boundary: at
//!   the end of the word y is the font's boundary character (virtual). Virtual symbols are never
//!   emitted; a cursor that reaches the virtual right boundary, or a right boundary that has been
//!   deleted, ends the word.
//! * a glyph is a ligature node iff it was inserted by a ligature instruction (TeX's
//!   `ligature_present`); deleted symbols hand their original characters to the inserted one.
//!   `lft_hit`/`rt_hit` are TeX's registers of the same name (they only feed the two boundary
//!   bits of a ligature node).
//!
//! Public API (used by C05, planned for C11 and C14):
//! [`RawFont`] (constructors [`RawFont::from_program`], [`RawFont::from_tfm_file`]),
//! [`RawFont::lookup`], [`RawFont::run_word`], [`RawFont::run_pair`], [`RawFont::lefts`],
//! [`RawFont::rights_of`], [`RawFont::step_bound`], [`Item`], [`Outcome`].

use std::collections::{BTreeMap, BTreeSet, VecDeque};
use tfm::ligkern::lang::{Instruction, Operation, PostLigOperation, Program};
use tfm::{Char, FixWord};

/// A ligature form: the list becomes `x z y`; then x/y are deleted unless kept and the cursor
/// moves right by `advance` (TeX's op byte is 4·advance + 2·keep_left + keep_right).
#[derive(Clone, Copy, Debug, PartialEq, Eq)]
pub struct LigForm {
    pub keep_left: bool,
    pub keep_right: bool,
    pub advance: u8,
}

/// The eight forms by their PL names (PLtoTF: LIG=0, LIG/=1, /LIG=2, /LIG/=3, LIG/>=5, /LIG>=6,
/// /LIG/>=7, /LIG/>>=11), mapped from the documentation of `PostLigOperation`'s variants.
pub fn lig_form(op: PostLigOperation) -> LigForm {
    use PostLigOperation::*;
    let (a, b, c) = match op {
        RetainNeitherMoveToInserted => (0, false, false), // LIG      =:
        RetainRightMoveToInserted => (0, false, true),    // LIG/     =:|
        RetainRightMoveToRight => (1, false, true),       // LIG/>    =:|>
        RetainLeftMoveNowhere => (0, true, false),        // /LIG     |=:
        RetainLeftMoveToInserted => (1, true, false),     // /LIG>    |=:>
        RetainBothMoveNowhere => (0, true, true),         // /LIG/    |=:|
        RetainBothMoveToInserted => (1, true, true),      // /LIG/>   |=:|>
        RetainBothMoveToRight => (2, true, true),         // /LIG/>>  |=:|>>
    };
    LigForm { keep_left: b, keep_right: c, advance: a }
}

/// The form for a raw op byte < 128 (TeX §545 / TFtoPL §77); nonstandard codes act as `=:`.
pub fn lig_form_from_op_byte(op: u8) -> LigForm {
    match op {
        0 | 1 | 2 | 3 | 5 | 6 | 7 | 11 => LigForm { keep_left: (op / 2) % 2 == 1, keep_right: op % 2 == 1, advance: op / 4 },
        _ => LigForm { keep_left: false, keep_right: false, advance: 0 },
    }
}

pub fn form_name(f: LigForm) -> &'static str {
    match (f.keep_left, f.keep_right, f.advance) {
        (false, false, _) => "=:",
        (false, true, 0) => "=:|",
        (false, true, _) => "=:|>",
        (true, false, 0) => "|=:",
        (true, false, _) => "|=:>",
        (true, true, 0) => "|=:|",
        (true, true, 1) => "|=:|>",
        (true, true, _) => "|=:|>>",
    }
}

/// Named deviations from TeX's semantics (for known-finding signatures and for other tools'
/// documented behaviour). All off = TeX.
#[derive(Clone, Copy, Debug, Default, PartialEq, Eq)]
pub struct Deviations {
    /// TFtoPL's "phantom ligature": a word whose skip byte exceeds 128 (an unconditional stop /
    /// entry-point redirect) that is reached *inside* a chain is treated as an ordinary
    /// instruction built from its op byte and remainder (TFtoPL `hash_input` does not test the
    /// skip byte; TeX §1039 does).
    pub tftopl_phantom_ligature: bool,
}

/// A decoded, matching instruction.
#[derive(Clone, Copy, Debug, PartialEq, Eq)]
pub enum Step {
    Kern(FixWord),
    Lig { insert: u8, form: LigForm },
}

/// One element of the output.
#[derive(Clone, Debug, PartialEq, Eq)]
pub enum Item {
    Char(u8),
    Kern(FixWord),
    Lig {
        c: u8,
        /// original characters of the word that this ligature node stands for (TeX's `lig_ptr`)
        original: Vec<u8>,
        /// TeX: subtype ≥ 2
        left_boundary: bool,
        /// TeX: odd subtype
        right_boundary: bool,
    },
}

/// What a run touched; used for class histograms and non-triviality rules.
#[derive(Clone, Copy, Debug, Default, PartialEq, Eq)]
pub struct RunStats {
    pub lig_steps: u64,
    pub kern_steps: u64,
    /// an instruction fired with the virtual left boundary as x
    pub left_boundary_rule: bool,
    /// an instruction fired with the virtual right boundary as y
    pub right_boundary_rule: bool,
    /// an instruction fired on a pair one of whose symbols was inserted by an earlier ligature
    pub reentered: bool,
    /// bit i set: form with op byte code i fired (index by `form_index`)
    pub forms: u16,
    pub max_list_len: usize,
    /// a `KernAtIndex` instruction with an index of 256 or more fired
    pub kern_index_ge_256: bool,
    /// an instruction fired that the search reached by way of a SKIP of more than 2
    pub fired_after_skip_gt_2: bool,
    /// an instruction fired on a pair one of whose characters has code 0x00 or 0xFF
    pub touched_00_or_ff: bool,
}

pub fn form_index(f: LigForm) -> usize {
    match (f.keep_left, f.keep_right, f.advance) {
        (false, false, _) => 0,
        (false, true, 0) => 1,
        (false, true, _) => 2,
        (true, false, 0) => 3,
        (true, false, _) => 4,
        (true, true, 0) => 5,
        (true, true, 1) => 6,
        (true, true, _) => 7,
    }
}

#[derive(Clone, Copy, Debug, PartialEq, Eq)]
pub enum DivergenceProof {
    /// the configuration (symbol under the cursor, everything right of it, boundary state)
    /// occurred twice before a ligature step: the run is periodic
    RepeatedConfiguration { at_step: u64 },
    /// more ligature steps than any terminating run can take (see [`RawFont::step_bound`])
    ExceedsExactBound { bound: u64 },
    /// the cursor stands on a pair that the caller has already proven to diverge on its own
    /// (what happens at the cursor is a function of the pair under it, so the run diverges too)
    ReachesDivergingPair { left: Option<u8>, right: u8 },
}

#[derive(Clone, Debug, PartialEq, Eq)]
pub enum Outcome {
    Finished { items: Vec<Item>, stats: RunStats },
    Diverges(DivergenceProof),
    /// the fixed step cap was hit, the cap is below the exact bound and no configuration repeated
    Undecided { steps: u64 },
}

impl Outcome {
    pub fn finished(&self) -> Option<(&[Item], &RunStats)> {
        match self {
            Outcome::Finished { items, stats } => Some((items, stats)),
            _ => None,
        }
    }
    pub fn diverges(&self) -> bool {
        matches!(self, Outcome::Diverges(_))
    }
}

#[derive(Clone, Copy, Debug, PartialEq, Eq)]
pub struct RunOptions {
    /// start with the virtual left boundary under the cursor (TeX: unless `\noboundary`)
    pub left_boundary: bool,
    /// the virtual symbol after the last character (TeX: `font_bchar`, or `hyf_bchar` in §903)
    pub right_boundary: Option<u8>,
}

/// Step caps. `cap` is a fixed amount of work; a run that needs more is `Undecided` unless the
/// exact bound is below the cap.
#[derive(Clone, Copy, Debug)]
pub struct Limits {
    pub cap: u64,
    /// remember configurations only while the unread list is at most this long
    pub config_len: usize,
}

impl Default for Limits {
    fn default() -> Self {
        Limits { cap: 100_000, config_len: 48 }
    }
}

/// A font's lig/kern data in raw form. Build it with [`RawFont::from_program`] or
/// [`RawFont::from_tfm_file`]; the fields are read through accessors because a first-match table
/// is derived from them at construction.
#[derive(Clone, Debug)]
pub struct RawFont {
    instructions: Vec<Instruction>,
    /// the kern array (`KernAtIndex` operands index it)
    kerns: Vec<FixWord>,
    /// start of the program of each character, after TeX's `lig_kern_restart` indirection
    entry: BTreeMap<u8, usize>,
    /// TeX's `bchar_label`
    left_boundary_entry: Option<usize>,
    /// TeX's `font_bchar`
    right_boundary_char: Option<u8>,
    dev: Deviations,
    /// derived: (left symbol, 256 = boundary; right character) → first matching instruction
    table: BTreeMap<(u16, u8), (usize, Step)>,
    /// derived: number of pairs whose first matching instruction is a ligature
    lig_pairs: usize,
    /// derived: pairs whose first matching instruction is reached by way of a SKIP of more than 2
    after_big_skip: BTreeSet<(u16, u8)>,
}

#[derive(Clone, Debug)]
struct El {
    c: u8,
    inserted: bool,
    orig: Vec<u8>,
}

impl El {
    fn plain(c: u8) -> El {
        El { c, inserted: false, orig: vec![] }
    }
    fn originals(&self) -> Vec<u8> {
        if self.inserted {
            self.orig.clone()
        } else {
            vec![self.c]
        }
    }
}

#[derive(Clone, Debug)]
enum Cur {
    Boundary,
    El(El),
}

impl Cur {
    fn sym(&self) -> Option<u8> {
        match self {
            Cur::Boundary => None,
            Cur::El(e) => Some(e.c),
        }
    }
    fn inserted(&self) -> bool {
        matches!(self, Cur::El(e) if e.inserted)
    }
}

struct Emit {
    items: Vec<Item>,
    lft_hit: bool,
    rt_hit: bool,
}

impl Emit {
    /// TeX's `wrapup(#)`: `use_rt` is the macro parameter (`rt_hit` or `false`); `nothing_right`
    /// is `lig_stack=null`.
    fn wrapup(&mut self, cur: &Cur, use_rt: bool, nothing_right: bool) {
        let Cur::El(e) = cur else { return };
        if !e.inserted {
            self.items.push(Item::Char(e.c));
            return;
        }
        let left_boundary = std::mem::take(&mut self.lft_hit);
        let right_boundary = use_rt && self.rt_hit && nothing_right;
        if right_boundary {
            self.rt_hit = false;
        }
        self.items.push(Item::Lig { c: e.c, original: e.orig.clone(), left_boundary, right_boundary });
    }
}

impl RawFont {
    /// From a `lang::Program` and already unpacked (16-bit) entry points, as
    /// `CompiledProgram::compile` takes them. `kerns` is the kern array for `KernAtIndex`.
    pub fn from_program<I: IntoIterator<Item = (Char, u16)>>(program: &Program, entrypoints: I, kerns: &[FixWord]) -> RawFont {
        RawFont {
            instructions: program.instructions.clone(),
            kerns: kerns.to_vec(),
            entry: entrypoints.into_iter().map(|(c, e)| (c.0, e as usize)).collect(),
            left_boundary_entry: program.left_boundary_char_entrypoint.map(|e| e as usize),
            right_boundary_char: program.right_boundary_char.map(|c| c.0),
            dev: Deviations::default(),
            table: BTreeMap::new(),
            lig_pairs: 0,
            after_big_skip: BTreeSet::new(),
        }
        .derived()
    }

    /// From a deserialised TFM file, the way TeX reads it: the entry of a character is the
    /// remainder byte of its `char_info` word; if the instruction there has a skip byte > 128 the
    /// program really starts at 256·op_byte+remainder (§1039 `lig_kern_restart`). Entries that
    /// point outside the array are dropped (TeX §573 rejects such a file).
    pub fn from_tfm_file(file: &tfm::File) -> RawFont {
        let ins = &file.lig_kern_program.instructions;
        let mut entry = BTreeMap::new();
        for (c, e8) in file.lig_kern_entrypoints() {
            let Some(first) = ins.get(e8 as usize) else { continue };
            let e = match first.operation {
                Operation::EntrypointRedirect(u, _) => u as usize,
                _ => e8 as usize,
            };
            if e < ins.len() {
                entry.insert(c.0, e);
            }
        }
        RawFont {
            instructions: ins.clone(),
            kerns: file.kerns.clone(),
            entry,
            left_boundary_entry: file.lig_kern_program.left_boundary_char_entrypoint.map(|e| e as usize).filter(|e| *e < ins.len()),
            right_boundary_char: file.lig_kern_program.right_boundary_char.map(|c| c.0),
            dev: Deviations::default(),
            table: BTreeMap::new(),
            lig_pairs: 0,
            after_big_skip: BTreeSet::new(),
        }
        .derived()
    }

    pub fn with_deviations(mut self, dev: Deviations) -> RawFont {
        self.dev = dev;
        self.derived()
    }

    /// Rebuild the first-match table (TeX §1039: the program of x is searched in order and the
    /// first instruction whose right character is y applies).
    fn derived(mut self) -> RawFont {
        let mut table = BTreeMap::new();
        let mut after_big_skip = BTreeSet::new();
        for l in self.lefts() {
            let key = l.map(|c| c as u16).unwrap_or(256);
            let Some(start) = self.entry_of(l) else { continue };
            let mut big = false;
            for k in self.chain(start) {
                let ins = &self.instructions[k];
                if let Some(step) = self.decode(ins) {
                    if !table.contains_key(&(key, ins.right_char.0)) {
                        table.insert((key, ins.right_char.0), (k, step));
                        if big {
                            after_big_skip.insert((key, ins.right_char.0));
                        }
                    }
                }
                big |= ins.next_instruction.map(|n| n > 2).unwrap_or(false);
            }
        }
        self.after_big_skip = after_big_skip;
        self.lig_pairs = table.values().filter(|(_, s)| matches!(s, Step::Lig { .. })).count();
        self.table = table;
        self
    }

    pub fn instructions(&self) -> &[Instruction] {
        &self.instructions
    }
    pub fn kerns(&self) -> &[FixWord] {
        &self.kerns
    }
    /// Start of each character's program (after redirection).
    pub fn entries(&self) -> &BTreeMap<u8, usize> {
        &self.entry
    }
    pub fn left_boundary_entry(&self) -> Option<usize> {
        self.left_boundary_entry
    }
    pub fn right_boundary_char(&self) -> Option<u8> {
        self.right_boundary_char
    }
    /// Start of the program of a left symbol (`None` = left boundary).
    pub fn entry_of(&self, left: Option<u8>) -> Option<usize> {
        match left {
            None => self.left_boundary_entry,
            Some(c) => self.entry.get(&c).copied(),
        }
    }

    fn decode(&self, ins: &Instruction) -> Option<Step> {
        match ins.operation {
            Operation::Kern(k) => Some(Step::Kern(k)),
            Operation::KernAtIndex(i) => Some(Step::Kern(self.kerns.get(i as usize).copied().unwrap_or(FixWord::ZERO))),
            Operation::Ligature { char_to_insert, post_lig_operation, .. } => Some(Step::Lig { insert: char_to_insert.0, form: lig_form(post_lig_operation) }),
            Operation::EntrypointRedirect(u, _) => {
                if !self.dev.tftopl_phantom_ligature {
                    return None;
                }
                let [op, rem] = u.to_be_bytes();
                Some(if op >= 128 {
                    let i = 256 * (op as usize - 128) + rem as usize;
                    Step::Kern(self.kerns.get(i).copied().unwrap_or(FixWord::ZERO))
                } else {
                    Step::Lig { insert: rem, form: lig_form_from_op_byte(op) }
                })
            }
        }
    }

    /// The instruction indices of the program that starts at `start` (follows SKIPs, ends at a
    /// STOP, at a stop word, or when leaving the array).
    pub fn chain(&self, start: usize) -> Vec<usize> {
        let mut out = vec![];
        let mut k = start;
        while let Some(ins) = self.instructions.get(k) {
            out.push(k);
            if matches!(ins.operation, Operation::EntrypointRedirect(..)) {
                break; // skip byte > 128: unconditional stop (TeX §1039)
            }
            match ins.next_instruction {
                Some(n) => k = k + n as usize + 1,
                None => break,
            }
        }
        out
    }

    /// First instruction of `left`'s program whose right character is `right` (TeX §1039).
    /// `left = None` is the left boundary.
    pub fn lookup(&self, left: Option<u8>, right: u8) -> Option<(usize, Step)> {
        self.table.get(&(left.map(|c| c as u16).unwrap_or(256), right)).copied()
    }

    /// All left symbols that have a program (`None` = left boundary), in a fixed order.
    pub fn lefts(&self) -> Vec<Option<u8>> {
        let mut v: Vec<Option<u8>> = self.entry.keys().map(|c| Some(*c)).collect();
        if self.left_boundary_entry.is_some() {
            v.push(None);
        }
        v
    }

    /// The right characters mentioned in `left`'s program, ascending.
    pub fn rights_of(&self, left: Option<u8>) -> Vec<u8> {
        let mut s = BTreeSet::new();
        if let Some(start) = self.entry_of(left) {
            for k in self.chain(start) {
                s.insert(self.instructions[k].right_char.0);
            }
        }
        s.into_iter().collect()
    }

    /// Number of distinct (left, right) pairs whose first matching instruction is a ligature.
    pub fn ligature_pairs(&self) -> usize {
        self.lig_pairs
    }

    /// Exact termination bound (DESIGN.md C05). What happens at the cursor is a function of the
    /// pair under it; evaluating a pair executes one ligature step and then evaluates at most two
    /// further pairs; a pair that recurs while it is still being evaluated recurs for ever. So the
    /// call tree of a terminating evaluation has depth ≤ P and fewer than 2^P nodes, P = number
    /// of pairs that own a ligature instruction. A run over a word is at most `symbols`
    /// consecutive pair evaluations. More than `symbols · 2^(P+1)` ligature steps ⇒ divergence.
    /// Returns `None` when the bound does not fit in u64 arithmetic (P ≥ 40).
    pub fn step_bound(&self, symbols: usize) -> Option<u64> {
        let p = self.ligature_pairs();
        if p >= 40 {
            return None;
        }
        Some((symbols.max(1) as u64) << (p + 1))
    }

    /// Evaluate the pair (left, right) on its own: the list is `left right`, no right boundary,
    /// and the evaluation ends when the cursor reaches the last symbol (TFtoPL §88: "when the
    /// cursor first moves past y"). `left = None` is the left boundary.
    pub fn run_pair(&self, left: Option<u8>, right: u8, limits: Limits) -> Outcome {
        let cur = match left {
            None => Cur::Boundary,
            Some(c) => Cur::El(El::plain(c)),
        };
        let mut rest = VecDeque::new();
        rest.push_back(El::plain(right));
        self.engine(cur, rest, None, limits, 1, None, false)
    }

    /// Run the instructions over a word as TeX's main loop does.
    pub fn run_word(&self, word: &[u8], opts: RunOptions, limits: Limits) -> Outcome {
        self.run_word_given(word, opts, limits, None)
    }

    /// [`RawFont::run_word`] for a font some of whose pairs are known to diverge (each proven by
    /// [`RawFont::run_pair`]): the run is cut short with `Diverges` as soon as the cursor stands
    /// on such a pair with its rule about to fire. Exact, because the steps taken from a pair
    /// under the cursor up to the moment the cursor passes its right symbol do not depend on what
    /// follows that symbol; a virtual right boundary behaves like a real one until then.
    pub fn run_word_given(&self, word: &[u8], opts: RunOptions, limits: Limits, diverging: Option<&BTreeSet<(Option<u8>, u8)>>) -> Outcome {
        let mut rest: VecDeque<El> = word.iter().map(|c| El::plain(*c)).collect();
        if rest.is_empty() {
            return Outcome::Finished { items: vec![], stats: RunStats::default() };
        }
        let cur = if opts.left_boundary {
            Cur::Boundary
        } else {
            Cur::El(rest.pop_front().unwrap())
        };
        self.engine(cur, rest, opts.right_boundary, limits, word.len() + 2, diverging, false)
    }

    /// NOT TeX: what a replacement table yields that has an entry for every pair except the
    /// `diverging` ones (a pair whose evaluation meets a diverging pair diverges itself, so only
    /// pairs that come under the cursor afresh are affected: they are treated as having no rule).
    /// Used to reproduce the output of `CompiledProgram` for a program in which a listed deviation
    /// creates a loop that TeX does not have.
    pub fn run_word_on_partial_table(&self, word: &[u8], opts: RunOptions, limits: Limits, diverging: &BTreeSet<(Option<u8>, u8)>) -> Outcome {
        let mut rest: VecDeque<El> = word.iter().map(|c| El::plain(*c)).collect();
        if rest.is_empty() {
            return Outcome::Finished { items: vec![], stats: RunStats::default() };
        }
        let cur = if opts.left_boundary {
            Cur::Boundary
        } else {
            Cur::El(rest.pop_front().unwrap())
        };
        self.engine(cur, rest, opts.right_boundary, limits, word.len() + 2, Some(diverging), true)
    }

    #[allow(clippy::too_many_arguments)]
    fn engine(&self, mut cur: Cur, mut rest: VecDeque<El>, mut rb: Option<u8>, limits: Limits, symbols: usize, diverging: Option<&BTreeSet<(Option<u8>, u8)>>, diverging_have_no_rule: bool) -> Outcome {
        let exact = self.step_bound(symbols);
        let mut out = Emit { items: vec![], lft_hit: false, rt_hit: false };
        let mut stats = RunStats::default();
        let mut seen: BTreeSet<(u16, Vec<u8>, bool)> = BTreeSet::new();
        'word: loop {
            stats.max_list_len = stats.max_list_len.max(rest.len() + 1);
            // the symbol right of the cursor
            let (y, y_virtual, y_inserted) = match rest.front() {
                Some(e) => (e.c, false, e.inserted),
                None => match rb {
                    Some(c) => (c, true, false),
                    None => {
                        // cur_r = non_char: goto main_loop_wrapup; nothing follows
                        out.wrapup(&cur, true, true);
                        break 'word;
                    }
                },
            };
            let mut found = self.lookup(cur.sym(), y);
            if diverging_have_no_rule && diverging.map(|d| d.contains(&(cur.sym(), y))).unwrap_or(false) {
                found = None;
            }
            let Some((fired, step)) = found else {
                // main_loop_wrapup, main_loop_move
                out.wrapup(&cur, true, rest.is_empty());
                match rest.pop_front() {
                    Some(e) => cur = Cur::El(e),
                    None => break 'word, // the cursor reached the virtual right boundary
                }
                continue;
            };
            if matches!(cur, Cur::Boundary) {
                stats.left_boundary_rule = true;
            }
            if y_virtual {
                stats.right_boundary_rule = true;
            }
            if cur.inserted() || y_inserted {
                stats.reentered = true;
            }
            if matches!(self.instructions[fired].operation, Operation::KernAtIndex(i) if i >= 256) {
                stats.kern_index_ge_256 = true;
            }
            if !self.after_big_skip.is_empty() && self.after_big_skip.contains(&(cur.sym().map(|c| c as u16).unwrap_or(256), y)) {
                stats.fired_after_skip_gt_2 = true;
            }
            if matches!(cur.sym(), Some(0) | Some(0xFF)) || y == 0 || y == 0xFF {
                stats.touched_00_or_ff = true;
            }
            match step {
                Step::Kern(k) => {
                    stats.kern_steps += 1;
                    out.wrapup(&cur, true, rest.is_empty());
                    out.items.push(Item::Kern(k));
                    match rest.pop_front() {
                        Some(e) => cur = Cur::El(e),
                        None => break 'word,
                    }
                }
                Step::Lig { insert, form } => {
                    // divergence checks happen before the step is executed
                    if let Some(d) = diverging {
                        if d.contains(&(cur.sym(), y)) {
                            return Outcome::Diverges(DivergenceProof::ReachesDivergingPair { left: cur.sym(), right: y });
                        }
                    }
                    // (with the diverging pairs given, a run that avoids them terminates: no memo needed)
                    if diverging.is_none() && rest.len() <= limits.config_len {
                        let key = (cur.sym().map(|c| c as u16).unwrap_or(256), rest.iter().map(|e| e.c).collect::<Vec<u8>>(), rb.is_some());
                        if !seen.insert(key) {
                            return Outcome::Diverges(DivergenceProof::RepeatedConfiguration { at_step: stats.lig_steps });
                        }
                    }
                    if let Some(b) = exact {
                        if stats.lig_steps >= b {
                            return Outcome::Diverges(DivergenceProof::ExceedsExactBound { bound: b });
                        }
                    }
                    if stats.lig_steps >= limits.cap {
                        return Outcome::Undecided { steps: stats.lig_steps };
                    }
                    stats.lig_steps += 1;
                    stats.forms |= 1 << form_index(form);
                    // TeX §1040
                    if matches!(cur, Cur::Boundary) {
                        out.lft_hit = true;
                    } else if y_virtual {
                        out.rt_hit = true;
                    }
                    let mut z = El { c: insert, inserted: true, orig: vec![] };
                    if !form.keep_right {
                        if y_virtual {
                            rb = None; // the right boundary is consumed (TeX: bchar:=non_char)
                        } else {
                            let yel = rest.pop_front().unwrap();
                            z.orig.extend(yel.originals());
                        }
                    }
                    let mut moves = form.advance;
                    if !form.keep_left {
                        if let Cur::El(x) = &cur {
                            let mut o = x.originals();
                            o.extend(z.orig);
                            z.orig = o;
                        }
                        cur = Cur::El(z);
                    } else {
                        rest.push_front(z);
                    }
                    // ops 7 and 11 emit x with wrapup(false); every other emission uses rt_hit
                    let mut first_plain = form.keep_left && form.keep_right && form.advance >= 1;
                    while moves > 0 {
                        moves -= 1;
                        out.wrapup(&cur, !first_plain, rest.is_empty());
                        first_plain = false;
                        match rest.pop_front() {
                            Some(e) => cur = Cur::El(e),
                            None => break 'word, // moved onto the virtual right boundary
                        }
                    }
                }
            }
        }
        Outcome::Finished { items: out.items, stats }
    }
}

/// Glyph/kern skeleton of an output: what the property compares.
#[derive(Clone, Copy, Debug, PartialEq, Eq, PartialOrd, Ord)]
pub enum Glyph {
    Char(u8),
    Lig(u8),
    Kern(i32),
}

/// Reduce items to glyph kinds, characters and kern amounts (`scale` converts the fix_word).
pub fn skeleton(items: &[Item], scale: impl Fn(FixWord) -> i32) -> Vec<Glyph> {
    items
        .iter()
        .map(|i| match i {
            Item::Char(c) => Glyph::Char(*c),
            Item::Lig { c, .. } => Glyph::Lig(*c),
            Item::Kern(k) => Glyph::Kern(scale(*k)),
        })
        .collect()
}

/// Plain characters plus every ligature's originals, in order.
pub fn spelled(items: &[Item]) -> Vec<u8> {
    let mut v = vec![];
    for i in items {
        match i {
            Item::Char(c) => v.push(*c),
            Item::Lig { original, .. } => v.extend(original),
            Item::Kern(_) => {}
        }
    }
    v
}

/// A character code for messages: printable ASCII as it is, anything else as `\xNN`.
pub fn show(c: u8) -> String {
    if (0x21..0x7F).contains(&c) && c != b'\\' {
        (c as char).to_string()
    } else {
        format!("\\x{:02X}", c)
    }
}

pub fn render_items(items: &[Item]) -> String {
    let mut s = String::new();
    for i in items {
        match i {
            Item::Char(c) => s.push_str(&show(*c)),
            Item::Kern(k) => s.push_str(&format!("[{}]", k.0)),
            Item::Lig { c, original, left_boundary, right_boundary } => {
                s.push_str(&format!("<{}:{}{}{}>", show(*c), if *left_boundary { "|" } else { "" }, original.iter().map(|c| show(*c)).collect::<String>(), if *right_boundary { "|" } else { "" }));
            }
        }
    }
    s
}

/// Readable listing of a font's programs: `a: b =:| c ; c kern 3 . | ^: …`.
pub fn render_font(f: &RawFont) -> String {
    let mut s = String::new();
    for l in f.lefts() {
        let name = match l {
            None => "^".to_string(),
            Some(c) => show(c),
        };
        s.push_str(&format!("{}@{}:", name, f.entry_of(l).unwrap()));
        let chain = f.chain(f.entry_of(l).unwrap());
        for (n, k) in chain.iter().copied().enumerate() {
            if n == 8 && chain.len() > 10 {
                s.push_str(&format!(" ... ({} more)", chain.len() - 8));
                break;
            }
            let ins = &f.instructions[k];
            match f.decode(ins) {
                Some(Step::Kern(v)) => s.push_str(&format!(" {}kern{}", show(ins.right_char.0), v.0)),
                Some(Step::Lig { insert, form }) => s.push_str(&format!(" {}{}{}", show(ins.right_char.0), form_name(form), show(insert))),
                None => s.push_str(" <stop>"),
            }
            match ins.next_instruction {
                None => s.push('.'),
                Some(0) => s.push(';'),
                Some(n) => s.push_str(&format!(";skip{}", n)),
            }
        }
        s.push_str("  ");
    }
    match f.right_boundary_char {
        Some(c) => s.push_str(&format!("bchar={}", show(c))),
        None => s.push_str("bchar=none"),
    }
    s
}
