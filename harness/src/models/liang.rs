//! Naive Liang hyphenation — reference model for C13 (and reused by C14).
//!
//! Written from the definition (Liang's thesis; TeX: The Program §919–§923 pattern matching,
//! §930–§931 exception look-up, §934–§939 `\hyphenation`, §960–§963 `\patterns`), NOT from the
//! Rust implementation. There is no trie, no packing and no op stream here: every pattern is
//! tried at every alignment of `.word.` and the digits are combined with `max`.
//!
//! Conventions (pinned against the crate's 23 TeX-verified unit tests, see c13.rs `golden`):
//!
//! * a word is a slice of lower-case letters `w[0..n]`;
//! * *position* `p` (0 ≤ p ≤ n) is the gap with exactly `p` letters of the word before it:
//!   `p = 0` is before the first letter, `p = n` after the last one. TeX's `hyf[j]` (hyphen allowed
//!   after the j-th letter, 1-based) is position `j`. `Hyphenator::calculate_indices` yields the
//!   0-based character index *before which* a hyphen may go — the same number.
//! * a pattern `.a1bc2.` has letters `abc`, digits `[0,1,0,2]` (`digits[i]` sits between
//!   `letters[i-1]` and `letters[i]`), `start`/`end` anchors for a leading/trailing `.`;
//!   matched at offset `o` it contributes `digits[i]` to position `o + i`.
//! * permitted hyphens: positions `1..=n-1` whose maximum digit is odd. Position 0 is never a
//!   hyphen (property text); position n (after the last letter) never is either (TeX only looks at
//!   `l_hyf..hn-r_hyf` with both minimums ≥ 1, §902/§1091) and the crate truncates it away.
//! * a word in the exception list gets exactly the listed positions (restricted to `1..=n-1`),
//!   whatever the patterns say (§930–§931 `found` skips the pattern search). If the same word is
//!   listed twice the later entry wins (§940 interchanges equal strings so the newer one is found
//!   first).

#[derive(Debug, Clone, PartialEq, Eq)]
pub struct Pattern {
    pub start: bool,
    pub end: bool,
    pub letters: Vec<char>,
    /// `letters.len() + 1` digits, each 0..=9.
    pub digits: Vec<u8>,
}

impl Pattern {
    /// Parses TeX pattern syntax: optional leading `.`, then letters with at most one digit in each
    /// gap (also before the first and after the last letter), optional trailing `.`.
    /// Anything else (no letter at all, two digits in one gap — which TeX treats as a non-letter
    /// error —, a `.` in the middle, a digit outside the dots) is rejected: outside the domain.
    pub fn parse(s: &str) -> Result<Pattern, String> {
        let cs: Vec<char> = s.chars().collect();
        let mut lo = 0;
        let mut hi = cs.len();
        let start = hi > lo && cs[lo] == '.';
        if start {
            lo += 1;
        }
        let end = hi > lo && cs[hi - 1] == '.';
        if end {
            hi -= 1;
        }
        let mut letters = vec![];
        let mut digits = vec![0u8];
        let mut gap_has_digit = false;
        for &c in &cs[lo..hi] {
            if c == '.' {
                return Err(format!("pattern {s:?}: '.' inside the pattern"));
            }
            if let Some(d) = c.to_digit(10) {
                if gap_has_digit {
                    return Err(format!("pattern {s:?}: two digits in one gap"));
                }
                gap_has_digit = true;
                *digits.last_mut().unwrap() = d as u8;
            } else if c.is_whitespace() || c == '-' {
                return Err(format!("pattern {s:?}: bad character {c:?}"));
            } else {
                letters.push(c);
                digits.push(0);
                gap_has_digit = false;
            }
        }
        if letters.is_empty() {
            return Err(format!("pattern {s:?}: no letters"));
        }
        Ok(Pattern { start, end, letters, digits })
    }

    /// Two patterns with the same key are a "Duplicate pattern" error in TeX (§963).
    pub fn same_key(&self, o: &Pattern) -> bool {
        self.start == o.start && self.end == o.end && self.letters == o.letters
    }

    pub fn matches_at(&self, word: &[char], o: usize) -> bool {
        let m = self.letters.len();
        if o + m > word.len() {
            return false;
        }
        if self.start && o != 0 {
            return false;
        }
        if self.end && o + m != word.len() {
            return false;
        }
        word[o..o + m] == self.letters[..]
    }

    pub fn render(&self) -> String {
        let mut s = String::new();
        if self.start {
            s.push('.');
        }
        for (i, d) in self.digits.iter().enumerate() {
            if *d != 0 {
                s.push(char::from(b'0' + *d));
            }
            if let Some(c) = self.letters.get(i) {
                s.push(*c);
            }
        }
        if self.end {
            s.push('.');
        }
        s
    }
}

#[derive(Debug, Clone, PartialEq, Eq)]
pub struct Exception {
    pub letters: Vec<char>,
    /// positions (number of letters before the hyphen), ascending, may contain 0 or n.
    pub hyphens: Vec<usize>,
}

impl Exception {
    /// `hy-phen-ation` syntax.
    pub fn parse(s: &str) -> Exception {
        let mut letters = vec![];
        let mut hyphens = vec![];
        for c in s.chars() {
            if c == '-' {
                if hyphens.last() != Some(&letters.len()) {
                    hyphens.push(letters.len());
                }
            } else {
                letters.push(c);
            }
        }
        Exception { letters, hyphens }
    }
    /// The permitted positions this exception defines for its word.
    pub fn positions(&self) -> Vec<usize> {
        let n = self.letters.len();
        self.hyphens.iter().copied().filter(|&p| p >= 1 && p + 1 <= n).collect()
    }
}

/// Maximum digit at every position `0..=n` over all patterns at all alignments.
pub fn max_digits(patterns: &[Pattern], word: &[char]) -> Vec<u8> {
    let n = word.len();
    let mut d = vec![0u8; n + 1];
    for p in patterns {
        for o in 0..n {
            if p.matches_at(word, o) {
                for (i, &x) in p.digits.iter().enumerate() {
                    if x > d[o + i] {
                        d[o + i] = x;
                    }
                }
            }
        }
    }
    d
}

/// Odd digits at positions `1..=n-1`.
pub fn positions_from_digits(d: &[u8]) -> Vec<usize> {
    let n = d.len() - 1;
    (1..n).filter(|&p| d[p] % 2 == 1).collect()
}

/// Convenience API on pattern/exception *text* (C14 uses this).
/// Malformed patterns are ignored (callers that care use `Pattern::parse` themselves).
pub fn liang_digits(patterns: &[String], word_lowercase: &[char]) -> Vec<u8> {
    let ps: Vec<Pattern> = patterns.iter().filter_map(|s| Pattern::parse(s).ok()).collect();
    max_digits(&ps, word_lowercase)
}

/// The permitted hyphen positions of `word_lowercase` (ascending; position p = p letters before
/// the hyphen). Exceptions always win.
pub fn liang_positions(patterns: &[String], exceptions: &[String], word_lowercase: &[char]) -> Vec<usize> {
    for e in exceptions.iter().rev() {
        let e = Exception::parse(e);
        if e.letters[..] == *word_lowercase {
            return e.positions();
        }
    }
    positions_from_digits(&liang_digits(patterns, word_lowercase))
}

// ---------------------------------------------------------------------------------------------
// Load-order aware lexicon with named deviations (known-finding signatures of C13).

#[derive(Debug, Clone, PartialEq, Eq)]
pub enum Entry {
    Pattern(Pattern),
    Exception(Exception),
}

/// Named deviations from TeX. Both off = TeX.
#[derive(Debug, Clone, Copy, Default, PartialEq, Eq)]
pub struct Deviations {
    /// The exception for a word does not pre-empt the patterns; it takes part in the `max` as the
    /// full-word pattern `.word.` with digit 7 at the listed positions and 6 everywhere else
    /// (replacing an earlier pattern with that same key). A pattern digit 7/9 then adds a hyphen
    /// the exception does not list and a digit 8 removes a listed one.
    pub exception_competes_as_6_7_pattern: bool,
    /// A pattern `.word.` (anchored at both ends, same letters) loaded *after* the exception for
    /// `word` replaces the exception: the word is hyphenated by the patterns alone.
    pub exception_replaced_by_later_full_word_pattern: bool,
}

pub const FLAG_COMPETES: &str = "flag:exception_competes_as_6_7_pattern";
pub const FLAG_REPLACED: &str = "flag:exception_replaced_by_later_full_word_pattern";

#[derive(Debug, Clone, Default)]
pub struct Lexicon {
    /// in load order
    pub entries: Vec<Entry>,
}

/// What the non-triviality classifier needs to know about one word.
#[derive(Debug, Clone, Default)]
pub struct Analysis {
    pub digits: Vec<u8>,
    /// per position: number of (pattern, alignment) matches contributing a non-zero digit.
    pub nonzero_contributions: Vec<u32>,
    /// per position: an odd and an even non-zero digit both occur.
    pub parity_conflict: Vec<bool>,
    /// (index into `Lexicon::patterns()`, offset)
    pub matches: Vec<(usize, usize)>,
    pub longest_matched_pattern: usize,
    /// index (into entries) of the exception that applies to the word
    pub exception: Option<usize>,
}

impl Lexicon {
    pub fn patterns(&self) -> Vec<&Pattern> {
        self.entries.iter().filter_map(|e| if let Entry::Pattern(p) = e { Some(p) } else { None }).collect()
    }
    pub fn push_patterns(&mut self, text: &str) -> Result<(), String> {
        for s in text.split_whitespace() {
            self.entries.push(Entry::Pattern(Pattern::parse(s)?));
        }
        Ok(())
    }
    pub fn push_exception(&mut self, text: &str) {
        self.entries.push(Entry::Exception(Exception::parse(text)));
    }
    /// TeX reports "Duplicate pattern" for these; the max-rule is then not what TeX does.
    pub fn has_duplicate_pattern_keys(&self) -> bool {
        let ps = self.patterns();
        for i in 0..ps.len() {
            for j in 0..i {
                if ps[i].same_key(ps[j]) {
                    return true;
                }
            }
        }
        false
    }
    fn last_exception_for(&self, word: &[char]) -> Option<usize> {
        self.entries.iter().rposition(|e| matches!(e, Entry::Exception(x) if x.letters[..] == *word))
    }
    fn is_full_word_pattern(e: &Entry, word: &[char]) -> bool {
        matches!(e, Entry::Pattern(p) if p.start && p.end && p.letters[..] == *word)
    }

    /// TeX's answer.
    pub fn positions(&self, word: &[char]) -> Vec<usize> {
        self.positions_with(word, Deviations::default())
    }

    pub fn positions_with(&self, word: &[char], dev: Deviations) -> Vec<usize> {
        let n = word.len();
        let mut applicable = self.last_exception_for(word);
        if let Some(ie) = applicable {
            if dev.exception_replaced_by_later_full_word_pattern && self.entries[ie + 1..].iter().any(|e| Self::is_full_word_pattern(e, word)) {
                applicable = None;
            }
        }
        match applicable {
            None => {
                let ps: Vec<Pattern> = self.patterns().into_iter().cloned().collect();
                positions_from_digits(&max_digits(&ps, word))
            }
            Some(ie) => {
                let Entry::Exception(x) = &self.entries[ie] else { unreachable!() };
                if !dev.exception_competes_as_6_7_pattern {
                    return x.positions();
                }
                let mut ps: Vec<Pattern> = vec![];
                for (i, e) in self.entries.iter().enumerate() {
                    if let Entry::Pattern(p) = e {
                        if i < ie && Self::is_full_word_pattern(e, word) {
                            continue; // replaced by the exception's own 6/7 pattern
                        }
                        ps.push(p.clone());
                    }
                }
                let mut d = max_digits(&ps, word);
                for (p, slot) in d.iter_mut().enumerate() {
                    let v = if x.hyphens.contains(&p) { 7 } else { 6 };
                    if v > *slot {
                        *slot = v;
                    }
                }
                debug_assert_eq!(d.len(), n + 1);
                positions_from_digits(&d)
            }
        }
    }

    pub fn analyse(&self, word: &[char]) -> Analysis {
        let n = word.len();
        let ps = self.patterns();
        let mut a = Analysis {
            digits: vec![0; n + 1],
            nonzero_contributions: vec![0; n + 1],
            parity_conflict: vec![false; n + 1],
            matches: vec![],
            longest_matched_pattern: 0,
            exception: self.last_exception_for(word),
        };
        let mut odd = vec![false; n + 1];
        let mut even = vec![false; n + 1];
        for (pi, p) in ps.iter().enumerate() {
            for o in 0..n {
                if !p.matches_at(word, o) {
                    continue;
                }
                a.matches.push((pi, o));
                a.longest_matched_pattern = a.longest_matched_pattern.max(p.letters.len());
                for (i, &x) in p.digits.iter().enumerate() {
                    if x == 0 {
                        continue;
                    }
                    let q = o + i;
                    a.nonzero_contributions[q] += 1;
                    if x % 2 == 1 {
                        odd[q] = true;
                    } else {
                        even[q] = true;
                    }
                    if x > a.digits[q] {
                        a.digits[q] = x;
                    }
                }
            }
        }
        for q in 0..=n {
            a.parity_conflict[q] = odd[q] && even[q];
        }
        a
    }
}

#[cfg(test)]
mod tests {
    use super::*;
    #[test]
    fn parse_and_match() {
        let p = Pattern::parse(".a1bc2.").unwrap();
        assert_eq!(p.letters, vec!['a', 'b', 'c']);
        assert_eq!(p.digits, vec![0, 1, 0, 2]);
        assert!(p.start && p.end);
        assert_eq!(p.render(), ".a1bc2.");
        let w: Vec<char> = "abc".chars().collect();
        assert_eq!(max_digits(&[p], &w), vec![0, 1, 0, 2]);
        assert!(Pattern::parse("a12b").is_err());
        assert!(Pattern::parse("1.ab").is_err());
        assert!(Pattern::parse("1").is_err());
    }
}
