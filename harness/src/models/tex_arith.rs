//! Transcriptions of TeX's arithmetic (tex.web part 7, 26) used as reference models.
//! Written from the literate program, independently of the Rust implementation.

pub const UNITY: i64 = 1 << 16;
pub const MAX_DIMEN: i64 = (1 << 30) - 1;
pub const INFINITY: i64 = (1u64 << 31) as i64 - 1;

/// §103 print_scaled
pub fn print_scaled(s: i64) -> String {
    let mut out = String::new();
    let mut s = s;
    if s < 0 {
        out.push('-');
        s = -s;
    }
    out.push_str(&format!("{}", s / UNITY));
    out.push('.');
    s = 10 * (s % UNITY) + 5;
    let mut delta: i64 = 10;
    loop {
        if delta > UNITY {
            s = s + 0o100000 - 50000;
        }
        out.push((b'0' + (s / UNITY) as u8) as char);
        s = 10 * (s % UNITY);
        delta *= 10;
        if s <= delta {
            break;
        }
    }
    out
}

/// §102 round_decimals: digits most significant first.
pub fn round_decimals(digits: &[u8]) -> i64 {
    let mut a: i64 = 0;
    for d in digits.iter().rev() {
        a = (a + (*d as i64) * 2 * UNITY) / 10;
    }
    (a + 1) / 2
}

/// §105 mult_and_add(n, x, y, max_answer): None on arith_error.
pub fn mult_and_add(n: i64, x: i64, y: i64, max_answer: i64) -> Option<i64> {
    let (mut n, mut x) = (n, x);
    if n < 0 {
        x = -x;
        n = -n;
    }
    if n == 0 {
        return Some(y);
    }
    if x <= (max_answer - y) / n && -x <= (max_answer + y) / n {
        Some(n * x + y)
    } else {
        None
    }
}

pub fn nx_plus_y(n: i64, x: i64, y: i64) -> Option<i64> {
    mult_and_add(n, x, y, MAX_DIMEN)
}

pub fn mult_integers(n: i64, x: i64) -> Option<i64> {
    mult_and_add(n, x, 0, INFINITY)
}

/// §106 x_over_n: (quotient, remainder); None when n = 0.
pub fn x_over_n(x: i64, n: i64) -> Option<(i64, i64)> {
    if n == 0 {
        return None;
    }
    let (mut x, mut n) = (x, n);
    let mut negative = false;
    if n < 0 {
        x = -x;
        n = -n;
        negative = true;
    }
    let (q, r) = if x >= 0 { (x / n, x % n) } else { (-((-x) / n), -((-x) % n)) };
    Some((q, if negative { -r } else { r }))
}

/// §107 xn_over_d in TeX's original 15/16-bit form: (result, remainder); None on arith_error.
pub fn xn_over_d(x: i64, n: i64, d: i64) -> Option<(i64, i64)> {
    let positive = x >= 0;
    let x = x.abs();
    let t = (x % 0o100000) * n;
    let mut u = (x / 0o100000) * n + (t / 0o100000);
    let v = (u % d) * 0o100000 + (t % 0o100000);
    if u / d >= 0o100000 {
        return None;
    }
    u = 0o100000 * (u / d) + (v / d);
    let rem = v % d;
    // cross-check against exact rationals
    let exact = (x as i128 * n as i128) / d as i128;
    let exact_rem = (x as i128 * n as i128) % d as i128;
    assert_eq!((u as i128, rem as i128), (exact, exact_rem), "xn_over_d transcription disagrees with exact arithmetic");
    if positive {
        Some((u, rem))
    } else {
        Some((-u, -rem))
    }
}

#[derive(Clone, Copy, Debug, PartialEq, Eq, serde::Serialize, serde::Deserialize)]
pub enum Unit {
    Pt,
    In,
    Pc,
    Cm,
    Mm,
    Bp,
    Dd,
    Cc,
    Sp,
    Em,
    Ex,
}

impl Unit {
    pub fn keyword(self) -> &'static str {
        match self {
            Unit::Pt => "pt",
            Unit::In => "in",
            Unit::Pc => "pc",
            Unit::Cm => "cm",
            Unit::Mm => "mm",
            Unit::Bp => "bp",
            Unit::Dd => "dd",
            Unit::Cc => "cc",
            Unit::Sp => "sp",
            Unit::Em => "em",
            Unit::Ex => "ex",
        }
    }
    /// §458
    pub fn num_denom(self) -> Option<(i64, i64)> {
        Some(match self {
            Unit::In => (7227, 100),
            Unit::Pc => (12, 1),
            Unit::Cm => (7227, 254),
            Unit::Mm => (7227, 2540),
            Unit::Bp => (7227, 7200),
            Unit::Dd => (1238, 1157),
            Unit::Cc => (14856, 1157),
            _ => return None,
        })
    }
}

/// Result of scanning: value and number of errors TeX reports.
#[derive(Clone, Copy, Debug, PartialEq, Eq)]
pub struct Scanned {
    pub value: i64,
    pub errors: u32,
}

/// §444–445: accumulate digits of an integer constant. `digits` are digit values (< radix).
/// Returns (value, too_big).
pub fn scan_digits(digits: &[u8], radix: i64) -> (i64, bool) {
    let m: i64 = match radix {
        10 => 214748364,
        8 => 0o2000000000,
        16 => 0o1000000000,
        _ => unreachable!(),
    };
    let mut cur_val: i64 = 0;
    let mut ok_so_far = true;
    for &d in digits {
        let d = d as i64;
        if cur_val >= m && (cur_val > m || d > 7 || radix != 10) {
            ok_so_far = false;
            cur_val = INFINITY;
        } else {
            cur_val = cur_val * radix + d;
        }
    }
    (cur_val, !ok_so_far)
}

/// What precedes the units in a dimension (§448): an integer part (possibly huge), decimal
/// fraction digits, and the sign collected from sign tokens and from a negative integer.
#[derive(Clone, Debug)]
pub struct DimenParts {
    pub negative: bool,
    /// cur_val after scanning the integer part (non-negative), and whether "Number too big" was reported
    pub int_value: i64,
    pub int_too_big: bool,
    /// fraction digits (only the first 17 matter)
    pub frac_digits: Vec<u8>,
}

#[derive(Clone, Copy, Debug)]
pub enum UnitKind {
    /// physical unit or sp/em/ex; em/ex need the font quantities
    Unit(Unit),
    /// an internal dimension (value in sp) used as the unit, §455
    Internal(i64),
    /// fil / fill / filll (only legal after plus/minus)
    Fil,
}

/// §453–460. Returns the final signed value and the number of errors.
pub fn finish_dimen(parts: &DimenParts, unit: UnitKind, em: i64, ex: i64) -> Scanned {
    let mut errors = 0u32;
    if parts.int_too_big {
        errors += 1;
    }
    let mut cur_val = parts.int_value;
    let k = parts.frac_digits.len().min(17);
    let mut f = round_decimals(&parts.frac_digits[..k]);
    let mut arith_error = false;
    let negative = parts.negative;
    let mut attach_fraction = true;
    let internal_v: Option<i64> = match unit {
        UnitKind::Internal(v) => Some(v),
        UnitKind::Unit(Unit::Em) => Some(em),
        UnitKind::Unit(Unit::Ex) => Some(ex),
        _ => None,
    };
    if let Some(v) = internal_v {
        // cur_val:=nx_plus_y(save_cur_val,v,xn_over_d(v,f,@'200000))
        let frac = match xn_over_d(v, f, 0o200000) {
            Some((q, _)) => q,
            None => {
                arith_error = true;
                0
            }
        };
        match nx_plus_y(cur_val, v, frac) {
            Some(r) => cur_val = r,
            None => {
                arith_error = true;
                cur_val = 0;
            }
        }
        attach_fraction = false;
    } else {
        match unit {
            UnitKind::Fil | UnitKind::Unit(Unit::Pt) => {}
            UnitKind::Unit(Unit::Sp) => {
                attach_fraction = false;
            }
            UnitKind::Unit(u) => {
                let (num, denom) = u.num_denom().unwrap();
                match xn_over_d(cur_val, num, denom) {
                    Some((q, rem)) => {
                        cur_val = q;
                        f = (num * f + 0o200000 * rem) / denom;
                        cur_val += f / 0o200000;
                        f %= 0o200000;
                    }
                    None => {
                        arith_error = true;
                    }
                }
            }
            UnitKind::Internal(_) => unreachable!(),
        }
    }
    if attach_fraction {
        if cur_val >= 0o40000 {
            arith_error = true;
        } else {
            cur_val = cur_val * UNITY + f;
        }
    }
    if arith_error || cur_val.abs() >= 0o10000000000 {
        errors += 1;
        cur_val = MAX_DIMEN;
    }
    if negative {
        cur_val = -cur_val;
    }
    Scanned { value: cur_val, errors }
}

#[derive(Clone, Copy, Debug, PartialEq, Eq, serde::Serialize, serde::Deserialize)]
pub struct GlueVal {
    pub width: i64,
    pub stretch: i64,
    pub stretch_order: u8,
    pub shrink: i64,
    pub shrink_order: u8,
}

impl GlueVal {
    pub const ZERO: GlueVal = GlueVal { width: 0, stretch: 0, stretch_order: 0, shrink: 0, shrink_order: 0 };
}

fn print_glue(d: i64, order: u8, out: &mut String) {
    out.push_str(&print_scaled(d));
    if order > 0 {
        out.push_str("fil");
        for _ in 1..order {
            out.push('l');
        }
    } else {
        out.push_str("pt");
    }
}

/// §178 print_spec with "pt"
pub fn print_spec(g: &GlueVal) -> String {
    let mut out = print_scaled(g.width);
    out.push_str("pt");
    if g.stretch != 0 {
        out.push_str(" plus ");
        print_glue(g.stretch, g.stretch_order, &mut out);
    }
    if g.shrink != 0 {
        out.push_str(" minus ");
        print_glue(g.shrink, g.shrink_order, &mut out);
    }
    out
}

pub fn wrap32(v: i64) -> i64 {
    (v as i32) as i64
}

/// §1239: sum of two glue specs; `inc` is the scanned increment, `old` the register value.
pub fn glue_sum(inc: &GlueVal, old: &GlueVal) -> GlueVal {
    let mut q = *inc;
    q.width = wrap32(q.width + old.width);
    if q.stretch == 0 {
        q.stretch_order = 0;
    }
    if q.stretch_order == old.stretch_order {
        q.stretch = wrap32(q.stretch + old.stretch);
    } else if q.stretch_order < old.stretch_order && old.stretch != 0 {
        q.stretch = old.stretch;
        q.stretch_order = old.stretch_order;
    }
    if q.shrink == 0 {
        q.shrink_order = 0;
    }
    if q.shrink_order == old.shrink_order {
        q.shrink = wrap32(q.shrink + old.shrink);
    } else if q.shrink_order < old.shrink_order && old.shrink != 0 {
        q.shrink = old.shrink;
        q.shrink_order = old.shrink_order;
    }
    q
}

/// What TeX's scanner makes of the text `print_scaled(v)` followed by `pt` (or `fil…` when `fil`):
/// §448 scan_dimen applied to §103's output. Returns the value and whether "Dimension too large"
/// is reported. For |v| <= max_dimen this is the identity without error (Knuth's guarantee, §103).
pub fn rescan_printed_dimen(v: i64, fil: bool) -> Scanned {
    let text = print_scaled(v);
    let (negative, body) = match text.strip_prefix('-') {
        Some(b) => (true, b),
        None => (false, text.as_str()),
    };
    let mut it = body.split('.');
    let int_digits: Vec<u8> = it.next().unwrap().bytes().map(|b| b - b'0').collect();
    let frac_digits: Vec<u8> = it.next().unwrap().bytes().map(|b| b - b'0').collect();
    let (int_value, int_too_big) = scan_digits(&int_digits, 10);
    let parts = DimenParts { negative, int_value, int_too_big, frac_digits };
    finish_dimen(&parts, if fil { UnitKind::Fil } else { UnitKind::Unit(Unit::Pt) }, 0, 0)
}

/// What §440 scan_int makes of the decimal text of `v` (as printed by print_int): (value, too big).
pub fn rescan_printed_int(v: i64) -> (i64, bool) {
    let digits: Vec<u8> = format!("{}", v.abs()).bytes().map(|b| b - b'0').collect();
    let (val, big) = scan_digits(&digits, 10);
    (if v < 0 { wrap32(-val) } else { val }, big)
}

#[cfg(test)]
mod tests {
    use super::*;
    #[test]
    fn goldens() {
        assert_eq!(print_scaled(65536), "1.0");
        assert_eq!(print_scaled(1), "0.00002");
        assert_eq!(print_scaled(-32768), "-0.5");
        assert_eq!(print_scaled(MAX_DIMEN), "16383.99998");
        assert_eq!(round_decimals(&[5]), 32768);
        for v in [0i64, 1, -1, 65536, -32768, MAX_DIMEN, -MAX_DIMEN, 123456789] {
            assert_eq!(rescan_printed_dimen(v, false), Scanned { value: v, errors: 0 });
        }
        assert_eq!(rescan_printed_dimen(1 << 30, false), Scanned { value: MAX_DIMEN, errors: 1 });
        assert_eq!(rescan_printed_int(-(1 << 31)), (-INFINITY, true));
        assert_eq!(rescan_printed_int(-INFINITY), (-INFINITY, false));
    }
}
