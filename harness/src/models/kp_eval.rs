//! `kp_eval` — exhaustive reference evaluator for TeX's line breaking (tex.web §813–§878).
//!
//! This is *not* the Knuth–Plass algorithm. There is no active list, no deactivation and
//! no per-class pruning: the evaluator enumerates the legal breakpoints of a horizontal
//! list (§866–§869), measures the line between any two of them exactly as TeX defines it
//! (running totals §823, break width §837–§842, discretionary pre/post/replace §840,
//! §869), classifies it (badness §108, fitness classes §817, §851–§853), prices it
//! (demerits §859) and then runs a plain dynamic programme over every
//! (breakpoint × number of lines so far × fitness class) state. The result is, for every
//! number of lines, the minimum (and maximum) total demerits of a feasible sequence, from
//! which the looseness rule (§873–§875) picks TeX's answer.
//!
//! Public API (used by C04; C12 reuses the list scan, the measurement and the sequence
//! evaluation):
//!
//! * [`Item`] / [`items_from_hlist`]: the evaluator's view of a horizontal list;
//! * [`Paragraph::scan`]: legal breakpoints, running totals and per-break "start of the
//!   next line" totals (break width);
//! * [`Pass`]: one breaking pass (line widths, tolerance, emergency stretch) —
//!   [`Pass::line`], [`Pass::evaluate`], [`Pass::solve`], [`Pass::monotone`];
//! * [`Solution::choose`]: the line count TeX selects for a looseness;
//! * [`badness`], [`classify`], [`line_demerits`]: the arithmetic.
//!
//! All arithmetic is in i64 (TeX's totals are 32-bit `scaled`; the implementation under
//! test uses 64-bit sums — no generated case comes near either limit, and `Solution::peak`
//! reports the largest total demerits TeX would have to represent).

use std::collections::BTreeMap;

pub const INF_BAD: i32 = 10_000;
pub const INF_PENALTY: i32 = 10_000;
pub const EJECT_PENALTY: i32 = -10_000;
/// TeX's `awful_bad` (§833): totals at or beyond this value are not representable.
pub const AWFUL_BAD: i64 = (1 << 30) - 1;

// ------------------------------------------------------------------------------------
// Totals

/// Natural width, stretch per glue order (normal, fil, fill, filll) and shrink.
#[derive(Clone, Copy, Debug, Default, PartialEq, Eq)]
pub struct Totals {
    pub width: i64,
    pub stretch: [i64; 4],
    pub shrink: i64,
}

impl Totals {
    pub const ZERO: Totals = Totals { width: 0, stretch: [0; 4], shrink: 0 };

    pub fn plus(self, o: Totals) -> Totals {
        Totals {
            width: self.width + o.width,
            stretch: [
                self.stretch[0] + o.stretch[0],
                self.stretch[1] + o.stretch[1],
                self.stretch[2] + o.stretch[2],
                self.stretch[3] + o.stretch[3],
            ],
            shrink: self.shrink + o.shrink,
        }
    }
    pub fn minus(self, o: Totals) -> Totals {
        Totals {
            width: self.width - o.width,
            stretch: [
                self.stretch[0] - o.stretch[0],
                self.stretch[1] - o.stretch[1],
                self.stretch[2] - o.stretch[2],
                self.stretch[3] - o.stretch[3],
            ],
            shrink: self.shrink - o.shrink,
        }
    }
    pub fn add_glue(&mut self, g: &GlueSpec) {
        self.width += g.width;
        self.stretch[(g.stretch_order & 3) as usize] += g.stretch;
        self.shrink += g.shrink;
    }
    /// §852: "infinite stretch" means a non-zero fil, fill or filll total.
    pub fn infinitely_stretchable(&self) -> bool {
        self.stretch[1] != 0 || self.stretch[2] != 0 || self.stretch[3] != 0
    }
}

/// A glue specification with finite shrink (TeX §825 forbids infinite shrink in paragraphs).
#[derive(Clone, Copy, Debug, Default, PartialEq, Eq)]
pub struct GlueSpec {
    pub width: i64,
    pub stretch: i64,
    /// 0 normal, 1 fil, 2 fill, 3 filll
    pub stretch_order: u8,
    pub shrink: i64,
}

// ------------------------------------------------------------------------------------
// Items

/// The evaluator's view of one node of a horizontal list.
#[derive(Clone, Debug, PartialEq, Eq)]
pub enum Item {
    /// Character, ligature, box or rule (its width), or mark/insertion/adjust (width 0):
    /// never discarded, never a breakpoint, "precedes a break".
    Solid(i64),
    /// `explicit` = `\kern` (a breakpoint when followed by glue, discardable); otherwise
    /// a kern of any other subtype (font, accent, mu_glue): tex.web §837, §866, §868 and §879
    /// only ever test `subtype(p)=explicit`, so these are not discardable and precede a break.
    Kern { width: i64, explicit: bool },
    Glue(GlueSpec),
    Penalty(i32),
    /// Discretionary: total widths of the pre-break and post-break lists (`None` = empty
    /// list) and the number of following items that are replaced when the break is taken.
    Disc { pre: Option<i64>, post: Option<i64>, replace: usize },
}

/// Translate a boxworks horizontal list. Math nodes and whatsits are outside this model
/// (`Err`).
pub fn items_from_hlist<F: boxworks::FontRepo>(list: &[boxworks::ds::Horizontal], fonts: &F) -> Result<Vec<Item>, String> {
    use boxworks::ds::Horizontal as H;
    use boxworks::ds::KernKind;
    let cw = |c: char, f: u32| fonts.width(c, f).map(|s| s.0 as i64).unwrap_or(0);
    let mut out = Vec::with_capacity(list.len());
    for node in list {
        out.push(match node {
            H::Char(c) => Item::Solid(cw(c.char, c.font)),
            H::Ligature(l) => Item::Solid(cw(l.char, l.font)),
            H::HBox(b) => Item::Solid(b.width.0 as i64),
            H::VBox(b) => Item::Solid(b.width.0 as i64),
            H::Rule(r) => Item::Solid(r.width.0 as i64),
            H::Mark(_) | H::Insertion(_) | H::Adjust(_) => Item::Solid(0),
            H::Kern(k) => Item::Kern { width: k.width.0 as i64, explicit: k.kind == KernKind::Explicit },
            H::Glue(g) => Item::Glue(GlueSpec {
                width: g.value.width.0 as i64,
                stretch: g.value.stretch.0 as i64,
                stretch_order: g.value.stretch_order as u8,
                shrink: g.value.shrink.0 as i64,
            }),
            H::Penalty(p) => Item::Penalty(p.0),
            H::Discretionary(d) => {
                let sum = |v: &Vec<boxworks::ds::DiscretionaryElem>| -> Option<i64> {
                    if v.is_empty() {
                        None
                    } else {
                        Some(v.iter().map(|e| e.width(fonts).0 as i64).sum())
                    }
                };
                Item::Disc { pre: sum(&d.pre_break), post: sum(&d.post_break), replace: d.replace_count as usize }
            }
            H::Math(_) => return Err("math node: outside kp_eval".into()),
            H::Whatsit(_) => return Err("whatsit: outside kp_eval".into()),
        });
    }
    Ok(out)
}

// ------------------------------------------------------------------------------------
// Parameters and named deviations

#[derive(Clone, Copy, Debug, Default, PartialEq, Eq)]
pub struct Params {
    pub line_penalty: i32,
    pub hyphen_penalty: i32,
    pub ex_hyphen_penalty: i32,
    pub adj_demerits: i32,
    pub double_hyphen_demerits: i32,
    pub final_hyphen_demerits: i32,
    pub left_skip: GlueSpec,
    pub right_skip: GlueSpec,
    pub looseness: i32,
}

/// Named deviations from TeX. With all flags off the evaluator is TeX. A flag switches on
/// one precisely described difference so that a listed known finding can be recognised
/// (the implementation must then agree with the deviating evaluator exactly).
#[derive(Clone, Copy, Debug, Default, PartialEq, Eq)]
pub struct Deviations {
    /// TeX §837 computes the break width by passing over *every* discardable node that
    /// follows the break (glue, penalties, explicit kerns, math), and §840 does the same
    /// after a discretionary whose post-break list is empty. With this flag only the
    /// break node itself is passed: the glue at which the line was broken is dropped, but
    /// a second glue / a glue after a penalty break / an explicit kern further on, and
    /// anything after a discretionary, is measured as part of the next line (DESIGN D9).
    pub break_width_covers_only_break_node: bool,
    /// At a break at an explicit kern, TeX §837 removes the kern from the next line. With
    /// this flag the kern's width is instead counted twice on the next line (the sign of
    /// the correction is inverted).
    pub kern_break_width_sign_inverted: bool,
    /// TeX §869 steps over the `replace_count` nodes after a discretionary without looking
    /// at them (they are never breakpoints, and `prev_p` stays at the discretionary). With
    /// this flag the replaced nodes are scanned like ordinary nodes: an explicit kern among
    /// them that is followed by glue is a breakpoint, and a glue directly after them is a
    /// breakpoint according to the last replaced node rather than the discretionary.
    pub replaced_nodes_are_scanned: bool,
    /// TeX §863 clamps the threshold: `if threshold>inf_bad then threshold:=inf_bad`. With
    /// this flag a tolerance above 10000 admits the first overfull line (badness 10001)
    /// from every line start.
    pub tolerance_not_clamped: bool,
}

impl Deviations {
    pub const NONE: Deviations = Deviations {
        break_width_covers_only_break_node: false,
        kern_break_width_sign_inverted: false,
        replaced_nodes_are_scanned: false,
        tolerance_not_clamped: false,
    };
    pub const FLAG_NAMES: [&'static str; 4] = [
        "break_width_covers_only_break_node",
        "kern_break_width_sign_inverted",
        "replaced_nodes_are_scanned",
        "tolerance_not_clamped",
    ];
    pub fn with_flag(mut self, name: &str) -> Deviations {
        match name {
            "break_width_covers_only_break_node" => self.break_width_covers_only_break_node = true,
            "kern_break_width_sign_inverted" => self.kern_break_width_sign_inverted = true,
            "replaced_nodes_are_scanned" => self.replaced_nodes_are_scanned = true,
            "tolerance_not_clamped" => self.tolerance_not_clamped = true,
            _ => panic!("unknown kp_eval deviation {name}"),
        }
        self
    }
}

// ------------------------------------------------------------------------------------
// Scan: legal breakpoints and break widths

#[derive(Clone, Copy, Debug, PartialEq, Eq)]
pub enum BreakKind {
    Glue,
    Kern,
    Penalty,
    Disc,
    /// the forced break at the end of the list (position = list length)
    Final,
}

#[derive(Clone, Debug, PartialEq, Eq)]
pub struct Break {
    /// index of the node in the list (list length for the final break)
    pub pos: usize,
    pub kind: BreakKind,
    /// penalty after §831: values ≤ −10000 are `EJECT_PENALTY` (a forced break)
    pub penalty: i32,
    /// break type `hyphenated` (§819): discretionaries and the final break
    pub hyphenated: bool,
    /// width of the pre-break list added to a line that ends here (§869 `disc_width`)
    pub pre_width: i64,
    /// running totals at which the *next* line starts (§837 break width, relative to the
    /// paragraph start and without the background)
    pub next_start: Totals,
}

impl Break {
    pub fn forced(&self) -> bool {
        self.penalty <= EJECT_PENALTY
    }
}

#[derive(Clone, Debug)]
pub struct Paragraph {
    pub items: Vec<Item>,
    /// `prefix[i]` = totals of items `0..i` (discretionaries contribute nothing, replaced
    /// nodes contribute as ordinary nodes, glue contributes width/stretch/shrink)
    pub prefix: Vec<Totals>,
    /// legal breakpoints with penalty < 10000 in list order; the last one is the final break
    pub breaks: Vec<Break>,
}

fn item_totals(it: &Item) -> Totals {
    let mut t = Totals::ZERO;
    match it {
        Item::Solid(w) => t.width = *w,
        Item::Kern { width, .. } => t.width = *width,
        Item::Glue(g) => t.add_glue(g),
        Item::Penalty(_) | Item::Disc { .. } => {}
    }
    t
}

impl Paragraph {
    /// Scan a list the way §863–§869 does. `params` supplies the two hyphen penalties.
    pub fn scan(items: &[Item], params: &Params, dev: Deviations) -> Paragraph {
        let n = items.len();
        let mut prefix = Vec::with_capacity(n + 1);
        let mut run = Totals::ZERO;
        prefix.push(run);
        for it in items {
            run = run.plus(item_totals(it));
            prefix.push(run);
        }

        // §837: pass over discardable nodes starting at `s`; returns the index of the first
        // node that starts the next line.
        let skip_discardables = |mut s: usize| -> usize {
            while s < n {
                match &items[s] {
                    Item::Glue(_) | Item::Penalty(_) => {}
                    Item::Kern { explicit: true, .. } => {}
                    _ => break,
                }
                s += 1;
            }
            s
        };

        let mut breaks = vec![];
        // `prev` plays the role of `prev_p`; at the start prev_p = cur_p (§863), so glue at
        // the very beginning is preceded by itself and is not a legal breakpoint.
        let mut prev: Option<usize> = None;
        let mut i = 0;
        while i < n {
            let mut step = 1;
            let mut candidate: Option<(BreakKind, i32, bool, i64, Totals)> = None;
            match &items[i] {
                Item::Solid(_) => {}
                Item::Glue(_) => {
                    // §868: legal after a character, after a node that `precedes_break`
                    // (boxes, rules, ligatures, discretionaries, marks …) and after a
                    // non-explicit kern.
                    let ok = match prev.map(|j| &items[j]) {
                        Some(Item::Solid(_)) | Some(Item::Disc { .. }) => true,
                        Some(Item::Kern { explicit, .. }) => !*explicit,
                        _ => false,
                    };
                    if ok {
                        let next = if dev.break_width_covers_only_break_node { prefix[i + 1] } else { prefix[skip_discardables(i)] };
                        candidate = Some((BreakKind::Glue, 0, false, 0, next));
                    }
                }
                Item::Kern { explicit, width } => {
                    // §866 kern_break: an explicit kern followed by glue.
                    if *explicit && matches!(items.get(i + 1), Some(Item::Glue(_))) {
                        let next = if dev.kern_break_width_sign_inverted {
                            let mut t = prefix[i];
                            t.width -= *width;
                            t
                        } else if dev.break_width_covers_only_break_node {
                            prefix[i + 1]
                        } else {
                            prefix[skip_discardables(i)]
                        };
                        candidate = Some((BreakKind::Kern, 0, false, 0, next));
                    }
                }
                Item::Penalty(p) => {
                    let next = if dev.break_width_covers_only_break_node { prefix[i + 1] } else { prefix[skip_discardables(i)] };
                    candidate = Some((BreakKind::Penalty, *p, false, 0, next));
                }
                Item::Disc { pre, post, replace } => {
                    // §869, §840
                    let pen = if pre.is_none() { params.ex_hyphen_penalty } else { params.hyphen_penalty };
                    let after = (i + 1 + *replace).min(n);
                    let mut next = prefix[after];
                    match post {
                        Some(w) => next.width -= *w,
                        None => {
                            if !dev.break_width_covers_only_break_node {
                                next = prefix[skip_discardables(after)];
                            }
                        }
                    }
                    candidate = Some((BreakKind::Disc, pen, true, pre.unwrap_or(0), next));
                    if !dev.replaced_nodes_are_scanned {
                        // the replaced nodes are stepped over; prev_p stays at the discretionary
                        step = 1 + *replace;
                    }
                }
            }
            if let Some((kind, pen, hyphenated, pre_width, next_start)) = candidate {
                // §831
                if pen < INF_PENALTY {
                    breaks.push(Break { pos: i, kind, penalty: pen.max(EJECT_PENALTY), hyphenated, pre_width, next_start });
                }
            }
            prev = Some(i);
            i += step;
        }
        // §873: try_break(eject_penalty, hyphenated) at the end of the list
        breaks.push(Break { pos: n, kind: BreakKind::Final, penalty: EJECT_PENALTY, hyphenated: true, pre_width: 0, next_start: prefix[n] });
        Paragraph { items: items.to_vec(), prefix, breaks }
    }

    pub fn break_index(&self, pos: usize) -> Option<usize> {
        self.breaks.binary_search_by_key(&pos, |b| b.pos).ok()
    }

    /// Natural totals of the material of a line from break `from` (`None` = paragraph
    /// start) to break `to`, without the background.
    pub fn material(&self, from: Option<usize>, to: usize) -> Totals {
        let start = match from {
            None => Totals::ZERO,
            Some(a) => self.breaks[a].next_start,
        };
        let b = &self.breaks[to];
        let mut t = self.prefix[b.pos].minus(start);
        t.width += b.pre_width;
        t
    }
}

// ------------------------------------------------------------------------------------
// Arithmetic

/// TeX §108.
pub fn badness(t: i64, s: i64) -> i32 {
    if t == 0 {
        0
    } else if s <= 0 {
        INF_BAD
    } else {
        let r = if t <= 7_230_584 {
            (t * 297) / s
        } else if s >= 1_663_497 {
            t / (s / 297)
        } else {
            t
        };
        if r > 1290 {
            INF_BAD
        } else {
            ((r * r * r + 0o400_000) / 0o1_000_000) as i32
        }
    }
}

#[derive(Clone, Copy, Debug, PartialEq, Eq, PartialOrd, Ord)]
pub enum Fit {
    VeryLoose = 0,
    Loose = 1,
    Decent = 2,
    Tight = 3,
}

pub const FITS: [Fit; 4] = [Fit::VeryLoose, Fit::Loose, Fit::Decent, Fit::Tight];

/// §851–§853: badness (10001 = overfull) and fitness class of a line with the given
/// natural totals (background included) set to `line_width`.
pub fn classify(line: &Totals, line_width: i64) -> (i32, Fit) {
    let shortfall = line_width - line.width;
    if shortfall > 0 {
        if line.infinitely_stretchable() {
            return (0, Fit::Decent);
        }
        if shortfall > 7_230_584 && line.stretch[0] < 1_663_497 {
            return (INF_BAD, Fit::VeryLoose);
        }
        let b = badness(shortfall, line.stretch[0]);
        let fit = if b > 12 {
            if b > 99 {
                Fit::VeryLoose
            } else {
                Fit::Loose
            }
        } else {
            Fit::Decent
        };
        (b, fit)
    } else {
        let b = if -shortfall > line.shrink { INF_BAD + 1 } else { badness(-shortfall, line.shrink) };
        (b, if b > 12 { Fit::Tight } else { Fit::Decent })
    }
}

/// Which arm of §108 / §852–§853 decides the badness of a line (coverage counters only; the
/// value itself always comes from [`classify`]).
pub mod branch {
    /// shortfall > 0 and a non-zero fil/fill/filll total: b = 0
    pub const INFINITE_STRETCH: u16 = 1;
    /// 0 < shortfall <= 7230584sp (110pt), finite stretch s > 0: r = 297t/s
    pub const STRETCH_SMALL: u16 = 2;
    /// shortfall > 7230584sp and s >= 1663497sp (25.4pt): r = t/(s/297)
    pub const STRETCH_LARGE_DIVIDE: u16 = 4;
    /// shortfall > 7230584sp and 0 < s < 1663497sp: inf_bad without division (§852)
    pub const STRETCH_LARGE_SHORTCUT: u16 = 8;
    /// shortfall > 0, no infinite stretch, total finite stretch <= 0: inf_bad (§108 `s<=0`)
    pub const STRETCH_NONPOSITIVE: u16 = 16;
    /// shortfall = 0 (and a non-negative shrink total): b = 0
    pub const EXACT: u16 = 32;
    /// 0 < -shortfall <= shrink
    pub const SHRINK: u16 = 64;
    /// -shortfall > shrink
    pub const OVERFULL: u16 = 128;
    /// the line's total shrink is negative (then even an exact fit is overfull, §853)
    pub const NEGATIVE_SHRINK_TOTAL: u16 = 256;
    /// the line's total finite stretch is negative
    pub const NEGATIVE_STRETCH_TOTAL: u16 = 512;
}

pub fn badness_branch(line: &Totals, line_width: i64) -> u16 {
    let shortfall = line_width - line.width;
    let mut m = 0;
    if line.shrink < 0 {
        m |= branch::NEGATIVE_SHRINK_TOTAL;
    }
    if line.stretch[0] < 0 {
        m |= branch::NEGATIVE_STRETCH_TOTAL;
    }
    if shortfall > 0 {
        let s = line.stretch[0];
        m |= if line.infinitely_stretchable() {
            branch::INFINITE_STRETCH
        } else if s <= 0 {
            branch::STRETCH_NONPOSITIVE
        } else if shortfall <= 7_230_584 {
            branch::STRETCH_SMALL
        } else if s >= 1_663_497 {
            branch::STRETCH_LARGE_DIVIDE
        } else {
            branch::STRETCH_LARGE_SHORTCUT
        };
    } else if -shortfall > line.shrink {
        m |= branch::OVERFULL;
    } else if shortfall == 0 {
        m |= branch::EXACT;
    } else {
        m |= branch::SHRINK;
    }
    m
}

/// §859. `pi` is the break's penalty after §831, `at_end` = the final break of the paragraph.
pub fn line_demerits(p: &Params, b: i32, pi: i32, prev_fit: Fit, fit: Fit, prev_hyphenated: bool, hyphenated: bool, at_end: bool) -> i64 {
    let mut d = p.line_penalty as i64 + b as i64;
    d = if d.abs() >= 10_000 { 100_000_000 } else { d * d };
    let pi = pi as i64;
    if pi != 0 {
        if pi > 0 {
            d += pi * pi;
        } else if pi > EJECT_PENALTY as i64 {
            d -= pi * pi;
        }
    }
    if hyphenated && prev_hyphenated {
        if at_end {
            d += p.final_hyphen_demerits as i64;
        } else {
            d += p.double_hyphen_demerits as i64;
        }
    }
    if (fit as i32 - prev_fit as i32).abs() > 1 {
        d += p.adj_demerits as i64;
    }
    d
}

// ------------------------------------------------------------------------------------
// One breaking pass

#[derive(Clone, Debug)]
pub struct Pass<'a> {
    pub para: &'a Paragraph,
    pub params: &'a Params,
    /// width of line 1, 2, …; the last entry applies to all further lines (`\parshape`,
    /// or a single `\hsize`). Must be non-empty.
    pub line_widths: &'a [i64],
    pub tolerance: i32,
    pub emergency_stretch: i64,
    pub dev: Deviations,
}

#[derive(Clone, Copy, Debug, PartialEq, Eq)]
pub struct LineEval {
    pub totals: Totals,
    pub width: i64,
    pub badness: i32,
    pub fit: Fit,
}

impl LineEval {
    pub fn overfull(&self) -> bool {
        self.badness > INF_BAD
    }
}

#[derive(Clone, Debug)]
pub struct SeqLine {
    pub from: Option<usize>,
    pub to: usize,
    pub eval: LineEval,
    pub demerits: i64,
    pub feasible: bool,
}

#[derive(Clone, Debug)]
pub struct SeqEval {
    pub lines: Vec<SeqLine>,
    pub total: i64,
    pub all_feasible: bool,
}

#[derive(Clone, Copy, Debug, PartialEq, Eq)]
pub struct Extremes {
    pub min: i64,
    pub max: i64,
}

#[derive(Clone, Debug)]
pub struct Solution {
    /// number of lines → extreme total demerits over all feasible sequences with that count
    pub by_count: BTreeMap<usize, Extremes>,
    /// number of lines → one sequence (break positions) attaining the minimum
    pub best_path: BTreeMap<usize, Vec<usize>>,
    /// largest |best total so far + demerits of one more line| over everything TeX's
    /// algorithm has to represent for this looseness setting; TeX is only defined while
    /// this stays below `AWFUL_BAD`
    pub peak: i64,
    /// union of [`badness_branch`] over every admissible (feasible) line the exhaustive DP
    /// extended a state with
    pub feasible_branches: u16,
}

#[derive(Clone, Copy, Debug, PartialEq, Eq)]
pub struct Choice {
    /// line count of the overall optimum (smallest count among ties)
    pub best_count: usize,
    /// another line count has exactly the same minimum total
    pub best_count_tie: bool,
    /// count selected by §875
    pub count: usize,
    /// `count == best_count + looseness`
    pub exact: bool,
    /// minimum total demerits for `count`
    pub demerits: i64,
}

impl Solution {
    pub fn feasible(&self) -> bool {
        !self.by_count.is_empty()
    }
    pub fn optimum(&self) -> Option<i64> {
        self.by_count.values().map(|e| e.min).min()
    }
    /// §874–§875. `None` when nothing is feasible.
    pub fn choose(&self, looseness: i32) -> Option<Choice> {
        let opt = self.optimum()?;
        let best_count = *self.by_count.iter().find(|(_, e)| e.min == opt).unwrap().0;
        let best_count_tie = self.by_count.values().filter(|e| e.min == opt).count() > 1;
        let mut actual = 0i64;
        let want = looseness as i64;
        for &c in self.by_count.keys() {
            let diff = c as i64 - best_count as i64;
            if (diff < actual && want <= diff) || (diff > actual && want >= diff) {
                actual = diff;
            }
        }
        let count = (best_count as i64 + actual) as usize;
        Some(Choice { best_count, best_count_tie, count, exact: actual == want, demerits: self.by_count[&count].min })
    }
}

impl<'a> Pass<'a> {
    /// §827 background: `\leftskip` + `\rightskip` (+ emergency stretch).
    pub fn background(&self) -> Totals {
        let mut t = Totals::ZERO;
        t.add_glue(&self.params.left_skip);
        t.add_glue(&self.params.right_skip);
        t.stretch[0] += self.emergency_stretch;
        t
    }

    /// Width of the line with 0-based index `line`.
    pub fn line_width(&self, line: usize) -> i64 {
        *self.line_widths.get(line).unwrap_or_else(|| self.line_widths.last().expect("line widths must be non-empty"))
    }

    /// §863: `if threshold>inf_bad then threshold:=inf_bad`.
    pub fn threshold(&self) -> i32 {
        if self.dev.tolerance_not_clamped {
            self.tolerance
        } else {
            self.tolerance.min(INF_BAD)
        }
    }

    /// The line from `from` (`None` = paragraph start) to `to`, as line number `line` (0-based).
    pub fn line(&self, from: Option<usize>, to: usize, line: usize) -> LineEval {
        let totals = self.para.material(from, to).plus(self.background());
        let width = self.line_width(line);
        let (badness, fit) = classify(&totals, width);
        LineEval { totals, width, badness, fit }
    }

    fn demerits(&self, from: Option<usize>, to: usize, prev_fit: Fit, ev: &LineEval) -> i64 {
        let b = &self.para.breaks[to];
        let prev_hyph = from.map(|a| self.para.breaks[a].hyphenated).unwrap_or(false);
        line_demerits(self.params, ev.badness, b.penalty, prev_fit, ev.fit, prev_hyph, b.hyphenated, b.kind == BreakKind::Final)
    }

    /// True when a forced break lies strictly between the two breaks (such a pair is not a line).
    fn crosses_forced(&self, from: Option<usize>, to: usize) -> bool {
        let lo = from.map(|a| a + 1).unwrap_or(0);
        self.para.breaks[lo..to].iter().any(|b| b.forced())
    }

    /// Evaluate a complete sequence of break positions (node indices, ascending, ending
    /// with the list length). `Err` = the sequence is not legal.
    pub fn evaluate(&self, positions: &[usize]) -> Result<SeqEval, String> {
        let n = self.para.items.len();
        if positions.last() != Some(&n) {
            return Err(format!("the last break must be the end of the list ({n}), got {:?}", positions.last()));
        }
        let mut lines = vec![];
        let mut from: Option<usize> = None;
        let mut prev_fit = Fit::Decent;
        let mut total = 0i64;
        let mut all_feasible = true;
        let thr = self.threshold();
        for (k, &pos) in positions.iter().enumerate() {
            let Some(to) = self.para.break_index(pos) else {
                return Err(format!("position {pos} is not a legal breakpoint"));
            };
            if let Some(a) = from {
                if to <= a {
                    return Err(format!("break positions are not strictly increasing at {pos}"));
                }
            }
            if self.crosses_forced(from, to) {
                return Err(format!("the line ending at {pos} runs across a forced break"));
            }
            let ev = self.line(from, to, k);
            let d = self.demerits(from, to, prev_fit, &ev);
            let feasible = ev.badness <= thr;
            all_feasible &= feasible;
            total += d;
            lines.push(SeqLine { from, to, eval: ev, demerits: d, feasible });
            prev_fit = ev.fit;
            from = Some(to);
        }
        Ok(SeqEval { lines, total, all_feasible })
    }

    /// First break (index) at which the line starting at `from` with the given width is
    /// overfull, looking no further than the next forced break.
    fn first_overfull(&self, from: Option<usize>, line_width: i64) -> Option<usize> {
        let nb = self.para.breaks.len();
        let bg = self.background();
        let lo = from.map(|a| a + 1).unwrap_or(0);
        for to in lo..nb {
            let totals = self.para.material(from, to).plus(bg);
            if classify(&totals, line_width).0 > INF_BAD {
                return Some(to);
            }
            if self.para.breaks[to].forced() {
                break;
            }
        }
        None
    }

    /// Is the line from→to admissible in a feasible sequence?
    fn admissible(&self, from: Option<usize>, to: usize, ev: &LineEval) -> bool {
        if ev.badness > self.threshold() {
            return false;
        }
        if ev.overfull() {
            // Only reachable with `tolerance_not_clamped` and a tolerance above 10000: the
            // first overfull break from a line start is recorded, later ones are not.
            return self.first_overfull(from, ev.width) == Some(to);
        }
        true
    }

    /// Exhaustive dynamic programme. State = (break, lines so far, fitness class of the
    /// line that ended there). No pruning of any kind.
    pub fn solve(&self) -> Solution {
        let nb = self.para.breaks.len();
        let full = self.dp(usize::MAX);
        let mut by_count = BTreeMap::new();
        let mut best_path = BTreeMap::new();
        let last = nb - 1;
        for lines in 1..=nb {
            let mut ext: Option<Extremes> = None;
            let mut arg: Option<usize> = None;
            for f in 0..4 {
                let s = &full.cells[idx(last + 1, lines, f, nb)];
                if let Some(c) = s {
                    ext = Some(match ext {
                        None => {
                            arg = Some(f);
                            Extremes { min: c.min, max: c.max }
                        }
                        Some(e) => {
                            if c.min < e.min {
                                arg = Some(f);
                            }
                            Extremes { min: e.min.min(c.min), max: e.max.max(c.max) }
                        }
                    });
                }
            }
            if let (Some(e), Some(f)) = (ext, arg) {
                by_count.insert(lines, e);
                // walk the back pointers
                let mut path = vec![];
                let (mut node, mut l, mut ff) = (last + 1, lines, f);
                while node != 0 {
                    path.push(self.para.breaks[node - 1].pos);
                    let c = full.cells[idx(node, l, ff, nb)].as_ref().unwrap();
                    let (pn, pf) = c.back;
                    node = pn;
                    ff = pf;
                    l -= 1;
                }
                path.reverse();
                best_path.insert(lines, path);
            }
        }
        // What TeX has to represent: with looseness = 0 all line numbers beyond the last
        // special line share one class (§848 easy_line, §835).
        let peak = if self.params.looseness == 0 { self.dp(self.line_widths.len().saturating_sub(1)).peak } else { full.peak };
        Solution { by_count, best_path, peak, feasible_branches: full.branches }
    }

    /// `cap`: line counts ≥ cap are merged into one class (usize::MAX = never).
    fn dp(&self, cap: usize) -> Table {
        let nb = self.para.breaks.len();
        // node 0 = paragraph start, node k+1 = breaks[k]
        let lines_dim = nb + 1;
        let mut cells: Vec<Option<Cell>> = vec![None; (nb + 1) * lines_dim * 4];
        cells[idx(0, 0, Fit::Decent as usize, nb)] = Some(Cell { min: 0, max: 0, back: (0, 0) });
        let mut peak = 0i64;
        let mut branches = 0u16;
        for node in 0..nb {
            let from = if node == 0 { None } else { Some(node - 1) };
            for l in 0..lines_dim {
                // collect the states at (node, l)
                let mut here: [Option<Cell>; 4] = [None; 4];
                let mut any = false;
                for f in 0..4 {
                    here[f] = cells[idx(node, l, f, nb)];
                    any |= here[f].is_some();
                }
                if !any {
                    continue;
                }
                let lo = from.map(|a| a + 1).unwrap_or(0);
                for to in lo..nb {
                    // the real number of lines before this one is only known up to the merged class;
                    // merged classes all use the last width, so `l` gives the right width
                    let ev = self.line(from, to, l);
                    if self.admissible(from, to, &ev) {
                        branches |= badness_branch(&ev.totals, ev.width);
                        let nl = (l + 1).min(cap).min(lines_dim - 1);
                        for f in 0..4 {
                            let Some(c) = here[f] else { continue };
                            let d = self.demerits(from, to, FITS[f], &ev);
                            let (cmin, cmax) = (c.min + d, c.max + d);
                            peak = peak.max(cmin.abs());
                            let slot = &mut cells[idx(to + 1, nl, ev.fit as usize, nb)];
                            match slot {
                                None => *slot = Some(Cell { min: cmin, max: cmax, back: (node, f) }),
                                Some(s) => {
                                    if cmin < s.min {
                                        s.min = cmin;
                                        s.back = (node, f);
                                    }
                                    if cmax > s.max {
                                        s.max = cmax;
                                    }
                                }
                            }
                        }
                    }
                    if self.para.breaks[to].forced() {
                        break;
                    }
                }
            }
        }
        Table { cells, peak, branches }
    }

    /// The precondition of TeX's active-list pruning: for every line start and every line
    /// width in use, once the line to some break is overfull it is overfull to every later
    /// break (up to the next forced break, beyond which no line from that start exists).
    pub fn monotone(&self) -> bool {
        let nb = self.para.breaks.len();
        let bg = self.background();
        for node in 0..nb {
            let from = if node == 0 { None } else { Some(node - 1) };
            let lo = from.map(|a| a + 1).unwrap_or(0);
            for w in 0..self.line_widths.len() {
                let width = self.line_widths[w];
                let mut seen_overfull = false;
                for to in lo..nb {
                    let totals = self.para.material(from, to).plus(bg);
                    let over = classify(&totals, width).0 > INF_BAD;
                    if seen_overfull && !over {
                        return false;
                    }
                    seen_overfull |= over;
                    if self.para.breaks[to].forced() {
                        break;
                    }
                }
            }
        }
        true
    }
}

#[derive(Clone, Copy, Debug)]
struct Cell {
    min: i64,
    max: i64,
    /// predecessor (node, fitness) of the minimum
    back: (usize, usize),
}

struct Table {
    cells: Vec<Option<Cell>>,
    peak: i64,
    branches: u16,
}

fn idx(node: usize, lines: usize, fit: usize, nb: usize) -> usize {
    (node * (nb + 1) + lines) * 4 + fit
}
