//! Reference `hpack` — an independent transcription of TeX: The Program §649–667
//! ("Packaging": `hpack`), with per-order glue totals exactly as TeX keeps them
//! (`total_stretch[normal..filll]`, `total_shrink[normal..filll]`).
//!
//! The model works on a neutral description of what `hpack` sees of each node
//! ([`Item`]) and computes everything in `i64`, so it never overflows on inputs whose
//! individual dimensions fit TeX's 31 bits; [`hpack`] reports `Err(Overflow)` when a
//! running sum leaves the `i32` range (TeX's own arithmetic is undefined there).
//!
//! Public API (used by C15 directly and meant for reuse by C12):
//!
//! * [`Item`], [`Target`], [`Deviations`], [`Packed`], [`Sign`] — plain data;
//! * [`hpack`] — the model;
//! * [`items_from_ds`] — adapter from a `boxworks::ds::Horizontal` list (+ a `FontRepo`
//!   for the character metrics) to [`Item`]s;
//! * [`compare_box`] — the oracle predicate "this `ds::HBox` is the box TeX would have
//!   produced", exact (no floating point, never `GlueRatio::eq`);
//! * [`badness`] — TeX §108.
//!
//! TeX sections transcribed:
//! * §649 `hpack`: `h:=0; d:=0; x:=0; total_stretch[*]:=0; total_shrink[*]:=0`, walk the list.
//! * §651 node dispatch: hlist/vlist/rule/unset → §653; ins/mark/adjust → moved to the
//!   adjustment list, no dimensions; whatsit → nothing (§1360); glue → §656; kern, math →
//!   `x:=x+width(p)`; ligature → as its character (§652); *othercases* (penalty,
//!   discretionary) `do_nothing`.
//! * §653 `x:=x+width(p); if type(p)>=rule_node then s:=0 else s:=shift_amount(p);
//!   if height(p)-s>h then h:=height(p)-s; if depth(p)+s>d then d:=depth(p)+s`.
//!   (A running rule dimension is −2³⁰ and can therefore never win a maximum.)
//! * §654 characters: `x:=x+char_width; if char_height>h …; if char_depth>d …`.
//! * §656 glue: `x:=x+width(g); total_stretch[stretch_order(g)] += stretch(g);
//!   total_shrink[shrink_order(g)] += shrink(g)`; leaders also contribute the leader
//!   box's height and depth.
//! * §657 `if m=additional then w:=x+w; width(r):=w; x:=w-x` (x is now the excess);
//!   `x=0` → order normal, sign normal, ratio 0.
//! * §658/§659 `x>0`: `o` := highest order with `total_stretch[o]<>0`, else normal;
//!   `glue_order:=o; glue_sign:=stretching; if total_stretch[o]<>0 then
//!   glue_set:=x/total_stretch[o] else (glue_sign:=normal; glue_set:=0)`;
//!   `o=normal` and non-empty list → `last_badness:=badness(x,total_stretch[normal])` (§660).
//! * §664/§665 `x<0`: `o` := highest order with `total_shrink[o]<>0`, else normal;
//!   `glue_order:=o; glue_sign:=shrinking; if total_shrink[o]<>0 then
//!   glue_set:=(-x)/total_shrink[o] else (glue_sign:=normal; glue_set:=0)`;
//!   `if (total_shrink[o]<-x) and (o=normal) and (list_ptr(r)<>null)` → overfull:
//!   `last_badness:=1000000; glue_set:=1.0` (the sign is *not* touched, so a box with no
//!   shrinkability stays unset); otherwise `o=normal`, non-empty →
//!   `last_badness:=badness(-x,total_shrink[normal])` (§667).
//! * §666 (inside the overfull branch): TeX may append the `\overfullrule` rule to the list
//!   *after* the dimensions are known; the model ignores it, `overfull_branch` tells when.
//!
//! Sign of the ratio: `ds::HBox` has no `glue_sign`; `HBox::pack` stores `excess/total`, so
//! a shrinking box (positive shrinkability) has a negative ratio, which is also what
//! `boxworks::tex::parse_glue_set` produces from TeX's `glue set - r`. [`compare_box`]
//! demands the convention-free identity `natural + ratio·total = set width`, where the set
//! width is the box width, or `natural − total_shrink` for an overfull box (ratio −1).

use boxworks::ds;

pub const NORMAL: usize = 0;
pub const FIL: usize = 1;
pub const FILL: usize = 2;
pub const FILLL: usize = 3;

/// TeX's running-dimension flag (`null_flag`, −2³⁰). Any value this small behaves the same.
pub const NULL_FLAG: i64 = -(1 << 30);

/// What `hpack` sees of one node of the horizontal list.
#[derive(Clone, Copy, Debug, PartialEq, Eq)]
pub enum Item {
    /// Character or ligature with the font's metrics (§654, §652).
    Char { w: i64, h: i64, d: i64 },
    /// hlist or vlist node (§653, shifted).
    Box { w: i64, h: i64, d: i64, shift: i64 },
    /// Rule node (§653, never shifted; running dimensions are just very negative).
    Rule { w: i64, h: i64, d: i64 },
    /// Kern or math node: width only.
    Kern { w: i64 },
    /// Glue (§656). `leader` = (height, depth) of the leader box for leader glue.
    Glue { w: i64, stretch: i64, stretch_order: usize, shrink: i64, shrink_order: usize, leader: Option<(i64, i64)> },
    /// Penalty, discretionary, mark, insertion, adjust, whatsit: no dimensions.
    Nothing,
}

#[derive(Clone, Copy, Debug, PartialEq, Eq)]
pub enum Target {
    /// `\hbox to w`
    Exact(i64),
    /// `\hbox spread w` (`Additional(0)` = natural width)
    Additional(i64),
}

/// Named deviations from TeX that reproduce known defective behaviour of
/// `boxworks::ds::HBox::pack` exactly. All off = TeX.
#[derive(Clone, Copy, Debug, Default, PartialEq, Eq)]
pub struct Deviations {
    /// The glue order is the highest order *appearing on any glue node* (even with a zero
    /// or cancelling total) instead of the highest order with a non-zero total, and only
    /// the amounts of that order are summed. Consequences: `+1fil −1fil` or `0fil`
    /// beside finite stretch leaves the box unset (TeX: normal order); when shrinking, the
    /// box's `glue_order` is that order even if nothing is set (TeX: normal); when
    /// stretching with a zero total the order stays normal.
    pub zero_total_hides_lower_orders: bool,
    /// Box and rule nodes contribute `height − shift` (rules: `height`) to the natural
    /// *width* and their `width` to the *height* maximum (fields swapped).
    pub box_rule_width_height_swapped: bool,
    /// The glue ratio of an overfull box is `+1` although every other shrinking box gets the
    /// negative ratio `excess/total_shrink`: read with the same convention (set width =
    /// natural + ratio·total) the overfull box *grows* by its shrinkability, and
    /// (order normal, ratio +1) is indistinguishable from "stretch by exactly the total stretch".
    pub overfull_ratio_positive: bool,
}

impl Deviations {
    pub const NONE: Deviations = Deviations { zero_total_hides_lower_orders: false, box_rule_width_height_swapped: false, overfull_ratio_positive: false };
    pub const FLAG_NAMES: [&'static str; 3] = ["zero_total_hides_lower_orders", "box_rule_width_height_swapped", "overfull_ratio_positive"];
    pub fn with_flag(mut self, name: &str) -> Self {
        match name {
            "zero_total_hides_lower_orders" => self.zero_total_hides_lower_orders = true,
            "box_rule_width_height_swapped" => self.box_rule_width_height_swapped = true,
            "overfull_ratio_positive" => self.overfull_ratio_positive = true,
            _ => panic!("unknown hpack deviation flag {name}"),
        }
        self
    }
}

#[derive(Clone, Copy, Debug, PartialEq, Eq)]
pub enum Sign {
    /// Nothing is set ("unset" in the property's words).
    Normal,
    Stretching,
    Shrinking,
}

/// A running sum left the 32-bit range.
#[derive(Clone, Copy, Debug, PartialEq, Eq)]
pub struct Overflow;

/// The box TeX's `hpack` builds.
#[derive(Clone, Debug, PartialEq, Eq)]
pub struct Packed {
    pub width: i64,
    pub height: i64,
    pub depth: i64,
    /// Σ widths (TeX's `x` before §657).
    pub natural_width: i64,
    /// `width − natural_width` (TeX's `x` after §657).
    pub excess: i64,
    pub total_stretch: [i64; 4],
    pub total_shrink: [i64; 4],
    pub glue_order: usize,
    pub glue_sign: Sign,
    /// `glue_set` as an exact rational in TeX's convention (a magnitude: `x/total_stretch[o]`
    /// or `(−x)/total_shrink[o]`; negative only when the total is negative). `0/1` when
    /// `glue_sign` is `Normal`; `1/1` when overfull.
    pub set_num: i64,
    pub set_den: i64,
    /// The total that is being stretched or shrunk (`total_*[o]`), 0 when unset.
    pub active_total: i64,
    /// §664: `total_shrink[o] < −x`, `o = normal`, list not empty *and* something shrinks.
    /// (TeX also takes the overfull branch with zero shrinkability, but then the sign is
    /// `normal` and the box is simply unset; see `overfull_branch`.)
    pub overfull: bool,
    /// TeX took the overfull branch of §664 (includes the zero-shrinkability case).
    pub overfull_branch: bool,
    /// TeX's `last_badness` after the call.
    pub last_badness: i64,
    pub empty: bool,
    /// Only set by the deviation `overfull_ratio_positive`: the signed ratio of an overfull
    /// box is expected to be `+1` instead of `−1`.
    pub dev_overfull_ratio_positive: bool,
}

impl Packed {
    pub fn is_set(&self) -> bool {
        self.glue_sign != Sign::Normal
    }
    /// TeX would call the box underfull at the given `\hbadness` (§660).
    pub fn underfull_at(&self, hbadness: i64) -> bool {
        self.excess > 0 && self.glue_order == NORMAL && !self.empty && self.last_badness > hbadness
    }
}

/// TeX §108.
pub fn badness(t: i64, s: i64) -> i64 {
    const INF_BAD: i64 = 10000;
    if t == 0 {
        0
    } else if s <= 0 {
        INF_BAD
    } else {
        let r = if t <= 7230584 {
            (t * 297) / s
        } else if s >= 1663497 {
            t / (s / 297)
        } else {
            t
        };
        if r > 1290 {
            INF_BAD
        } else {
            (r * r * r + 0o400000) / 0o1000000
        }
    }
}

fn chk(v: i64) -> Result<i64, Overflow> {
    if v < i32::MIN as i64 || v > i32::MAX as i64 {
        Err(Overflow)
    } else {
        Ok(v)
    }
}

/// TeX's `hpack(p, w, m)` on `items` (with the named deviations switched on, if any).
pub fn hpack(items: &[Item], target: Target, dev: Deviations) -> Result<Packed, Overflow> {
    let mut h: i64 = 0;
    let mut d: i64 = 0;
    let mut x: i64 = 0;
    let mut total_stretch = [0i64; 4];
    let mut total_shrink = [0i64; 4];
    // Highest order appearing on any glue node (only used by a deviation).
    let mut seen_stretch = NORMAL;
    let mut seen_shrink = NORMAL;
    for it in items {
        match *it {
            Item::Char { w, h: ch, d: cd } => {
                x = chk(x + w)?;
                if ch > h {
                    h = ch;
                }
                if cd > d {
                    d = cd;
                }
            }
            Item::Box { w, h: bh, d: bd, shift } => {
                let (w, bh) = if dev.box_rule_width_height_swapped { (chk(bh - shift)?, w) } else { (w, chk(bh - shift)?) };
                x = chk(x + w)?;
                if bh > h {
                    h = bh;
                }
                let bd = chk(bd + shift)?;
                if bd > d {
                    d = bd;
                }
            }
            Item::Rule { w, h: rh, d: rd } => {
                let (w, rh) = if dev.box_rule_width_height_swapped { (rh, w) } else { (w, rh) };
                x = chk(x + w)?;
                if rh > h {
                    h = rh;
                }
                if rd > d {
                    d = rd;
                }
            }
            Item::Kern { w } => x = chk(x + w)?,
            Item::Glue { w, stretch, stretch_order, shrink, shrink_order, leader } => {
                x = chk(x + w)?;
                total_stretch[stretch_order] = chk(total_stretch[stretch_order] + stretch)?;
                total_shrink[shrink_order] = chk(total_shrink[shrink_order] + shrink)?;
                seen_stretch = seen_stretch.max(stretch_order);
                seen_shrink = seen_shrink.max(shrink_order);
                if let Some((lh, ld)) = leader {
                    if lh > h {
                        h = lh;
                    }
                    if ld > d {
                        d = ld;
                    }
                }
            }
            Item::Nothing => {}
        }
    }
    let empty = items.is_empty();
    let natural_width = x;
    // §657
    let width = match target {
        Target::Exact(w) => w,
        Target::Additional(a) => chk(x + a)?,
    };
    let excess = chk(width - x)?;
    let highest_nonzero = |t: &[i64; 4]| -> usize {
        if t[FILLL] != 0 {
            FILLL
        } else if t[FILL] != 0 {
            FILL
        } else if t[FIL] != 0 {
            FIL
        } else {
            NORMAL
        }
    };
    let mut p = Packed {
        width,
        height: h,
        depth: d,
        natural_width,
        excess,
        total_stretch,
        total_shrink,
        glue_order: NORMAL,
        glue_sign: Sign::Normal,
        set_num: 0,
        set_den: 1,
        active_total: 0,
        overfull: false,
        overfull_branch: false,
        last_badness: 0,
        empty,
        dev_overfull_ratio_positive: dev.overfull_ratio_positive,
    };
    if excess == 0 {
        return Ok(p);
    }
    if excess > 0 {
        // §658, §659
        let o = if dev.zero_total_hides_lower_orders { seen_stretch } else { highest_nonzero(&total_stretch) };
        p.glue_order = o;
        if total_stretch[o] != 0 {
            p.glue_sign = Sign::Stretching;
            p.set_num = excess;
            p.set_den = total_stretch[o];
            p.active_total = total_stretch[o];
        } else if dev.zero_total_hides_lower_orders {
            // The deviating implementation leaves the default order when nothing stretches.
            p.glue_order = NORMAL;
        }
        if o == NORMAL && !empty {
            p.last_badness = badness(excess, total_stretch[NORMAL]);
        }
    } else {
        // §664, §665
        let o = if dev.zero_total_hides_lower_orders { seen_shrink } else { highest_nonzero(&total_shrink) };
        p.glue_order = o;
        if total_shrink[o] != 0 {
            p.glue_sign = Sign::Shrinking;
            p.set_num = -excess;
            p.set_den = total_shrink[o];
            p.active_total = total_shrink[o];
        }
        if total_shrink[o] < -excess && o == NORMAL && !empty {
            p.overfull_branch = true;
            p.last_badness = 1000000;
            if p.glue_sign != Sign::Normal {
                p.overfull = true;
                p.set_num = 1;
                p.set_den = 1;
            }
        } else if o == NORMAL && !empty {
            p.last_badness = badness(-excess, total_shrink[NORMAL]);
        }
    }
    Ok(p)
}

/// A node kind the adapter cannot describe (nothing at present; kept for API stability).
#[derive(Clone, Debug, PartialEq, Eq)]
pub struct Unsupported(pub &'static str);

pub fn order_index(o: common::GlueOrder) -> usize {
    match o {
        common::GlueOrder::Normal => NORMAL,
        common::GlueOrder::Fil => FIL,
        common::GlueOrder::Fill => FILL,
        common::GlueOrder::Filll => FILLL,
    }
}

pub fn order_name(o: usize) -> &'static str {
    ["normal", "fil", "fill", "filll"][o]
}

/// Describe a `ds::Horizontal` list for the model. Character metrics come from
/// `font_repo` (a missing character is an error: TeX never builds such a node).
/// Mark/insertion/adjust/whatsit/math nodes contribute nothing (TeX §651, §655, §1360;
/// `ds::Math` carries no width). Leader glue (`GlueKind::{Aligned,Centered,Expanded}Leader`)
/// has no leader box in `ds`, so TeX §656's "leader box height and depth count" has nothing
/// to apply to and it is described as ordinary glue (`leader: None`); once `ds::Glue` gains a
/// leader box, feed its height and depth into `Item::Glue::leader` here.
pub fn items_from_ds<F: boxworks::FontRepo>(font_repo: &F, list: &[ds::Horizontal]) -> Result<Vec<Item>, Unsupported> {
    use ds::Horizontal as H;
    let mut out = Vec::with_capacity(list.len());
    for n in list {
        out.push(match n {
            H::Char(ds::Char { char, font }) | H::Ligature(ds::Ligature { char, font, .. }) => {
                let Some(w) = font_repo.width(*char, *font) else {
                    return Err(Unsupported("character without metrics"));
                };
                let h = font_repo.height(*char, *font).map(|s| s.0 as i64).unwrap_or(0);
                let d = font_repo.depth(*char, *font).map(|s| s.0 as i64).unwrap_or(0);
                Item::Char { w: w.0 as i64, h, d }
            }
            H::HBox(b) => Item::Box { w: b.width.0 as i64, h: b.height.0 as i64, d: b.depth.0 as i64, shift: b.shift_amount.0 as i64 },
            H::VBox(b) => Item::Box { w: b.width.0 as i64, h: b.height.0 as i64, d: b.depth.0 as i64, shift: b.shift_amount.0 as i64 },
            H::Rule(r) => Item::Rule { w: r.width.0 as i64, h: r.height.0 as i64, d: r.depth.0 as i64 },
            H::Kern(k) => Item::Kern { w: k.width.0 as i64 },
            H::Glue(g) => Item::Glue {
                w: g.value.width.0 as i64,
                stretch: g.value.stretch.0 as i64,
                stretch_order: order_index(g.value.stretch_order),
                shrink: g.value.shrink.0 as i64,
                shrink_order: order_index(g.value.shrink_order),
                leader: None,
            },
            H::Penalty(_) | H::Discretionary(_) | H::Mark(_) | H::Insertion(_) | H::Adjust(_) | H::Whatsit(_) | H::Math(_) => Item::Nothing,
        });
    }
    Ok(out)
}

/// Exact comparison of a produced `ds::HBox` with the model's box: dimensions, glue
/// order, |glue ratio| as an exact rational (cross-multiplied in `i128` from the public
/// `num`/`den`), unset ⇒ ratio 0, and — whenever glue is set — the identity of the set width
/// with the implementation's own signed ratio: `natural + ratio·total == width` when the box
/// is not overfull, `natural + ratio·total_shrink == natural − total_shrink` (ratio = −1)
/// when it is overfull.
pub fn compare_box(p: &Packed, b: &ds::HBox) -> Result<(), String> {
    if b.width.0 as i64 != p.width {
        return Err(format!("width {}sp, TeX {}sp (natural width {}sp)", b.width.0, p.width, p.natural_width));
    }
    if b.height.0 as i64 != p.height {
        return Err(format!("height {}sp, TeX {}sp", b.height.0, p.height));
    }
    if b.depth.0 as i64 != p.depth {
        return Err(format!("depth {}sp, TeX {}sp", b.depth.0, p.depth));
    }
    let num = b.glue_ratio.num.0 as i128;
    let den = b.glue_ratio.den.0 as i128;
    let render = || {
        format!(
            "got order {} ratio {}/{}; TeX order {} sign {:?} glue_set {}/{} (excess {}sp, total stretch {:?}, total shrink {:?})",
            order_name(order_index(b.glue_order)),
            num,
            den,
            order_name(p.glue_order),
            p.glue_sign,
            p.set_num,
            p.set_den,
            p.excess,
            p.total_stretch,
            p.total_shrink
        )
    };
    if den == 0 {
        return Err(format!("glue ratio has a zero denominator: {}", render()));
    }
    if order_index(b.glue_order) != p.glue_order {
        return Err(format!("glue order differs: {}", render()));
    }
    match p.glue_sign {
        Sign::Normal => {
            if num != 0 {
                return Err(format!("box must be unset (ratio 0): {}", render()));
            }
        }
        Sign::Stretching | Sign::Shrinking => {
            if num.abs() * (p.set_den as i128).abs() != (p.set_num as i128).abs() * den.abs() {
                return Err(format!("|glue ratio| differs: {}", render()));
            }
            if !p.overfull {
                // natural + (num/den)·total == width
                let lhs = (p.natural_width as i128) * den + num * (p.active_total as i128);
                let rhs = (p.width as i128) * den;
                if lhs != rhs {
                    return Err(format!("set glue does not fill the box (sign of the ratio): {}", render()));
                }
            } else {
                // §664: glue_set:=unity with glue_sign=shrinking — the box "shrinks by exactly
                // its shrinkability": natural + (num/den)·total_shrink == natural − total_shrink,
                // the same reading of the signed ratio as in the identity above (which pack's
                // own non-overfull shrinking, ratio = excess/total_shrink, obeys).
                let want_sign: i128 = if p.dev_overfull_ratio_positive { 1 } else { -1 };
                if num != want_sign * den {
                    let set = (p.natural_width as i128) + (num * (p.active_total as i128)) / den;
                    return Err(format!(
                        "an overfull box must shrink by exactly its shrinkability: the signed glue ratio must be -1 (TeX: glue_set=1.0 with glue_sign=shrinking, shown as `glue set - 1.0`; every other shrinking box of HBox::pack has ratio excess/total_shrink < 0), but it is {}/{}: read like any other ratio the contents are set to {}sp instead of natural - shrink = {}sp, and the box cannot be told from one that stretches by exactly its stretchability: {}",
                        num,
                        den,
                        set,
                        p.natural_width - p.active_total,
                        render()
                    ));
                }
            }
        }
    }
    Ok(())
}
