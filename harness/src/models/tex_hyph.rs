//! `tex_hyph`: TeX82's reconstitution of a hyphenated word, written from tex.web part 41
//! ("Post-hyphenation"): §903 (which node the rebuilding starts from), §905-911 (function
//! `reconstitute`: one cut prefix of the word, its ligatures and kerns, `hyphen_passed`), §913-918
//! (the main list, the discretionary with its pre-break and post-break lists, the development of both
//! branches until they synchronise, the replace count).
//!
//! The model is a transliteration: variable names are TeX's (`hu`, `hyf`, `cur_l`, `cur_r`, `cur_rh`,
//! `lig_stack`, `ligature_present`, `lft_hit`, `rt_hit`, `hyphen_passed`, `init_list`, `init_lig`,
//! `init_lft`, `bchar`, `hchar`, `major_tail`/`r_count`, `c_loc`). The lig/kern instructions are looked
//! up with `ligkern_interp::RawFont::lookup` (first instruction of the left symbol's program whose right
//! character matches, TeX §909/§1039), which reads the RAW instruction array; nothing here touches
//! `tfm::ligkern::CompiledProgram` or `boxworks_hyphenate`.
//!
//! What the model does NOT do: word discovery (§894-899, the caller supplies letters, the node before
//! the word and `hyf_bchar`), pattern matching (§923-931, the caller supplies the odd `hyf` positions
//! after the minimums were applied, §902).
//!
//! Calibration (C14 `unit_goldens`, `alice_golden`): the model reproduces TeX's own lists for the 33
//! unit tests of boxworks-hyphenate (synthetic fonts, all boundary shapes, TeX's bchar anomaly) and
//! for the 995 lines of Alice in Wonderland (cmr10) node for node.

use super::ligkern_interp::{RawFont, Step};

pub const NON_CHAR: u16 = 256;

#[derive(Clone, Debug, PartialEq, Eq)]
pub enum Node {
    Char(u8),
    /// `lft` = subtype > 1, `rt` = odd subtype
    Lig { c: u8, orig: Vec<u8>, lft: bool, rt: bool },
    /// scaled points (TeX drops a kern whose scaled width is 0, §910 `if w<>0`)
    Kern(i64),
    Disc { pre: Vec<Node>, post: Vec<Node>, replace: usize },
}

/// The node `ha` before the first letter node (TeX §896 `ha:=prev_s`) as far as §903 looks at it.
#[derive(Clone, Debug, PartialEq, Eq)]
pub enum Ha {
    /// a character node of the word's font
    Char(u8),
    /// a ligature node of the word's font: its glyph, its original characters, subtype > 1
    Lig { c: u8, orig: Vec<u8>, lft: bool },
    /// a character or ligature node of another font (`goto found2`)
    OtherFont,
    /// anything else (glue, kern, whatsit, ...)
    NonChar,
}

#[derive(Clone, Debug)]
pub struct Word {
    /// `hu[1..hn]`
    pub letters: Vec<u8>,
    /// the positions j with odd `hyf[j]` after §902 cleared those the minimums exclude
    pub hyf: Vec<usize>,
    pub ha: Ha,
    /// the first letter node `r = link(ha)` is a ligature node with subtype > 1
    pub first_is_lft_lig: bool,
    /// `hyf_bchar` (256 = `non_char`)
    pub hyf_bchar: u16,
    /// `hyphen_char[hf]`
    pub hyf_char: u8,
    /// `new_character(hf, hyf_char) <> null`: the hyphen character exists in the font
    pub hyf_char_exists: bool,
}

#[derive(Clone, Copy, Debug, Default, PartialEq, Eq)]
pub struct Deviations {
    /// KF-C14-1: a node `ha` that is a character or ligature of the word's font is treated like any
    /// other node ("no punctuation found"): the run starts at the first letter (at the left boundary if
    /// the first letter node is a ligature that includes it) and `ha` stays where it is.
    pub ha_char_ignored: bool,
    /// Where TeX 897-898 leaves `hyf_bchar = non_char` (the word's last node is a letter or a
    /// ligature without the right boundary, and no character of the word's font follows), the font's
    /// boundary character is used as right boundary all the same.
    pub non_char_is_font_bchar: bool,
}

#[derive(Clone, Debug, PartialEq, Eq)]
pub struct Rebuilt {
    /// the new nodes replace `ha` too (TeX: `s` is the node before `ha`)
    pub replaces_ha: bool,
    pub nodes: Vec<Node>,
    /// a discretionary was forgotten because it would replace more than 127 nodes (§918)
    pub forgot_disc: bool,
}

pub struct Font<'a> {
    pub raw: &'a RawFont,
    /// converts the fix_word of a kern instruction to scaled points (TeX §571 `store_scaled`)
    pub scale: &'a dyn Fn(i32) -> i64,
}

#[derive(Clone, Copy)]
struct LigItem {
    character: u16,
    /// the character node for `hu[j+1]` that a `|=:` ligature absorbed
    lig_ptr: Option<u8>,
}

struct State<'a> {
    font: &'a Font<'a>,
    hu: Vec<u16>,
    hyf: Vec<bool>,
    init_list: Vec<u8>,
    init_lig: bool,
    init_lft: bool,
    ligature_present: bool,
    lft_hit: bool,
    rt_hit: bool,
    hyphen_passed: usize,
    steps: u64,
}

/// More ligature steps than this in one word: the model gives up (infinite ligature loop; TeX would
/// wait for an interrupt, §911 `check_interrupt`).
const STEP_CAP: u64 = 20_000;

impl<'a> State<'a> {
    /// TeX §905-911. Returns the new `j` and the list that hangs from `hold_head`.
    fn reconstitute(&mut self, mut j: usize, n: usize, mut bchar: u16, mut hchar: u16) -> Result<(usize, Vec<Node>), String> {
        self.hyphen_passed = 0;
        let mut t: Vec<Node> = vec![];
        let mut w: i64 = 0;
        // §908 Set up data structures with the cursor following position j
        let mut cur_l: u16 = self.hu[j];
        // `cur_q` is the index of the first node after the node TeX calls cur_q
        let mut cur_q: usize = 0;
        if j == 0 {
            self.ligature_present = self.init_lig;
            if self.ligature_present {
                self.lft_hit = self.init_lft;
            }
            for c in &self.init_list {
                t.push(Node::Char(*c));
            }
        } else if cur_l < NON_CHAR {
            t.push(Node::Char(cur_l as u8));
        }
        let mut lig_stack: Vec<LigItem> = vec![];
        let mut cur_r: u16;
        let mut cur_rh: u16;
        macro_rules! set_cur_r {
            () => {{
                cur_r = if j < n { self.hu[j + 1] } else { bchar };
                cur_rh = if self.hyf[j] { hchar } else { NON_CHAR };
            }};
        }
        macro_rules! wrap_lig {
            ($use_rt:expr) => {{
                if self.ligature_present {
                    let use_rt: bool = $use_rt;
                    let mut orig = vec![];
                    for n in t.split_off(cur_q) {
                        match n {
                            Node::Char(c) => orig.push(c),
                            other => return Err(format!("wrap_lig: {:?} among the characters of a ligature", other)),
                        }
                    }
                    let lft = self.lft_hit;
                    self.lft_hit = false;
                    let mut rt = false;
                    if use_rt && lig_stack.is_empty() {
                        rt = true;
                        self.rt_hit = false;
                    }
                    t.push(Node::Lig { c: cur_l as u8, orig, lft, rt });
                    self.ligature_present = false;
                }
            }};
        }
        macro_rules! pop_lig_stack {
            () => {{
                let top = lig_stack.pop().expect("pop_lig_stack on an empty stack");
                if let Some(c) = top.lig_ptr {
                    t.push(Node::Char(c));
                    j += 1;
                }
                match lig_stack.last() {
                    None => set_cur_r!(),
                    Some(it) => cur_r = it.character,
                }
            }};
        }
        set_cur_r!();
        'continue_: loop {
            #[allow(clippy::never_loop)]
            'done: loop {
                // §909 If there's a ligature or kern at the cursor position, update the data structures
                let left: Option<u8> = if cur_l == NON_CHAR {
                    if self.font.raw.left_boundary_entry().is_none() {
                        break 'done;
                    }
                    None
                } else {
                    Some(cur_l as u8)
                };
                let test_char = if cur_rh < NON_CHAR { cur_rh } else { cur_r };
                let found = if test_char < NON_CHAR { self.font.raw.lookup(left, test_char as u8) } else { None };
                let Some((_, step)) = found else {
                    if cur_rh == NON_CHAR {
                        break 'done;
                    }
                    cur_rh = NON_CHAR;
                    continue 'continue_;
                };
                if cur_rh < NON_CHAR {
                    self.hyphen_passed = j;
                    hchar = NON_CHAR;
                    cur_rh = NON_CHAR;
                    continue 'continue_;
                }
                if hchar < NON_CHAR && self.hyf[j] {
                    self.hyphen_passed = j;
                    hchar = NON_CHAR;
                }
                match step {
                    Step::Kern(k) => {
                        w = (self.font.scale)(k.0);
                        break 'done;
                    }
                    Step::Lig { insert, form } => {
                        // §911 Carry out a ligature replacement
                        self.steps += 1;
                        if self.steps > STEP_CAP {
                            return Err("ligature loop".into());
                        }
                        if cur_l == NON_CHAR {
                            self.lft_hit = true;
                        }
                        if j == n && lig_stack.is_empty() {
                            self.rt_hit = true;
                        }
                        let op = 4 * form.advance + 2 * (form.keep_left as u8) + form.keep_right as u8;
                        let z = insert as u16;
                        match op {
                            1 | 5 => {
                                cur_l = z;
                                self.ligature_present = true;
                            }
                            2 | 6 => {
                                cur_r = z;
                                if let Some(top) = lig_stack.last_mut() {
                                    top.character = cur_r;
                                } else {
                                    let mut it = LigItem { character: cur_r, lig_ptr: None };
                                    if j == n {
                                        bchar = NON_CHAR;
                                    } else {
                                        let c = self.hu[j + 1];
                                        if c >= NON_CHAR {
                                            return Err("hu[j+1] is not a character".into());
                                        }
                                        it.lig_ptr = Some(c as u8);
                                    }
                                    lig_stack.push(it);
                                }
                            }
                            3 => {
                                cur_r = z;
                                lig_stack.push(LigItem { character: cur_r, lig_ptr: None });
                            }
                            7 | 11 => {
                                wrap_lig!(false);
                                cur_q = t.len();
                                cur_l = z;
                                self.ligature_present = true;
                            }
                            _ => {
                                cur_l = z;
                                self.ligature_present = true;
                                if !lig_stack.is_empty() {
                                    pop_lig_stack!();
                                } else if j == n {
                                    break 'done;
                                } else {
                                    if cur_r >= NON_CHAR {
                                        return Err("cur_r is not a character".into());
                                    }
                                    t.push(Node::Char(cur_r as u8));
                                    j += 1;
                                    set_cur_r!();
                                }
                            }
                        }
                        if op > 4 && op != 7 {
                            break 'done;
                        }
                        continue 'continue_;
                    }
                }
            }
            // done: §910 Append a ligature and/or kern to the translation
            let use_rt = self.rt_hit;
            wrap_lig!(use_rt);
            if w != 0 {
                t.push(Node::Kern(w));
                w = 0;
            }
            if let Some(top) = lig_stack.last() {
                cur_q = t.len();
                cur_l = top.character;
                self.ligature_present = true;
                pop_lig_stack!();
                continue 'continue_;
            }
            break;
        }
        let _ = (cur_r, w);
        Ok((j, t))
    }
}

/// TeX §903 and §913-918 for one word that has at least one odd `hyf` position.
pub fn hyphenate(font: &Font, word: &Word, dev: Deviations) -> Result<Rebuilt, String> {
    let hn = word.letters.len();
    if hn == 0 || hn > 63 {
        return Err("word length outside 1..63".into());
    }
    let mut hu: Vec<u16> = vec![0; hn + 2];
    for (i, c) in word.letters.iter().enumerate() {
        hu[i + 1] = *c as u16;
    }
    let mut hyf = vec![false; hn + 2];
    for &p in &word.hyf {
        if p == 0 || p >= hn {
            return Err("hyphen position outside the word".into());
        }
        hyf[p] = true;
    }
    let mut st = State { font, hu, hyf, init_list: vec![], init_lig: false, init_lft: false, ligature_present: false, lft_hit: false, rt_hit: false, hyphen_passed: 0, steps: 0 };
    let font_bchar: u16 = font.raw.right_boundary_char().map(|c| c as u16).unwrap_or(NON_CHAR);
    // §903
    let bchar = if dev.non_char_is_font_bchar && word.hyf_bchar == NON_CHAR { font_bchar } else { word.hyf_bchar };
    let ha = match (&word.ha, dev.ha_char_ignored) {
        (Ha::Char(_) | Ha::Lig { .. }, true) => Ha::NonChar,
        (h, _) => h.clone(),
    };
    let mut j: usize;
    let replaces_ha: bool;
    let mut found2 = false;
    match ha {
        Ha::Char(c) => {
            st.init_list = vec![c];
            st.init_lig = false;
            st.hu[0] = c as u16;
            replaces_ha = true;
            j = 0;
        }
        Ha::Lig { c, orig, lft } => {
            st.init_lig = true;
            st.init_lft = lft;
            st.hu[0] = c as u16;
            if orig.is_empty() && lft {
                st.hu[0] = NON_CHAR;
                st.init_lig = false;
            }
            st.init_list = orig;
            replaces_ha = true;
            j = 0;
        }
        Ha::OtherFont => {
            found2 = true;
            replaces_ha = false;
            j = 0;
        }
        Ha::NonChar => {
            replaces_ha = false;
            if word.first_is_lft_lig {
                found2 = true;
                j = 0;
            } else {
                j = 1;
                st.init_list = vec![];
            }
        }
    }
    if found2 {
        st.hu[0] = NON_CHAR;
        st.init_lig = false;
        st.init_list = vec![];
    }
    // §913 Reconstitute nodes for the hyphenated word, inserting discretionary hyphens
    let mut out: Vec<Node> = vec![];
    let mut forgot_disc = false;
    let hyf_char = word.hyf_char as u16;
    loop {
        let mut l = j;
        let (jj, mut hold) = st.reconstitute(j, hn, bchar, hyf_char)?;
        j = jj + 1;
        if st.hyphen_passed == 0 {
            out.append(&mut hold);
            if st.hyf[j - 1] {
                l = j;
                st.hyphen_passed = j - 1;
            }
        }
        if st.hyphen_passed > 0 {
            // §914 Create and append a discretionary node as an alternative to the unhyphenated word,
            // and continue to develop both branches until they become equivalent
            loop {
                let mut major: Vec<Node> = std::mem::take(&mut hold);
                let mut i = st.hyphen_passed;
                st.hyf[i] = false;
                // §915 Put the characters hu[l..i] and a hyphen into pre_break(r)
                let mut pre: Vec<Node> = vec![];
                let mut saved_c = 0u16;
                if word.hyf_char_exists {
                    i += 1;
                    saved_c = st.hu[i];
                    st.hu[i] = hyf_char;
                }
                while l <= i {
                    let (ll, mut h) = st.reconstitute(l, i, font_bchar, NON_CHAR)?;
                    l = ll + 1;
                    pre.append(&mut h);
                }
                if word.hyf_char_exists {
                    st.hu[i] = saved_c;
                    l = i;
                    i -= 1;
                }
                let _ = i;
                // §916 Put the characters hu[i+1..] into post_break(r), appending to this list and to
                // major_tail until synchronization has been achieved
                let mut post: Vec<Node> = vec![];
                let mut c_loc = 0usize;
                let mut c = 0u16;
                if st.font.raw.left_boundary_entry().is_some() {
                    l -= 1;
                    c = st.hu[l];
                    c_loc = l;
                    st.hu[l] = NON_CHAR;
                }
                while l < j {
                    loop {
                        let (ll, mut h) = st.reconstitute(l, hn, bchar, NON_CHAR)?;
                        l = ll + 1;
                        if c_loc > 0 {
                            st.hu[c_loc] = c;
                            c_loc = 0;
                        }
                        post.append(&mut h);
                        if l >= j {
                            break;
                        }
                    }
                    while l > j {
                        // §917 Append characters of hu[j..] to major_tail, advancing j
                        let (jj, mut h) = st.reconstitute(j, hn, bchar, NON_CHAR)?;
                        j = jj + 1;
                        major.append(&mut h);
                    }
                }
                if c_loc > 0 {
                    // (the loop did not run: TeX leaves hu[c_loc] = 256 until the next use; it is
                    // restored here because nothing reads it in between except through c_loc)
                    st.hu[c_loc] = c;
                }
                // §918 Move pointer s to the end of the current list, and set replace_count(r)
                let r_count = major.len();
                if r_count > 127 {
                    forgot_disc = true;
                } else {
                    out.push(Node::Disc { pre, post, replace: r_count });
                }
                out.append(&mut major);
                st.hyphen_passed = j - 1;
                if !st.hyf[j - 1] {
                    break;
                }
            }
        }
        if j > hn {
            break;
        }
    }
    Ok(Rebuilt { replaces_ha, nodes: out, forgot_disc })
}
