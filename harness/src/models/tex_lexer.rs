//! Reference line scanner — TeX: The Program §343–§356 (`get_next` reading from a file), plus the
//! line handling of §31 (`input_ln`) and §360/§362 (moving to the next line). Model for C03; the
//! public API is meant to be reusable by C19 (`\input`, `\read`).
//!
//! Written from the literate program, NOT from `texlang::token::lexer`:
//!
//! * **Lines** (§31, §362): the source is split at `\n` only; a last piece without a newline is a
//!   line; the empty piece after a final newline is not; the empty source has no lines. A line
//!   loses its trailing U+0020 characters (`input_ln`: `last` := position after the last non-blank)
//!   and then gets the current end-line character if there is one (§362 `if end_line_char_inactive
//!   then decr(limit) else buffer[limit]:=end_line_char`). `\r` is an ordinary character.
//! * **State** N (new_line) at the start of every line, M (mid_line), S (skip_blanks) (§303, §344).
//! * **Per character** by category (§344–§353): 0 control sequence (§354–§356); 5 finish the line and
//!   N→`\par`, M→space, S→nothing (§347, §350, §351); 10 M→space token (always U+0020) and state S,
//!   N/S→nothing (§345, §349); 14 finish line; 9 nothing; 15 invalid (§346: error, then `goto restart`
//!   with the state unchanged); 7 `^^` check (§352) else superscript token; everything else a
//!   character token and state M (§347 for active characters).
//! * **`^^` notation** (§352 outside names, §355 inside/at the start of names): if the character
//!   after the category-7 character is the *same* character and a third character `c` exists on
//!   the line (the appended end-line character counts) with `c < 128`: if `c` and the character
//!   after it are both lower-case hex digits (`0-9a-f`, §352 `is_hex`) the four characters stand
//!   for that byte, otherwise the three stand for `c+64` (`c<64`) or `c-64`. The result is scanned
//!   again as a fresh character (so it may be an escape, a space, another superscript …). Inside a
//!   control-sequence scan the buffer is rewritten in place and the scan restarts (§355).
//! * **Control sequences** (§354, §356): nothing left on the line → empty name; first character a
//!   letter → maximal run of letters, state S; first character a space → state S; otherwise one
//!   character, state M.
//!
//! Every buffer character remembers the columns (0-based character index in the *untrimmed* source
//! line) it came from: `lo == hi` for a plain source character, `[first, last]` of the consumed
//! source characters for a `^^` result, `[trimmed length, line length]` for the appended end-line
//! character (no source character exists for it).
//!
//! The column a trace may report is one of at most a handful of candidates (`Span::cols`): the
//! column of the first or of the last source character the token's first character was made from
//! (they coincide for an ordinary character); the appended end-line character counts as standing
//! at the trimmed length or at the line length (the first removed blank or the line terminator).
//!
//! `Reading` selects between readings of points that neither TeX nor the property text decide
//! (is the CR of a CR LF pair part of the line terminator; is the `EndOfLine` marker of the
//! `\read` mode delivered before or after the next line has been read).
//!
//! Named deviations reproduce known divergences of the implementation exactly (see c03.rs).

pub const ESCAPE: u8 = 0;
pub const BEGIN_GROUP: u8 = 1;
pub const END_GROUP: u8 = 2;
pub const MATH_SHIFT: u8 = 3;
pub const ALIGNMENT_TAB: u8 = 4;
pub const END_OF_LINE: u8 = 5;
pub const PARAMETER: u8 = 6;
pub const SUPERSCRIPT: u8 = 7;
pub const SUBSCRIPT: u8 = 8;
pub const IGNORED: u8 = 9;
pub const SPACE: u8 = 10;
pub const LETTER: u8 = 11;
pub const OTHER: u8 = 12;
pub const ACTIVE: u8 = 13;
pub const COMMENT: u8 = 14;
pub const INVALID: u8 = 15;

/// What the scanner consults, at the moment it needs it (TeX's lexing rules are dynamic).
pub trait Config {
    /// Category code 0..=15 of `c`.
    fn cat(&self, c: char) -> u8;
    /// Current `\endlinechar`, `None` when it is outside the character range.
    fn end_line_char(&self) -> Option<char>;
}

/// Named deviations from TeX, each reproducing one known divergence of the implementation.
#[derive(Clone, Copy, Debug, Default, PartialEq, Eq)]
pub struct Deviations {
    /// `^^xy` with two lower-case hex digits is NOT one byte: `^^x` is reduced by ±64 and `y` follows.
    pub no_hex_caret: bool,
    /// `^^c` with `c >= 128`: both superscript characters silently vanish and `c` is scanned
    /// normally (state unchanged; inside a control-sequence name `c` may extend the name).
    /// TeX delivers superscript, superscript, `c`.
    pub nonascii_caret_swallowed: bool,
}

/// Readings of points the property leaves open. The default is what the implementation did when
/// the check was written; every alternative is a behaviour TeX's text equally allows.
#[derive(Clone, Copy, Debug, Default, PartialEq, Eq)]
pub struct Reading {
    /// A CR immediately before the LF that ends a line belongs to the line terminator (what the
    /// module documentation of lexer.rs says, and what web2c's `input_line` does) instead of being
    /// the last character of the line. §31 leaves the representation of line ends to the system.
    pub crlf_is_line_end: bool,
    /// With `report_end_of_line`: the `EndOfLine` marker is delivered *before* the next line is
    /// read (the line is read, with the end-line character current then, by the following call) —
    /// the order of TeX's `\read` (§483–§486), where every `\read` inputs its own line. The
    /// default is the order of the public API: read the next line, then report.
    pub eol_before_load: bool,
}

#[derive(Clone, Debug, PartialEq, Eq)]
pub struct SourceLine {
    /// Full text of the line, trailing blanks included, newline excluded.
    pub text: String,
    /// Number of characters of `text`.
    pub chars: usize,
    /// Number of characters left after removing trailing U+0020.
    pub trimmed_chars: usize,
    /// Character offset of the first character of the line in the whole source.
    pub start_char: usize,
    /// Whether the line was terminated by `\n` in the source.
    pub has_newline: bool,
    /// `Reading::crlf_is_line_end` only: `text` ends with a CR that is part of the line terminator
    /// (`chars` and `trimmed_chars` do not count it).
    pub cr_stripped: bool,
    /// Some earlier line of the source contains a non-ASCII character.
    pub after_nonascii_line: bool,
}

/// §31/§362 line splitting.
pub fn split_lines(source: &str) -> Vec<SourceLine> {
    split_lines_reading(source, Reading::default())
}

pub fn split_lines_reading(source: &str, reading: Reading) -> Vec<SourceLine> {
    let mut out = vec![];
    let mut start_char = 0usize;
    let mut rest = source;
    let mut seen_nonascii = false;
    while !rest.is_empty() {
        let (text, has_newline, next) = match rest.find('\n') {
            Some(i) => (&rest[..i], true, &rest[i + 1..]),
            None => (rest, false, ""),
        };
        let cr_stripped = reading.crlf_is_line_end && has_newline && text.ends_with('\r');
        let body = if cr_stripped { &text[..text.len() - 1] } else { text };
        let chars = body.chars().count();
        let trimmed = body.trim_end_matches(' ');
        out.push(SourceLine {
            text: text.to_string(),
            chars,
            trimmed_chars: trimmed.chars().count(),
            start_char,
            has_newline,
            cr_stripped,
            after_nonascii_line: seen_nonascii,
        });
        seen_nonascii |= !text.is_ascii();
        start_char += text.chars().count() + 1;
        rest = next;
    }
    out
}

/// Where a delivered token started.
#[derive(Clone, Copy, Debug, PartialEq, Eq)]
pub struct Span {
    /// 1-based line number.
    pub line: usize,
    /// Columns (0-based character indices in the untrimmed line) of the first and last source
    /// character the token's first character was made from.
    pub lo: usize,
    pub hi: usize,
    /// The character is the result of a `^^` reduction.
    pub reduced: bool,
    /// The appended end-line character is (part of) the origin.
    pub end_line: bool,
    /// The columns a trace may report (duplicates allowed): first or last source character.
    pub cols: [usize; 6],
}

impl Span {
    pub fn allows(&self, col: usize) -> bool {
        self.cols.contains(&col)
    }
    pub fn cols_sorted(&self) -> Vec<usize> {
        let mut v = self.cols.to_vec();
        v.sort_unstable();
        v.dedup();
        v
    }
}

#[derive(Clone, Debug, PartialEq, Eq)]
pub enum Item {
    /// A character token; `cat` is one of 1,2,3,4,6,7,8,10,11,12,13.
    Char { ch: char, cat: u8, span: Span },
    /// A control sequence token; the span is that of the escape character.
    Cs { name: String, span: Span },
    /// A character of category 15 (TeX: error "Text line contains an invalid character", skipped).
    Invalid { ch: char, span: Span },
    /// Only with `report_end_of_line`: the scanner moved from line k to line k+1 (k >= 1).
    EndOfLine,
    EndOfInput,
}

#[derive(Clone, Copy, Debug, PartialEq, Eq)]
pub enum State {
    NewLine,
    MidLine,
    SkipBlanks,
}

#[derive(Clone, Copy, Debug)]
struct BufChar {
    ch: char,
    lo: usize,
    hi: usize,
    reduced: bool,
    end_line: bool,
    /// Candidate columns of the first / of the last source character this character stands for.
    start: [usize; 3],
    end: [usize; 3],
}

/// What happened during a scan (for class histograms).
#[derive(Clone, Copy, Debug, Default)]
pub struct Stats {
    pub reductions: u32,
    pub hex_reductions: u32,
    pub reductions_in_name: u32,
    pub reductions_first_of_name: u32,
    pub reductions_using_end_line_char: u32,
    pub nested_reductions: u32,
    pub nonascii_third: u32,
    pub unreduced_double_at_line_end: u32,
    pub reduced_to_escape: u32,
    pub par_tokens: u32,
    pub space_from_eol: u32,
    pub eol_dropped_in_skip_blanks: u32,
    pub comments: u32,
    pub ignored: u32,
    pub invalid: u32,
    pub empty_cs: u32,
    pub multi_letter_cs: u32,
    pub cs_takes_end_line_char: u32,
    pub lines_loaded: u32,
    /// `^^xy` whose result is >= 0x80 (a two-byte character in UTF-8), outside / inside a name.
    pub hex_result_ge_128: u32,
    pub hex_result_ge_128_in_name: u32,
    /// The appended end-line character served as the second hex digit of `^^xy`.
    pub hex_second_digit_is_end_line_char: u32,
    /// Reduction after the first character of a name (the look-ahead path) whose superscript
    /// character is not ASCII (2, 3 or 4 bytes in UTF-8).
    pub in_name_reduction_multibyte_sup: u32,
    /// Reduction anywhere whose superscript character is not ASCII.
    pub reduction_multibyte_sup: u32,
    /// Longest chain of reductions that produced one character.
    pub max_reduction_chain: u32,
    /// A comment / a category-5 character discarded a rest of line containing non-ASCII
    /// characters; the same with another line following.
    pub discarded_tail_nonascii: u32,
    pub discarded_tail_nonascii_then_more_lines: u32,
    /// A rest of line of >= 1 characters (not counting the end-line character) was discarded.
    pub discarded_tail_nonempty: u32,
    /// Items delivered from a line that follows a line with non-ASCII characters.
    pub items_after_nonascii_line: u32,
    /// Items delivered from a line that follows a line with trailing blanks.
    pub items_after_trimmed_line: u32,
    /// `EndOfLine` markers delivered.
    pub eol_markers: u32,
    /// Longest control sequence name (characters).
    pub longest_name: u32,
}

pub struct Scanner {
    pub lines: Vec<SourceLine>,
    next_line: usize,
    /// 1-based number of the line in `buf` (0 before the first line).
    cur_line: usize,
    buf: Vec<BufChar>,
    loc: usize,
    pub state: State,
    dev: Deviations,
    reading: Reading,
    /// `Reading::eol_before_load`: the marker for the exhausted line has been delivered.
    eol_reported: bool,
    /// Length of the reduction chain that produced `buf[i]` (parallel to `buf`, in-name path).
    chain: Vec<u32>,
    pub stats: Stats,
}

fn is_hex(c: char) -> bool {
    matches!(c, '0'..='9' | 'a'..='f')
}

fn hex_val(c: char) -> u32 {
    if c <= '9' {
        c as u32 - '0' as u32
    } else {
        c as u32 - 'a' as u32 + 10
    }
}

fn shift64(c: char) -> char {
    let u = c as u32;
    debug_assert!(u < 128);
    char::from_u32(if u < 64 { u + 64 } else { u - 64 }).unwrap()
}

fn merge(ch: char, parts: &[BufChar]) -> BufChar {
    BufChar {
        ch,
        lo: parts.iter().map(|p| p.lo).min().unwrap(),
        hi: parts.iter().map(|p| p.hi).max().unwrap(),
        reduced: true,
        end_line: parts.iter().any(|p| p.end_line),
        start: parts[0].start,
        end: parts[parts.len() - 1].end,
    }
}

impl Scanner {
    pub fn new(source: &str, dev: Deviations) -> Scanner {
        Scanner::with_reading(source, dev, Reading::default())
    }

    pub fn with_reading(source: &str, dev: Deviations, reading: Reading) -> Scanner {
        Scanner {
            lines: split_lines_reading(source, reading),
            next_line: 0,
            cur_line: 0,
            buf: vec![],
            loc: 0,
            state: State::NewLine,
            dev,
            reading,
            eol_reported: false,
            chain: vec![],
            stats: Stats::default(),
        }
    }

    /// Number of the line currently in the buffer (1-based; 0 before the first line is read).
    pub fn current_line(&self) -> usize {
        self.cur_line
    }

    /// True when the current line is used up (the next call will read a new line).
    pub fn line_exhausted(&self) -> bool {
        self.loc >= self.buf.len()
    }

    /// §362: read the next line into the buffer, using the end-line character that is current *now*.
    fn load_next_line<C: Config>(&mut self, cfg: &C) -> bool {
        self.buf.clear();
        self.loc = 0;
        if self.next_line >= self.lines.len() {
            return false;
        }
        let l = &self.lines[self.next_line];
        self.next_line += 1;
        self.cur_line = self.next_line;
        for (i, ch) in l.text.chars().take(l.trimmed_chars).enumerate() {
            self.buf.push(BufChar { ch, lo: i, hi: i, reduced: false, end_line: false, start: [i; 3], end: [i; 3] });
        }
        if let Some(e) = cfg.end_line_char() {
            // No source character exists for it: it stands where the first removed blank / the
            // line terminator stands (trimmed length), or at the line terminator (line length; one
            // further when a CR counts as part of the terminator).
            let c = [l.trimmed_chars, l.chars, if l.cr_stripped { l.chars + 1 } else { l.chars }];
            self.buf.push(BufChar { ch: e, lo: l.trimmed_chars, hi: c[2], reduced: false, end_line: true, start: c, end: c });
        }
        self.chain.clear();
        self.chain.resize(self.buf.len(), 0);
        self.stats.lines_loaded += 1;
        true
    }

    fn span(&self, b: &BufChar) -> Span {
        Span {
            line: self.cur_line,
            lo: b.lo,
            hi: b.hi,
            reduced: b.reduced,
            end_line: b.end_line,
            cols: [b.start[0], b.start[1], b.start[2], b.end[0], b.end[1], b.end[2]],
        }
    }

    fn count_item(&mut self) {
        if let Some(l) = self.lines.get(self.cur_line.wrapping_sub(1)) {
            if l.after_nonascii_line {
                self.stats.items_after_nonascii_line += 1;
            }
        }
        if self.cur_line >= 2 {
            let p = &self.lines[self.cur_line - 2];
            if p.trimmed_chars < p.chars {
                self.stats.items_after_trimmed_line += 1;
            }
        }
    }

    /// The rest of the current line is dropped (comment, category-5 character).
    fn discard_rest(&mut self) {
        let tail = &self.buf[self.loc.min(self.buf.len())..];
        let real: Vec<&BufChar> = tail.iter().filter(|b| !(b.end_line && !b.reduced)).collect();
        if !real.is_empty() {
            self.stats.discarded_tail_nonempty += 1;
        }
        if real.iter().any(|b| !b.ch.is_ascii()) {
            self.stats.discarded_tail_nonascii += 1;
            if self.next_line < self.lines.len() {
                self.stats.discarded_tail_nonascii_then_more_lines += 1;
            }
        }
        self.loc = self.buf.len();
    }

    /// `get_next` restricted to file input. With `report_end_of_line` the move from one line to
    /// the next is reported as its own item (after the new line has been read), the way `\read`
    /// needs it.
    pub fn next<C: Config>(&mut self, cfg: &C, report_end_of_line: bool) -> Item {
        'switch: loop {
            // §343/§360: loc>limit — move to the next line.
            if self.loc >= self.buf.len() {
                self.state = State::NewLine;
                let first = self.cur_line == 0;
                if self.reading.eol_before_load && report_end_of_line && !first && !self.eol_reported && self.next_line < self.lines.len() {
                    // Alternative order: marker now, the line is read by the next call.
                    self.eol_reported = true;
                    self.stats.eol_markers += 1;
                    return Item::EndOfLine;
                }
                let reported = std::mem::replace(&mut self.eol_reported, false);
                if !self.load_next_line(cfg) {
                    return Item::EndOfInput;
                }
                if report_end_of_line && !first && !reported {
                    self.stats.eol_markers += 1;
                    return Item::EndOfLine;
                }
                continue 'switch;
            }
            let mut cur = self.buf[self.loc];
            self.loc += 1;
            let mut depth = 0u32;
            // reswitch:
            loop {
                let cat = cfg.cat(cur.ch);
                match cat {
                    ESCAPE => {
                        if cur.reduced {
                            self.stats.reduced_to_escape += 1;
                        }
                        let span = self.span(&cur);
                        self.count_item();
                        let name = self.scan_control_sequence(cfg);
                        self.stats.longest_name = self.stats.longest_name.max(name.chars().count() as u32);
                        return Item::Cs { name, span };
                    }
                    END_OF_LINE => {
                        // §348: finish line
                        self.discard_rest();
                        match self.state {
                            State::NewLine => {
                                self.stats.par_tokens += 1;
                                self.count_item();
                                return Item::Cs { name: "par".to_string(), span: self.span(&cur) };
                            }
                            State::MidLine => {
                                self.stats.space_from_eol += 1;
                                self.count_item();
                                return Item::Char { ch: ' ', cat: SPACE, span: self.span(&cur) };
                            }
                            State::SkipBlanks => {
                                self.stats.eol_dropped_in_skip_blanks += 1;
                                continue 'switch;
                            }
                        }
                    }
                    SPACE => match self.state {
                        State::MidLine => {
                            self.state = State::SkipBlanks;
                            self.count_item();
                            return Item::Char { ch: ' ', cat: SPACE, span: self.span(&cur) };
                        }
                        _ => continue 'switch,
                    },
                    COMMENT => {
                        self.stats.comments += 1;
                        self.discard_rest();
                        continue 'switch;
                    }
                    IGNORED => {
                        self.stats.ignored += 1;
                        continue 'switch;
                    }
                    INVALID => {
                        self.stats.invalid += 1;
                        self.count_item();
                        return Item::Invalid { ch: cur.ch, span: self.span(&cur) };
                    }
                    SUPERSCRIPT => {
                        // §352
                        let loc = self.loc;
                        if loc < self.buf.len() && self.buf[loc].ch == cur.ch {
                            if loc + 1 < self.buf.len() {
                                let c = self.buf[loc + 1];
                                if (c.ch as u32) < 128 {
                                    self.stats.reductions += 1;
                                    if depth > 0 {
                                        self.stats.nested_reductions += 1;
                                    }
                                    depth += 1;
                                    self.stats.max_reduction_chain = self.stats.max_reduction_chain.max(depth);
                                    if !cur.ch.is_ascii() {
                                        self.stats.reduction_multibyte_sup += 1;
                                    }
                                    let hex = !self.dev.no_hex_caret
                                        && is_hex(c.ch)
                                        && loc + 2 < self.buf.len()
                                        && is_hex(self.buf[loc + 2].ch);
                                    let new = if hex {
                                        self.stats.hex_reductions += 1;
                                        let cc = self.buf[loc + 2];
                                        let v = 16 * hex_val(c.ch) + hex_val(cc.ch);
                                        if v >= 128 {
                                            self.stats.hex_result_ge_128 += 1;
                                        }
                                        if cc.end_line && !cc.reduced {
                                            self.stats.hex_second_digit_is_end_line_char += 1;
                                        }
                                        self.loc = loc + 3;
                                        merge(char::from_u32(v).unwrap(), &[cur, self.buf[loc], c, cc])
                                    } else {
                                        self.loc = loc + 2;
                                        merge(shift64(c.ch), &[cur, self.buf[loc], c])
                                    };
                                    if new.end_line {
                                        self.stats.reductions_using_end_line_char += 1;
                                    }
                                    cur = new;
                                    continue; // goto reswitch
                                } else {
                                    self.stats.nonascii_third += 1;
                                    if self.dev.nonascii_caret_swallowed {
                                        self.loc = loc + 1;
                                        continue 'switch;
                                    }
                                }
                            } else {
                                self.stats.unreduced_double_at_line_end += 1;
                            }
                        }
                        self.state = State::MidLine;
                        self.count_item();
                        return Item::Char { ch: cur.ch, cat, span: self.span(&cur) };
                    }
                    _ => {
                        self.state = State::MidLine;
                        self.count_item();
                        return Item::Char { ch: cur.ch, cat, span: self.span(&cur) };
                    }
                }
            }
        }
    }

    /// §355. `k` points just after `cur` in the buffer. Returns true when the buffer was rewritten
    /// (the caller restarts the scan at `start_cs`).
    fn reduce_in_name(&mut self, k: usize, cur: char, cat: u8, first: bool) -> bool {
        if cat != SUPERSCRIPT || k >= self.buf.len() || self.buf[k].ch != cur || k + 1 >= self.buf.len() {
            if cat == SUPERSCRIPT && k < self.buf.len() && self.buf[k].ch == cur {
                self.stats.unreduced_double_at_line_end += 1;
            }
            return false;
        }
        let c = self.buf[k + 1];
        if (c.ch as u32) >= 128 {
            self.stats.nonascii_third += 1;
            if self.dev.nonascii_caret_swallowed {
                self.buf.drain(k - 1..k + 1);
                self.chain.drain(k - 1..k + 1);
                return true;
            }
            return false;
        }
        let mut d = 2;
        if !self.dev.no_hex_caret && is_hex(c.ch) && k + 2 < self.buf.len() && is_hex(self.buf[k + 2].ch) {
            d = 3;
        }
        let new = if d == 3 {
            self.stats.hex_reductions += 1;
            let cc = self.buf[k + 2];
            let v = 16 * hex_val(c.ch) + hex_val(cc.ch);
            if v >= 128 {
                self.stats.hex_result_ge_128_in_name += 1;
            }
            if cc.end_line && !cc.reduced {
                self.stats.hex_second_digit_is_end_line_char += 1;
            }
            merge(char::from_u32(v).unwrap(), &self.buf[k - 1..k + 3])
        } else {
            merge(shift64(c.ch), &self.buf[k - 1..k + 2])
        };
        self.stats.reductions += 1;
        if !cur.is_ascii() {
            self.stats.reduction_multibyte_sup += 1;
            if !first {
                self.stats.in_name_reduction_multibyte_sup += 1;
            }
        }
        let chain = self.chain[k - 1] + 1;
        self.stats.max_reduction_chain = self.stats.max_reduction_chain.max(chain);
        if self.buf[k - 1].reduced {
            self.stats.nested_reductions += 1;
        }
        if first {
            self.stats.reductions_first_of_name += 1;
        } else {
            self.stats.reductions_in_name += 1;
        }
        if new.end_line {
            self.stats.reductions_using_end_line_char += 1;
        }
        self.buf[k - 1] = new;
        self.buf.drain(k..k + d);
        self.chain[k - 1] = chain;
        self.chain.drain(k..k + d);
        true
    }

    /// §354–§356. `self.loc` points at the first character after the escape character.
    fn scan_control_sequence<C: Config>(&mut self, cfg: &C) -> String {
        // start_cs:
        loop {
            if self.loc >= self.buf.len() {
                // cur_cs:=null_cs {state is irrelevant in this case}
                self.stats.empty_cs += 1;
                return String::new();
            }
            let loc = self.loc;
            let mut k = loc;
            let mut cur = self.buf[k].ch;
            let mut cat = cfg.cat(cur);
            k += 1;
            self.state = if cat == LETTER || cat == SPACE { State::SkipBlanks } else { State::MidLine };
            if cat == LETTER && k < self.buf.len() {
                // §356
                loop {
                    cur = self.buf[k].ch;
                    cat = cfg.cat(cur);
                    k += 1;
                    if cat != LETTER || k >= self.buf.len() {
                        break;
                    }
                }
                if self.reduce_in_name(k, cur, cat, false) {
                    continue;
                }
                if cat != LETTER {
                    k -= 1;
                }
                if k > loc + 1 {
                    self.stats.multi_letter_cs += 1;
                    if self.buf[k - 1].end_line {
                        self.stats.cs_takes_end_line_char += 1;
                    }
                    let name: String = self.buf[loc..k].iter().map(|b| b.ch).collect();
                    self.loc = k;
                    return name;
                }
            } else if self.reduce_in_name(k, cur, cat, true) {
                continue;
            }
            if self.buf[loc].end_line {
                self.stats.cs_takes_end_line_char += 1;
            }
            let name = self.buf[loc].ch.to_string();
            self.loc = loc + 1;
            return name;
        }
    }
}

/// Scan a whole source under a fixed configuration. `EndOfInput` is not included.
pub fn scan_all<C: Config>(source: &str, cfg: &C, dev: Deviations, report_end_of_line: bool) -> (Vec<Item>, Scanner) {
    let mut s = Scanner::new(source, dev);
    let mut out = vec![];
    loop {
        match s.next(cfg, report_end_of_line) {
            Item::EndOfInput => break,
            it => out.push(it),
        }
    }
    (out, s)
}

// ------------------------------------------------------------------------------------------------
// Calibration data: the table tests of crates/texlang/src/token/lexer.rs (their expected tokens are
// TeX-verified). Each entry: input, end-line character, category overrides on top of the
// repository's plain-TeX table, expected items. The number in each expected item is the absolute
// character offset (in the source) that the repository's lexer attaches to the token.

#[derive(Clone, Debug, PartialEq, Eq)]
pub enum Gold {
    Character(char, u8, u32),
    ControlSequence(&'static str, u32),
    NewLine,
}

#[derive(Clone, Debug)]
pub struct Golden {
    pub name: &'static str,
    pub input: String,
    pub end_line_char: Option<char>,
    pub overrides: Vec<(char, u8)>,
    pub expected: Vec<Gold>,
}

macro_rules! lexer_tests {
    (
        $out: ident,
        end_line_char( $end_line_char: expr ),
        cat_code_overrides $cat_code_overrides: tt,
        $( ( $name: ident, $input: expr, $ ( $expected_token : expr, ) * ), )+
    ) => {
        $(
        $out.push(Golden {
            name: stringify!($name),
            input: String::from($input),
            end_line_char: $end_line_char,
            overrides: vec! $cat_code_overrides,
            expected: vec!( $( $expected_token ),* ),
        });
        )+
    };
}

#[allow(non_upper_case_globals)]
pub fn goldens() -> Vec<Golden> {
    use Gold::*;
    const BeginGroup: u8 = BEGIN_GROUP;
    const EndGroup: u8 = END_GROUP;
    const MathShift: u8 = MATH_SHIFT;
    const Superscript: u8 = SUPERSCRIPT;
    const Space: u8 = SPACE;
    const Letter: u8 = LETTER;
    const Other: u8 = OTHER;
    const Active: u8 = ACTIVE;
    const Escape: u8 = ESCAPE;
    const EndOfLine: u8 = END_OF_LINE;
    const Ignored: u8 = IGNORED;
    const Invalid: u8 = INVALID;
    let mut out: Vec<Golden> = vec![];
    // GOLDEN-TABLES-BEGIN (copied from lexer.rs `mod tests`)
    lexer_tests![
        out,
        end_line_char(Some('\r')),
        cat_code_overrides(),
        (empty_1, r"",),
        (empty_2, "\n", ControlSequence("par", 0),),
        (
            control_sequence_basic_1,
            r"\a{b}",
            ControlSequence("a", 0),
            Character('{', BeginGroup, 2),
            Character('b', Letter, 3),
            Character('}', EndGroup, 4),
            Character(' ', Space, 5),
        ),
        (
            control_sequence_basic_2,
            r"\A1",
            ControlSequence("A", 0),
            Character('1', Other, 2),
            Character(' ', Space, 3),
        ),
        (
            control_sequence_single_letter_trailing_space_1,
            r"\a b",
            ControlSequence("a", 0),
            Character('b', Letter, 3),
            Character(' ', Space, 4),
        ),
        (
            control_sequence_single_letter_trailing_space_2,
            r"\a  b",
            ControlSequence("a", 0),
            Character('b', Letter, 4),
            Character(' ', Space, 5),
        ),
        (
            control_sequence_single_letter_trailing_newline_1,
            "\\a\n b",
            ControlSequence("a", 0),
            NewLine,
            Character('b', Letter, 4),
            Character(' ', Space, 5),
        ),
        (
            control_sequence_single_letter_trailing_newline_2,
            "\\a\n\nb",
            ControlSequence("a", 0),
            NewLine,
            ControlSequence("par", 3),
            NewLine,
            Character('b', Letter, 4),
            Character(' ', Space, 5),
        ),
        (
            control_sequence_multi_letter_1,
            "\\ABC{D}",
            ControlSequence("ABC", 0),
            Character('{', BeginGroup, 4),
            Character('D', Letter, 5),
            Character('}', EndGroup, 6),
            Character(' ', Space, 7),
        ),
        (
            control_sequence_multi_letter_2,
            "\\ABC",
            ControlSequence("ABC", 0),
        ),
        (
            control_sequence_single_other_1,
            "\\{{",
            ControlSequence("{", 0),
            Character('{', BeginGroup, 2),
            Character(' ', Space, 3),
        ),
        (
            control_sequence_single_other_2,
            "\\+A",
            ControlSequence("+", 0),
            Character('A', Letter, 2),
            Character(' ', Space, 3),
        ),
        (
            control_sequence_single_other_trailing_space,
            "\\+ A",
            ControlSequence("+", 0),
            Character(' ', Space, 2),
            Character('A', Letter, 3),
            Character(' ', Space, 4),
        ),
        (
            control_sequence_single_space_trailing_space,
            "\\  A",
            ControlSequence(" ", 0),
            Character('A', Letter, 3),
            Character(' ', Space, 4),
        ),
        (
            comment_1,
            "A%B\nC",
            Character('A', Letter, 0),
            NewLine,
            Character('C', Letter, 4),
            Character(' ', Space, 5),
        ),
        (
            comment_1_with_space,
            "A%B \nC",
            Character('A', Letter, 0),
            NewLine,
            Character('C', Letter, 5),
            Character(' ', Space, 6),
        ),
        (
            comment_2,
            "A%B\n%C\nD",
            Character('A', Letter, 0),
            NewLine,
            NewLine,
            Character('D', Letter, 7),
            Character(' ', Space, 8),
        ),
        (comment_3, "A%a comment here", Character('A', Letter, 0),),
        (
            comment_4,
            "A%\n B",
            Character('A', Letter, 0),
            NewLine,
            Character('B', Letter, 4),
            Character(' ', Space, 5),
        ),
        (
            comment_5,
            "A%\n\n B",
            Character('A', Letter, 0),
            NewLine,
            ControlSequence("par", 3),
            NewLine,
            Character('B', Letter, 5),
            Character(' ', Space, 6),
        ),
        (
            comment_6,
            "\\A %\nB",
            ControlSequence("A", 0),
            NewLine,
            Character('B', Letter, 5),
            Character(' ', Space, 6),
        ),
        (
            texbook_exercise_8_2_e,
            "A%\n B%",
            Character('A', Letter, 0),
            NewLine,
            Character('B', Letter, 4),
        ),
        (
            texbook_exercise_8_4,
            r" $x^2$~ \Tex ^^C",
            Character('$', MathShift, 1),
            Character('x', Letter, 2),
            Character('^', Superscript, 3),
            Character('2', Other, 4),
            Character('$', MathShift, 5),
            Character('~', Active, 6),
            Character(' ', Space, 7),
            ControlSequence("Tex", 8),
            Character('\u{3}', Other, 15),
            Character(' ', Space, 16),
        ),
        (
            texbook_exercise_8_5,
            "Hi!\n\n\n",
            Character('H', Letter, 0),
            Character('i', Letter, 1),
            Character('!', Other, 2),
            Character(' ', Space, 3),
            NewLine,
            ControlSequence("par", 4),
            NewLine,
            ControlSequence("par", 5),
        ),
        (
            double_space_creates_one_space,
            "A  B",
            Character('A', Letter, 0),
            Character(' ', Space, 1),
            Character('B', Letter, 3),
            Character(' ', Space, 4),
        ),
        (
            single_newline_creates_one_space,
            "A\nB",
            Character('A', Letter, 0),
            Character(' ', Space, 1),
            NewLine,
            Character('B', Letter, 2),
            Character(' ', Space, 3),
        ),
        (
            space_and_newline_creates_space,
            "A \nB",
            Character('A', Letter, 0),
            Character(' ', Space, 1),
            NewLine,
            Character('B', Letter, 3),
            Character(' ', Space, 4),
        ),
        (
            par_1,
            "A\n\nB",
            Character('A', Letter, 0),
            Character(' ', Space, 1),
            NewLine,
            ControlSequence("par", 2),
            NewLine,
            Character('B', Letter, 3),
            Character(' ', Space, 4),
        ),
        (
            par_2,
            "A\n \nB",
            Character('A', Letter, 0),
            Character(' ', Space, 1),
            NewLine,
            ControlSequence("par", 2),
            NewLine,
            Character('B', Letter, 4),
            Character(' ', Space, 5),
        ),
        (
            par_3,
            "A\n\n\nB",
            Character('A', Letter, 0),
            Character(' ', Space, 1),
            NewLine,
            ControlSequence("par", 2),
            NewLine,
            ControlSequence("par", 3),
            NewLine,
            Character('B', Letter, 4),
            Character(' ', Space, 5),
        ),
        (
            caret_notation_1,
            "^^k",
            Character('+', Other, 2),
            Character(' ', Space, 3),
        ),
        (
            caret_notation_2,
            "^^+",
            Character('k', Letter, 2),
            Character(' ', Space, 3),
        ),
        (
            caret_notation_3,
            "^^+m",
            Character('k', Letter, 2),
            Character('m', Letter, 3),
            Character(' ', Space, 4),
        ),
        (caret_notation_4, "^^\n", Character('M', Letter, 2),),
        (caret_notation_5, "^^", Character('M', Letter, 2),),
        (
            caret_notation_6,
            "^^\nA",
            Character('M', Letter, 2),
            NewLine,
            Character('A', Letter, 3),
            Character(' ', Space, 4),
        ),
        (
            caret_notation_recursive_1,
            "^^\u{1E}^+",
            Character('k', Letter, 4),
            Character(' ', Space, 5),
        ),
        (
            caret_notation_recursive_2,
            "\\^^\u{1E}^+",
            ControlSequence("k", 0),
        ),
        (
            caret_notation_recursive_3,
            "\\j^^\u{1E}^+",
            ControlSequence("jk", 0),
        ),
        (
            // This test case triggers a recursive call to `new_control_sequence`.
            caret_notation_recursive_4,
            format!["\\^^{}+", "\u{1E}^".repeat(200)],
            ControlSequence("k", 0),
        ),
        (
            caret_notation_end_of_input_1,
            "^^",
            Character('M', Letter, 2),
        ),
        (
            caret_notation_end_of_input_2,
            "\\^^",
            ControlSequence("M", 0),
        ),
        (
            caret_notation_end_of_input_3,
            "\\a^^",
            ControlSequence("aM", 0),
        ),
        (
            caret_notation_boundary_1,
            "^^\u{00}",
            Character(char::from_u32(0x40).unwrap(), Other, 2),
            Character(' ', Space, 3),
        ),
        (
            caret_notation_boundary_3,
            "^^\u{40}",
            // skipped character
            ControlSequence("par", 3),
        ),
        (
            caret_notation_boundary_4,
            "^^\u{7F}",
            Character(char::from_u32(0x3F).unwrap(), Other, 2),
            Character(' ', Space, 3),
        ),
        (
            caret_notation_cs_1,
            r"\^^m",
            ControlSequence("-", 0),
            Character(' ', Space, 4),
        ),
        (
            caret_notation_cs_2,
            r"\^^ma",
            ControlSequence("-", 0),
            Character('a', Letter, 4),
            Character(' ', Space, 5),
        ),
        (caret_notation_cs_3, r"\^^-", ControlSequence("m", 0),),
        (caret_notation_cs_4, r"\^^-a", ControlSequence("ma", 0),),
        (
            caret_notation_cs_5,
            r"\^^-^^-+",
            ControlSequence("mm", 0),
            Character('+', Other, 7),
            Character(' ', Space, 8),
        ),
        (caret_notation_cs_6, r"\a^^-", ControlSequence("am", 0),),
        (
            caret_notation_cs_7,
            "\\^a",
            ControlSequence("^", 0),
            Character('a', Letter, 2),
            Character(' ', Space, 3),
        ),
        (
            caret_notation_cs_8,
            "\\a^a",
            ControlSequence("a", 0),
            Character('^', Superscript, 2),
            Character('a', Letter, 3),
            Character(' ', Space, 4),
        ),
    ];

    lexer_tests![
        out,
        end_line_char(Some('\r')),
        cat_code_overrides(('Z', Ignored)),
        (
            control_sequence_single_ignored,
            r"\Z",
            ControlSequence("Z", 0),
            Character(' ', Space, 2),
        ),
        (ignored_character_1, "Z", ControlSequence("par", 1),),
        (
            ignored_character_2,
            "AZB",
            Character('A', Letter, 0),
            Character('B', Letter, 2),
            Character(' ', Space, 3),
        ),
        (
            texbook_exercise_8_2_f,
            r"\AZB",
            ControlSequence("A", 0),
            Character('B', Letter, 3),
            Character(' ', Space, 4),
        ),
    ];

    lexer_tests![
        out,
        end_line_char(Some('\r')),
        cat_code_overrides(('W', Invalid)),
        (
            control_sequence_single_invalid,
            r"\W",
            ControlSequence("W", 0),
            Character(' ', Space, 2),
        ),
    ];

    lexer_tests![
        out,
        end_line_char(Some('\r')),
        cat_code_overrides(('X', EndOfLine)),
        (
            non_standard_newline_character,
            "AXB",
            Character('A', Letter, 0),
            Character(' ', Space, 1),
        ),
        (
            non_standard_newline_character_2,
            "AXXB",
            Character('A', Letter, 0),
            Character(' ', Space, 1),
        ),
        (
            non_standard_newline_character_after_cs,
            r"\A XB",
            ControlSequence("A", 0),
        ),
        (single_non_standard_newline, "X", ControlSequence("par", 0),),
    ];

    lexer_tests![
        out,
        end_line_char(Some('\r')),
        cat_code_overrides(('Y', Space)),
        (
            non_standard_whitespace_1,
            "AYB",
            Character('A', Letter, 0),
            Character(' ', Space, 1),
            Character('B', Letter, 2),
            Character(' ', Space, 3),
        ),
    ];

    lexer_tests![
        out,
        end_line_char(Some('\r')),
        cat_code_overrides(
            ('\u{01}', Escape),
            ('\u{02}', Superscript),
            ('\u{03}', Space),
            ('\u{0D}', Letter),
        ),
        (
            texbook_exercise_8_6,
            r"^^B^^BM^^A^^B^^C^^M^^@\M ",
            Character('\u{02}', Superscript, 2),
            Character('\u{02}', Superscript, 5),
            Character('M', Letter, 6),
            ControlSequence("\u{02}", 9),
            Character(' ', Space, 15),
            Character('\u{0D}', Letter, 18),
            ControlSequence("M\u{0D}", 22),
        ),
    ];

    lexer_tests![
        out,
        end_line_char(Some('B')),
        cat_code_overrides(),
        (
            control_sequence_includes_end_line_char_1,
            r"\A",
            ControlSequence("AB", 0),
        ),
        (
            control_sequence_includes_end_line_char_2,
            r"\A  ",
            ControlSequence("AB", 0),
        ),
        (
            control_sequence_includes_end_line_char_3,
            r"\",
            ControlSequence("B", 0),
        ),
        (
            control_sequence_includes_end_line_char_4,
            r"\  ",
            ControlSequence("B", 0),
        ),
        (
            control_sequence_does_not_span_lines,
            "\\A\nC",
            ControlSequence("AB", 0),
            NewLine,
            Character('C', Letter, 3),
            Character('B', Letter, 4),
        ),
        (
            repeated_end_line_char_1,
            "\n\n\n",
            Character('B', Letter, 0),
            NewLine,
            Character('B', Letter, 1),
            NewLine,
            Character('B', Letter, 2),
        ),
        (
            repeated_end_line_char_2,
            "A\nA\nA\n",
            Character('A', Letter, 0),
            Character('B', Letter, 1),
            NewLine,
            Character('A', Letter, 2),
            Character('B', Letter, 3),
            NewLine,
            Character('A', Letter, 4),
            Character('B', Letter, 5),
        ),
        (
            right_side_trimming,
            "A  \nA  \n",
            Character('A', Letter, 0),
            Character('B', Letter, 1),
            NewLine,
            Character('A', Letter, 4),
            Character('B', Letter, 5),
        ),
        (
            left_side_trimming,
            "A\n A\n",
            Character('A', Letter, 0),
            Character('B', Letter, 1),
            NewLine,
            Character('A', Letter, 3),
            Character('B', Letter, 4),
        ),
    ];

    lexer_tests![
        out,
        end_line_char(None),
        cat_code_overrides(),
        (
            multiple_skipped_lines,
            "A\n\n\nB",
            Character('A', Letter, 0),
            NewLine,
            NewLine,
            NewLine,
            Character('B', Letter, 4),
        ),
        (
            empty_cs_name,
            "\\\nB",
            ControlSequence("", 0),
            NewLine,
            Character('B', Letter, 2),
        ),
    ];
    // GOLDEN-TABLES-END
    out
}
