//! Reference arithmetic for font metrics (C17), transcribed from the literate programs
//! the repository cites, independent of the Rust under test:
//!
//! * TFtoPL §40–43 `out_fix` (fix_word → decimal text),
//! * PLtoTF §62–66 `get_fix` (decimal text → fix_word),
//! * TeX §568/§571–572 (`z`, `alpha`, `beta`, `store_scaled`) plus an i128 closed form,
//! * PLtoTF §75–80 (`min_cover`, `shorten`, `set_indices`) plus a brute-force definition
//!   of "smallest tolerance",
//! * TFtoPL §84 / PLtoTF §113 (cycle breaking in NEXTLARGER lists) plus a naive cycle finder.
//!
//! All functions are pure and deterministic.

// ------------------------------------------------------------------------------------
// fix_word <-> text

pub const UNITY: i64 = 0o4_000_000; // 2^20

/// TFtoPL §40–43, operating on the four bytes of the word exactly as `out_fix(k)` does on
/// `tfm[k..k+3]`. Appends the text that follows `R ` (for example `-0.333334`).
/// Returns Err when the digit to print is not a single digit (cannot happen in TFtoPL;
/// reported rather than hidden).
pub fn out_fix(word: i32, out: &mut Vec<u8>) -> Result<(), String> {
    let t = (word as u32).to_be_bytes();
    // §40: a:=(tfm[k]*16)+(tfm[k+1] div 16); f:=((tfm[k+1] mod 16)*@'400+tfm[k+2])*@'400+tfm[k+3]
    let mut a: i64 = (t[0] as i64) * 16 + (t[1] as i64) / 16;
    let mut f: i64 = (((t[1] as i64) % 16) * 0o400 + t[2] as i64) * 0o400 + t[3] as i64;
    // §43 reduce negative to positive
    if a > 0o3777 {
        out.push(b'-');
        a = 0o10000 - a;
        if f > 0 {
            f = UNITY - f;
            a -= 1;
        }
    }
    // §41 integer part
    let mut dig = [0u8; 12];
    let mut j = 0usize;
    loop {
        dig[j] = (a % 10) as u8;
        a /= 10;
        j += 1;
        if a == 0 {
            break;
        }
    }
    while j > 0 {
        j -= 1;
        out.push(b'0' + dig[j]);
    }
    // §42 fraction part
    out.push(b'.');
    f = 10 * f + 5;
    let mut delta: i64 = 10;
    loop {
        if delta > UNITY {
            f = f + 0o2_000_000 - (delta / 2);
        }
        let d = f / UNITY;
        if !(0..=9).contains(&d) {
            return Err(format!("out_fix would print the non-digit {d} for word {word}"));
        }
        out.push(b'0' + d as u8);
        f = 10 * (f % UNITY);
        delta *= 10;
        if f <= delta {
            break;
        }
    }
    Ok(())
}

/// Exact-rational meaning of a printed fix_word: the decimal `text` (optional `-`, digits,
/// `.`, 1..=7 digits) denotes a number whose distance from `word`/2^20 is at most half a
/// unit in the last place of a fix_word, so that rounding to the nearest multiple of 2^-20
/// recovers `word`. Returns the number of fraction digits.
pub fn decimal_within_half_unit(text: &[u8], word: i32) -> Result<usize, String> {
    let (neg, rest) = match text.first() {
        Some(b'-') => (true, &text[1..]),
        _ => (false, text),
    };
    let dot = rest.iter().position(|&c| c == b'.').ok_or("no decimal point")?;
    let (ip, fp) = (&rest[..dot], &rest[dot + 1..]);
    if ip.is_empty() || fp.is_empty() || fp.len() > 7 {
        return Err(format!("malformed decimal: {} integer digits, {} fraction digits", ip.len(), fp.len()));
    }
    if ip.len() > 1 && ip[0] == b'0' {
        return Err("leading zero in the integer part".into());
    }
    let mut num: i128 = 0;
    for &c in ip.iter().chain(fp.iter()) {
        if !c.is_ascii_digit() {
            return Err(format!("non-digit {:?}", c as char));
        }
        num = num * 10 + (c - b'0') as i128;
    }
    let scale: i128 = 10i128.pow(fp.len() as u32);
    let w = word as i128;
    if neg != (w < 0) {
        return Err("sign differs".into());
    }
    // |num/scale - |w|/2^20| <= 2^-21   <=>   2*|num*2^20 - |w|*scale| <= scale
    let diff = (num * (UNITY as i128) - w.abs() * scale).abs();
    if 2 * diff > scale {
        return Err(format!("decimal is {}/{} of a fix_word unit away from the value", diff, scale));
    }
    Ok(fp.len())
}

/// PLtoTF §62–66 `get_fix` applied to the text after the `R`: blanks and signs, integer
/// digits, optional fraction of which the first seven digits count. `None` = PLtoTF reports
/// "Real constants must be less than 2048".
pub fn get_fix(text: &[u8]) -> Option<i32> {
    let mut i = 0usize;
    let mut negative = false;
    // §63
    while i < text.len() && (text[i] == b'+' || text[i] == b'-' || text[i] == b' ') {
        if text[i] == b'-' {
            negative = !negative;
        }
        i += 1;
    }
    // §64
    let mut acc: i64 = 0;
    while i < text.len() && text[i].is_ascii_digit() {
        acc = acc * 10 + (text[i] - b'0') as i64;
        if acc >= 2048 {
            return None;
        }
        i += 1;
    }
    let int_part = acc;
    acc = 0;
    // §66
    if i < text.len() && text[i] == b'.' {
        i += 1;
        let mut digits: Vec<i64> = vec![];
        while i < text.len() && text[i].is_ascii_digit() {
            if digits.len() < 7 {
                digits.push(0o10_000_000 * (text[i] - b'0') as i64);
            }
            i += 1;
        }
        for d in digits.iter().rev() {
            acc = d + acc / 10;
        }
        acc = (acc + 10) / 20;
    }
    if acc >= UNITY && int_part == 2047 {
        return None;
    }
    let v = int_part * UNITY + acc;
    Some(if negative { -v } else { v } as i32)
}

// ------------------------------------------------------------------------------------
// TeX §568, §571–572

/// The scaling state TeX computes once per font.
#[derive(Clone, Copy, Debug, PartialEq, Eq)]
pub struct TexScale {
    pub z: i64,
    pub alpha: i64,
    pub beta: i64,
    /// number of halvings of z in §572
    pub halvings: u32,
}

/// TeX §568 (design size bytes → z, font loaded at its design size, s = −1000) followed by
/// §572 (replace z by z′ and compute alpha, beta). `None` = TeX aborts ("bad TFM").
pub fn tex_scale(design_size_word: i32) -> Option<TexScale> {
    let [a, b, c, d] = (design_size_word as u32).to_be_bytes();
    // read_sixteen: if a>127 then abort
    if a > 127 {
        return None;
    }
    let mut z: i64 = (a as i64) * 0o400 + b as i64;
    z = z * 0o400 + c as i64;
    z = z * 0o20 + (d as i64) / 0o20;
    if z < 0o200000 {
        return None; // if z<unity then abort
    }
    tex_scale_at(z)
}

/// TeX §572 alone, for the size z (in sp) at which the font is loaded. §568 replaces the
/// design size by an `at` size s whenever 0 < s < 2^27 sp (2048pt), which may lie below 1pt;
/// `None` outside that range (TeX reports "Improper `at' size").
pub fn tex_scale_at(z: i64) -> Option<TexScale> {
    if z <= 0 || z >= 0o1000000000 {
        return None;
    }
    let mut z = z;
    let mut alpha: i64 = 16;
    let mut halvings = 0;
    while z >= 0o40000000 {
        z /= 2;
        alpha += alpha;
        halvings += 1;
    }
    let beta = 256 / alpha;
    let alpha = alpha * z;
    Some(TexScale { z, alpha, beta, halvings })
}

/// TeX §571 `store_scaled` with TeX's byte arithmetic. `None` = abort (first byte neither 0
/// nor 255).
pub fn store_scaled(word: i32, s: &TexScale) -> Option<i64> {
    let [a, b, c, d] = (word as u32).to_be_bytes();
    let (b, c, d) = (b as i64, c as i64, d as i64);
    let z = s.z;
    let sw = (((((d * z) / 0o400) + (c * z)) / 0o400) + (b * z)) / s.beta;
    match a {
        0 => Some(sw),
        255 => Some(sw - s.alpha),
        _ => None,
    }
}

/// The same definition in closed form with unbounded integers: with k halvings,
/// z′ = ⌊⌊ds/16⌋ / 2^k⌋, the result is ⌊ z′·(w mod 2^24) / 2^(20−k) ⌋ − [w<0]·2^(4+k)·z′.
/// Returns (result, exact?) where exact means no truncation happened in the big quotient.
pub fn store_scaled_i128(word: i32, design_size_word: i32) -> Option<(i128, bool)> {
    let ds = design_size_word as i128;
    // z = ds div 16 must be a positive size (below 2^20 the word is an `at` size under 1pt)
    if ds < 16 {
        return None;
    }
    let mut z = ds.div_euclid(16);
    let mut k = 0u32;
    while z >= (1 << 23) {
        z = z.div_euclid(2);
        k += 1;
    }
    let w = word as i128;
    if !(-(1 << 24)..(1 << 24)).contains(&w) {
        return None;
    }
    let low = w.rem_euclid(1 << 24);
    let den: i128 = 1 << (20 - k);
    let prod = z * low;
    let sw = prod.div_euclid(den);
    let exact = prod.rem_euclid(den) == 0;
    let r = if w < 0 { sw - (1i128 << (4 + k)) * z } else { sw };
    Some((r, exact))
}

// ------------------------------------------------------------------------------------
// PLtoTF §75–80

/// PLtoTF's `memory[0]`: the "infinity" that ends every sorted list. PLtoTF uses 2^31−1 and
/// 32-bit integers, which is enough for legal dimensions (|v| < 16.0: every `l+d` stays below
/// 2^27). The transcription below runs on i64 and uses a sentinel above every 33-bit sum, so
/// that it is also defined for raw PL reals up to ±2047.999999 (where the value 2^31−1 itself
/// occurs and differences need 33 bits); on legal dimensions both sentinels give the same
/// answers.
pub const INFINITY: i64 = 1 << 40;

/// §75 `min_cover(h,d)`: number of intervals [l, l+d] the greedy left-to-right cover needs,
/// and `next_d`, the smallest d′>d at which the cover may change.
pub fn min_cover(sorted: &[i64], d: i64) -> (usize, i64) {
    let mem = |p: usize| if p < sorted.len() { sorted[p] } else { INFINITY };
    let mut m = 0usize;
    let mut p = 0usize;
    let mut next_d = INFINITY;
    while p < sorted.len() {
        m += 1;
        let l = mem(p);
        while mem(p + 1) <= l + d {
            p += 1;
        }
        p += 1;
        if mem(p) - l < next_d {
            next_d = mem(p) - l;
        }
    }
    (m, next_d)
}

/// §76 `shorten(h,m)`: PLtoTF's search for the smallest d with min_cover(h,d) ≤ m.
pub fn shorten(sorted: &[i64], m: usize) -> i64 {
    if sorted.len() > m {
        let (_, nd) = min_cover(sorted, 0);
        let mut d = nd;
        let mut k;
        loop {
            d += d;
            k = min_cover(sorted, d).0;
            if k <= m {
                break;
            }
        }
        d /= 2;
        let (k2, mut next_d) = min_cover(sorted, d);
        k = k2;
        while k > m {
            d = next_d;
            let r = min_cover(sorted, d);
            k = r.0;
            next_d = r.1;
        }
        d
    } else {
        0
    }
}

/// How the representative of a class [l,u] is rounded to the fix_word grid.
#[derive(Clone, Copy, Debug, PartialEq, Eq)]
pub enum Midpoint {
    /// PLtoTF §78: `memory[p]:=l+(memory[p]-l) div 2` (difference is non-negative, so this
    /// is the midpoint rounded down).
    PlToTf,
    /// Deviation: `(l+u)/2` with the quotient truncated toward zero (differs from PLtoTF
    /// exactly when l+u is negative and odd).
    SumTruncatedTowardZero,
}

pub fn midpoint(l: i64, u: i64, how: Midpoint) -> i64 {
    match how {
        Midpoint::PlToTf => l + (u - l) / 2,
        Midpoint::SumTruncatedTowardZero => {
            let s = l + u;
            // Rust/Pascal integer division truncates toward zero
            s / 2
        }
    }
}

/// §78 `set_indices(h,d)`: class index (1-based) of every sorted value and the class
/// representatives. With `use_excess` the merging stops as soon as `excess` values have been
/// merged away (PLtoTF's `decr(excess); if excess=0 then d:=0`), which yields exactly `m`
/// classes; without it every interval of the greedy cover is merged completely.
pub fn set_indices(sorted: &[i64], d: i64, excess: Option<usize>, how: Midpoint) -> (Vec<usize>, Vec<i64>) {
    let mem = |p: usize| if p < sorted.len() { sorted[p] } else { INFINITY };
    let mut d = d;
    let mut excess = excess;
    let mut index = vec![0usize; sorted.len()];
    let mut reps = vec![];
    let mut m = 0usize;
    let mut p = 0usize;
    while p < sorted.len() {
        m += 1;
        let l = mem(p);
        index[p] = m;
        while mem(p + 1) <= l + d {
            p += 1;
            index[p] = m;
            if let Some(e) = excess.as_mut() {
                *e = e.saturating_sub(1);
                if *e == 0 {
                    d = 0;
                }
            }
        }
        reps.push(midpoint(l, mem(p), how));
        p += 1;
    }
    (index, reps)
}

/// Number of intervals of the greedy cover with tolerance d, giving up once it exceeds `cap`.
pub fn greedy_count(sorted: &[i64], d: i64, cap: usize) -> usize {
    let mut count = 0usize;
    let mut i = 0usize;
    while i < sorted.len() {
        count += 1;
        if count > cap {
            return count;
        }
        let l = sorted[i];
        while i < sorted.len() && sorted[i] - l <= d {
            i += 1;
        }
    }
    count
}

/// Definition by brute force: the smallest d ≥ 0 for which the values can be covered by at
/// most `limit` intervals of length d (the greedy cover is a minimum cover). Candidates are 0
/// and every pairwise difference; no monotonicity is assumed: every candidate below the
/// answer is tested and found infeasible.
pub fn smallest_tolerance(sorted: &[i64], limit: usize) -> i64 {
    if sorted.is_empty() {
        return 0;
    }
    let mut cands: Vec<std::cmp::Reverse<i64>> = vec![std::cmp::Reverse(0)];
    for i in 0..sorted.len() {
        for j in i + 1..sorted.len() {
            cands.push(std::cmp::Reverse(sorted[j] - sorted[i]));
        }
    }
    // candidates in increasing order (a heap instead of a full sort: the answer is often
    // among the smallest candidates)
    let mut heap = std::collections::BinaryHeap::from(cands);
    let mut last = None;
    while let Some(std::cmp::Reverse(d)) = heap.pop() {
        if last == Some(d) {
            continue;
        }
        last = Some(d);
        if greedy_count(sorted, d, limit) <= limit {
            return d;
        }
    }
    unreachable!("the full spread always admits a cover by one interval")
}

/// The same quantity straight from the statement, with no covering argument at all, for
/// small inputs (at most 20 distinct values): the minimum, over every way of cutting the
/// sorted values into at most `limit` consecutive runs, of the largest run spread. (An
/// optimal partition into classes can always be taken to consist of consecutive runs: moving a
/// value into the class whose range already contains it never increases a spread.)
pub fn smallest_tolerance_by_enumeration(sorted: &[i64], limit: usize) -> Option<i64> {
    let n = sorted.len();
    if n == 0 {
        return Some(0);
    }
    if n > 20 || limit == 0 {
        return None;
    }
    let mut best: Option<i64> = None;
    for cuts in 0u32..(1u32 << (n - 1)) {
        if cuts.count_ones() as usize + 1 > limit {
            continue;
        }
        let mut spread = 0i64;
        let mut lo = sorted[0];
        for i in 1..n {
            if cuts >> (i - 1) & 1 == 1 {
                spread = spread.max(sorted[i - 1] - lo);
                lo = sorted[i];
            }
        }
        spread = spread.max(sorted[n - 1] - lo);
        best = Some(best.map_or(spread, |b: i64| b.min(spread)));
    }
    best
}

// ------------------------------------------------------------------------------------
// NEXTLARGER chains

pub type Links = [Option<u8>; 256];

/// TFtoPL §84 / PLtoTF §113: characters in increasing order; follow the list from c through
/// smaller characters that still have a list tag; if it comes back to c, c's tag is reset.
/// Returns the characters whose link was cut, in increasing order.
pub fn break_cycles_knuth(links: &mut Links) -> Vec<u8> {
    let mut cut = vec![];
    for c in 0..=255u8 {
        if let Some(mut r) = links[c as usize] {
            while r < c {
                match links[r as usize] {
                    Some(n) => r = n,
                    None => break,
                }
            }
            if r == c {
                links[c as usize] = None;
                cut.push(c);
            }
        }
    }
    cut
}

/// Naive cycle finder on a partial functional graph: every cycle as the sorted list of its
/// members, cycles ordered by their largest member.
pub fn cycles(links: &Links) -> Vec<Vec<u8>> {
    let mut out: Vec<Vec<u8>> = vec![];
    let mut seen = [false; 256];
    for c in 0..=255u8 {
        if seen[c as usize] {
            continue;
        }
        // c is on a cycle iff walking from c returns to c within 256 steps
        let mut members = vec![c];
        let mut cur = c;
        let mut on_cycle = false;
        for _ in 0..256 {
            match links[cur as usize] {
                None => break,
                Some(n) => {
                    if n == c {
                        on_cycle = true;
                        break;
                    }
                    members.push(n);
                    cur = n;
                }
            }
        }
        if on_cycle {
            for &m in &members {
                seen[m as usize] = true;
            }
            members.sort_unstable();
            out.push(members);
        }
    }
    out.sort_by_key(|m| *m.last().unwrap());
    out
}

/// The chain after c (c excluded); `None` when it does not end within 256 steps.
pub fn chain(links: &Links, c: u8) -> Option<Vec<u8>> {
    let mut v = vec![];
    let mut cur = c;
    while let Some(n) = links[cur as usize] {
        v.push(n);
        cur = n;
        if v.len() > 256 {
            return None;
        }
    }
    Some(v)
}

#[cfg(test)]
mod tests {
    use super::*;

    fn p(w: i32) -> String {
        let mut v = vec![];
        out_fix(w, &mut v).unwrap();
        String::from_utf8(v).unwrap()
    }

    #[test]
    fn cmr10_fontdimen() {
        // cmr10.tfm parameter words and what Knuth's tftopl prints for them
        assert_eq!(p(0), "0.0");
        assert_eq!(p(349526), "0.333334");
        assert_eq!(p(1048579), "1.000003");
        assert_eq!(p(10 << 20), "10.0");
        assert_eq!(p(-(1 << 20) / 4), "-0.25");
    }
}
