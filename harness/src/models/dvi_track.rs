//! DVI reference model for C16.
//!
//! Three independent pieces, all written from the DVI command table of TeX: The Program
//! §585–§591 (the same table is DVItype §15–§19) and from DVItype's interpreter
//! (§71–§86: `h,v,w,x,y,z` with a stack, `bop` zeroes the six registers and empties the stack,
//! the current font is not stacked and is undefined at `bop`, `pop` at level zero is
//! reported and ignored), never from the Rust crate under test:
//!
//! * [`DOp`]: a serde-able mirror of the operations;
//! * [`encode`] / [`decode`]: byte codec (minimal operand widths on output, every width on input);
//! * [`track`]: position tracker in i64 with symbolic character advances.

use serde::{Deserialize, Serialize};

#[derive(Clone, Copy, Debug, PartialEq, Eq, PartialOrd, Ord, Serialize, Deserialize)]
pub enum V {
    W,
    X,
    Y,
    Z,
}

impl V {
    pub fn idx(self) -> usize {
        self as usize
    }
    pub fn horizontal(self) -> bool {
        matches!(self, V::W | V::X)
    }
}

/// Payload of an `xxx` command. `Rep` stands for `len` bytes `seed, seed+1, …` (mod 251), so
/// that multi-megabyte payloads need not be spelled out in replay files.
#[derive(Clone, Debug, PartialEq, Eq, Serialize, Deserialize)]
pub enum Blob {
    Lit(Vec<u8>),
    Rep { len: u32, seed: u8 },
}

impl Blob {
    pub fn bytes(&self) -> Vec<u8> {
        match self {
            Blob::Lit(v) => v.clone(),
            Blob::Rep { len, seed } => (0..*len).map(|i| ((*seed as u32 + i) % 251) as u8).collect(),
        }
    }
    pub fn len(&self) -> usize {
        match self {
            Blob::Lit(v) => v.len(),
            Blob::Rep { len, .. } => *len as usize,
        }
    }
}

/// One DVI command, with the parameter names of TeX §585.
#[derive(Clone, Debug, PartialEq, Eq, Serialize, Deserialize)]
pub enum DOp {
    /// `set_char_i`, `set1..4` (`set`) or `put1..4`.
    Char { c: u32, set: bool },
    /// `set_rule` / `put_rule`: a = height, b = width.
    Rule { height: i32, width: i32, set: bool },
    Nop,
    Bop { c: [i32; 10], p: i32 },
    Eop,
    Push,
    Pop,
    Right(i32),
    Down(i32),
    /// `w0 x0 y0 z0`
    Move(V),
    /// `w1..4` etc.
    SetVar(V, i32),
    /// `fnt_num_i`, `fnt1..4`
    Fnt(u32),
    Xxx(Blob),
    FntDef { k: u32, c: u32, s: u32, d: u32, area: String, name: String },
    Pre { i: u8, num: u32, den: u32, mag: u32, comment: String },
    Post { p: i32, num: u32, den: u32, mag: u32, l: u32, u: u32, s: u16, t: u16 },
    /// `post_post q[4] i[1]` followed by `n223` bytes 223.
    PostPost { q: i32, i: u8, n223: u32 },
}

impl DOp {
    /// Same op with a literal blob (the form the decoder produces).
    pub fn canon(&self) -> DOp {
        match self {
            DOp::Xxx(b) => DOp::Xxx(Blob::Lit(b.bytes())),
            o => o.clone(),
        }
    }
    pub fn is_movement(&self) -> bool {
        matches!(self, DOp::Right(_) | DOp::Down(_) | DOp::Move(_) | DOp::SetVar(..))
    }
}

/// Named deviations from the DVI standard (known-finding flags).
#[derive(Clone, Copy, Debug, Default, PartialEq, Eq)]
pub struct Dev {
    /// `post_post` is read and written as `i[1] q[4]` instead of `q[4] i[1]`.
    pub post_post_id_before_pointer: bool,
}

// -------------------------------------------------------------------------------------
// Encoder (minimal widths)

pub fn signed_width(x: i32) -> u8 {
    let x = x as i64;
    if (-(1 << 7)..(1 << 7)).contains(&x) {
        1
    } else if (-(1 << 15)..(1 << 15)).contains(&x) {
        2
    } else if (-(1 << 23)..(1 << 23)).contains(&x) {
        3
    } else {
        4
    }
}

pub fn unsigned_width(x: u32) -> u8 {
    if x < (1 << 8) {
        1
    } else if x < (1 << 16) {
        2
    } else if x < (1 << 24) {
        3
    } else {
        4
    }
}

fn put_signed(out: &mut Vec<u8>, base: u8, x: i32) {
    let n = signed_width(x);
    out.push(base + n - 1);
    // low n bytes of the two's complement representation, most significant first
    for k in (0..n).rev() {
        out.push(((x as i64) >> (8 * k as i64) & 0xff) as u8);
    }
}

fn put_unsigned(out: &mut Vec<u8>, base: u8, x: u32) {
    let n = unsigned_width(x);
    out.push(base + n - 1);
    for k in (0..n).rev() {
        out.push((x >> (8 * k as u32) & 0xff) as u8);
    }
}

fn put4(out: &mut Vec<u8>, x: u32) {
    for k in (0..4).rev() {
        out.push((x >> (8 * k) & 0xff) as u8);
    }
}

fn str_bytes(s: &str) -> &[u8] {
    // A DVI string has a one-byte length; longer strings are not expressible.
    let b = s.as_bytes();
    &b[..b.len().min(255)]
}

pub fn encode_op(op: &DOp, dev: Dev, out: &mut Vec<u8>) {
    match op {
        DOp::Char { c, set } => {
            if *set && *c < 128 {
                out.push(*c as u8);
            } else {
                put_unsigned(out, if *set { 128 } else { 133 }, *c);
            }
        }
        DOp::Rule { height, width, set } => {
            out.push(if *set { 132 } else { 137 });
            put4(out, *height as u32);
            put4(out, *width as u32);
        }
        DOp::Nop => out.push(138),
        DOp::Bop { c, p } => {
            out.push(139);
            for x in c {
                put4(out, *x as u32);
            }
            put4(out, *p as u32);
        }
        DOp::Eop => out.push(140),
        DOp::Push => out.push(141),
        DOp::Pop => out.push(142),
        DOp::Right(d) => put_signed(out, 143, *d),
        DOp::Move(v) => out.push([147, 152, 161, 166][v.idx()]),
        DOp::SetVar(v, d) => put_signed(out, [148, 153, 162, 167][v.idx()], *d),
        DOp::Down(d) => put_signed(out, 157, *d),
        DOp::Fnt(f) => {
            if *f < 64 {
                out.push(171 + *f as u8);
            } else {
                put_unsigned(out, 235, *f);
            }
        }
        DOp::Xxx(b) => {
            put_unsigned(out, 239, b.len() as u32);
            out.extend_from_slice(&b.bytes());
        }
        DOp::FntDef { k, c, s, d, area, name } => {
            put_unsigned(out, 243, *k);
            put4(out, *c);
            put4(out, *s);
            put4(out, *d);
            let (a, n) = (str_bytes(area), str_bytes(name));
            out.push(a.len() as u8);
            out.push(n.len() as u8);
            out.extend_from_slice(a);
            out.extend_from_slice(n);
        }
        DOp::Pre { i, num, den, mag, comment } => {
            out.push(247);
            out.push(*i);
            put4(out, *num);
            put4(out, *den);
            put4(out, *mag);
            let x = str_bytes(comment);
            out.push(x.len() as u8);
            out.extend_from_slice(x);
        }
        DOp::Post { p, num, den, mag, l, u, s, t } => {
            out.push(248);
            put4(out, *p as u32);
            put4(out, *num);
            put4(out, *den);
            put4(out, *mag);
            put4(out, *l);
            put4(out, *u);
            out.extend_from_slice(&[(*s >> 8) as u8, *s as u8, (*t >> 8) as u8, *t as u8]);
        }
        DOp::PostPost { q, i, n223 } => {
            out.push(249);
            if dev.post_post_id_before_pointer {
                out.push(*i);
                put4(out, *q as u32);
            } else {
                put4(out, *q as u32);
                out.push(*i);
            }
            for _ in 0..*n223 {
                out.push(223);
            }
        }
    }
}

pub fn encode(ops: &[DOp], dev: Dev) -> Vec<u8> {
    let mut out = vec![];
    for op in ops {
        encode_op(op, dev, &mut out);
    }
    out
}

// -------------------------------------------------------------------------------------
// Decoder

#[derive(Clone, Debug, PartialEq, Eq)]
pub enum End {
    /// Every byte was consumed.
    Done,
    /// Opcode 250..=255.
    BadOpcode(u8),
    /// The data ended inside the parameters of this opcode.
    Truncated(u8),
}

struct Rd<'a> {
    b: &'a [u8],
    at: usize,
    /// Set when a string parameter of the current command is not valid UTF-8 (its reading as a
    /// Rust `String` is then a choice of the reader, not of the DVI format).
    non_utf8: bool,
}

impl<'a> Rd<'a> {
    fn take(&mut self, n: usize) -> Option<&'a [u8]> {
        if self.b.len() - self.at < n {
            return None;
        }
        let s = &self.b[self.at..self.at + n];
        self.at += n;
        Some(s)
    }
    fn unsigned(&mut self, n: usize) -> Option<u32> {
        let s = self.take(n)?;
        let mut x: u64 = 0;
        for b in s {
            x = x << 8 | *b as u64;
        }
        Some(x as u32)
    }
    fn signed(&mut self, n: usize) -> Option<i32> {
        let s = self.take(n)?;
        let mut x: i64 = 0;
        for b in s {
            x = x << 8 | *b as i64;
        }
        if x >= 1i64 << (8 * n - 1) {
            x -= 1i64 << (8 * n);
        }
        Some(x as i32)
    }
    fn string(&mut self, n: usize) -> Option<String> {
        let raw = self.take(n)?;
        if std::str::from_utf8(raw).is_err() {
            self.non_utf8 = true;
        }
        Some(String::from_utf8_lossy(raw).into_owned())
    }
}

fn decode_one(r: &mut Rd, o: u8, dev: Dev) -> Option<DOp> {
    Some(match o {
        0..=127 => DOp::Char { c: o as u32, set: true },
        128..=131 => DOp::Char { c: r.unsigned((o - 127) as usize)?, set: true },
        132 | 137 => {
            let a = r.signed(4)?;
            let b = r.signed(4)?;
            DOp::Rule { height: a, width: b, set: o == 132 }
        }
        133..=136 => DOp::Char { c: r.unsigned((o - 132) as usize)?, set: false },
        138 => DOp::Nop,
        139 => {
            let mut c = [0i32; 10];
            for x in c.iter_mut() {
                *x = r.signed(4)?;
            }
            DOp::Bop { c, p: r.signed(4)? }
        }
        140 => DOp::Eop,
        141 => DOp::Push,
        142 => DOp::Pop,
        143..=146 => DOp::Right(r.signed((o - 142) as usize)?),
        147 => DOp::Move(V::W),
        148..=151 => DOp::SetVar(V::W, r.signed((o - 147) as usize)?),
        152 => DOp::Move(V::X),
        153..=156 => DOp::SetVar(V::X, r.signed((o - 152) as usize)?),
        157..=160 => DOp::Down(r.signed((o - 156) as usize)?),
        161 => DOp::Move(V::Y),
        162..=165 => DOp::SetVar(V::Y, r.signed((o - 161) as usize)?),
        166 => DOp::Move(V::Z),
        167..=170 => DOp::SetVar(V::Z, r.signed((o - 166) as usize)?),
        171..=234 => DOp::Fnt((o - 171) as u32),
        235..=238 => DOp::Fnt(r.unsigned((o - 234) as usize)?),
        239..=242 => {
            let k = r.unsigned((o - 238) as usize)?;
            DOp::Xxx(Blob::Lit(r.take(k as usize)?.to_vec()))
        }
        243..=246 => {
            let k = r.unsigned((o - 242) as usize)?;
            let c = r.unsigned(4)?;
            let s = r.unsigned(4)?;
            let d = r.unsigned(4)?;
            let a = r.unsigned(1)? as usize;
            let l = r.unsigned(1)? as usize;
            DOp::FntDef { k, c, s, d, area: r.string(a)?, name: r.string(l)? }
        }
        247 => {
            let i = r.unsigned(1)? as u8;
            let num = r.unsigned(4)?;
            let den = r.unsigned(4)?;
            let mag = r.unsigned(4)?;
            let k = r.unsigned(1)? as usize;
            DOp::Pre { i, num, den, mag, comment: r.string(k)? }
        }
        248 => DOp::Post {
            p: r.signed(4)?,
            num: r.unsigned(4)?,
            den: r.unsigned(4)?,
            mag: r.unsigned(4)?,
            l: r.unsigned(4)?,
            u: r.unsigned(4)?,
            s: r.unsigned(2)? as u16,
            t: r.unsigned(2)? as u16,
        },
        249 => {
            let (q, i) = if dev.post_post_id_before_pointer {
                let i = r.unsigned(1)? as u8;
                (r.signed(4)?, i)
            } else {
                let q = r.signed(4)?;
                (q, r.unsigned(1)? as u8)
            };
            let mut n223 = 0u32;
            while r.at < r.b.len() && r.b[r.at] == 223 {
                r.at += 1;
                n223 += 1;
            }
            DOp::PostPost { q, i, n223 }
        }
        250..=255 => unreachable!(),
    })
}

/// Decode a whole byte string: the operations before the first error, and how it ended.
pub fn decode(b: &[u8], dev: Dev) -> (Vec<DOp>, End) {
    let (ops, _, end) = decode_ex(b, dev);
    (ops, end)
}

/// As [`decode`]; the second component says, per operation, whether one of its string parameters
/// (font area/name, preamble comment) is not valid UTF-8 in the file. For those the `String` in the
/// returned op is `from_utf8_lossy` of the bytes, which is one possible reading, not THE reading.
pub fn decode_ex(b: &[u8], dev: Dev) -> (Vec<DOp>, Vec<bool>, End) {
    let mut r = Rd { b, at: 0, non_utf8: false };
    let mut ops = vec![];
    let mut flags = vec![];
    while r.at < b.len() {
        let o = b[r.at];
        r.at += 1;
        if o >= 250 {
            return (ops, flags, End::BadOpcode(o));
        }
        r.non_utf8 = false;
        match decode_one(&mut r, o, dev) {
            Some(op) => {
                ops.push(op);
                flags.push(r.non_utf8);
            }
            None => return (ops, flags, End::Truncated(o)),
        }
    }
    (ops, flags, End::Done)
}

/// The only sequences whose encoding is ambiguous in the DVI format itself: the 223 bytes
/// after `post_post` are "all bytes 223 that follow", and 223 is also `fnt_num_52`. Returns
/// the sequence every reader must produce (the font selections folded into the count).
pub fn fold_223(ops: &[DOp]) -> (Vec<DOp>, bool) {
    let mut out: Vec<DOp> = vec![];
    let mut folded = false;
    for op in ops {
        if let (Some(DOp::PostPost { n223, .. }), DOp::Fnt(52)) = (out.last_mut(), op) {
            *n223 += 1;
            folded = true;
            continue;
        }
        out.push(op.clone());
    }
    (out, folded)
}

// -------------------------------------------------------------------------------------
// Tracker

pub const POS_LIMIT: i64 = i32::MAX as i64;

/// Symbolic advance: (character, font in force; None = undefined).
pub type Adv = (u32, Option<u32>);

#[derive(Clone, Debug, Default, PartialEq, Eq)]
pub struct Frame {
    pub h: i64,
    /// Advance widths of the `set` characters that contributed to `h`, in order.
    pub hw: Vec<Adv>,
    pub v: i64,
    pub vars: [i64; 4],
    // ---- instrumentation only (never read by the semantics) ----
    src: [Option<usize>; 4],
    restored: [bool; 4],
    stale: [bool; 4],
}

#[derive(Clone, Debug, PartialEq, Eq)]
pub enum Event {
    Char { page: u32, h: i64, hw: Vec<Adv>, v: i64, font: Option<u32>, c: u32 },
    Rule { page: u32, h: i64, hw: Vec<Adv>, v: i64, height: i32, width: i32 },
    /// `xxx`: DVI-reading programs that implement specials act at the current position
    /// (DVItype lists them in sequence with the positioned material).
    Special { page: u32, h: i64, hw: Vec<Adv>, v: i64, len: usize },
}

/// Position at which a non-movement, non-typesetting command other than `xxx` occurs
/// (`nop`, `fnt`, `fnt_def`, `push`, `pop`, `bop`, `eop`, `pre`, `post`, `post_post`):
/// recorded for statistics only, the position of such a command has no meaning in DVI.
#[derive(Clone, Debug, PartialEq, Eq)]
pub struct Aux {
    pub page: u32,
    pub h: i64,
    pub hw: Vec<Adv>,
    pub v: i64,
}

#[derive(Clone, Debug, Default)]
pub struct Shapes {
    /// A variable was set, pushed over, set to a different value, popped, and then used by a
    /// `w0/x0/y0/z0` — and a character or rule was typeset while that motion was in effect.
    pub push_change_pop_reuse: bool,
    /// A variable non-zero at a `bop` was used by `w0/x0/y0/z0` on the new page before being
    /// set again — and something was typeset while that motion was in effect.
    pub use_across_bop: bool,
    pub hit_a: bool,
    pub hit_b: bool,
    pub pop_at_level_zero: bool,
    /// `bop` with a non-empty stack followed by a `pop` on the new page at level zero.
    pub pop_after_bop_emptied_stack: bool,
    pub font_change_inside_push_seen_after_pop: bool,
    pub max_depth: usize,
    pub pages: u32,
    pub var_sets: u32,
    pub var_moves: u32,
    pub events: u32,
    pub specials: u32,
    /// An `xxx` met at a position other than the page origin.
    pub special_away_from_origin: bool,
    /// An `xxx` met directly after a `w/x/y/z` motion, with no typeset op in between: only the
    /// position of the special itself observes that motion at that point.
    pub special_after_var_motion: bool,
}

#[derive(Clone, Debug, Default)]
pub struct Tracker {
    pub cur: Frame,
    pub stack: Vec<Frame>,
    pub font: Option<u32>,
    pub page: u32,
    pub events: Vec<Event>,
    /// Positions of the other non-movement commands, in order (see [`Aux`]); filled only when `want_aux`.
    pub aux: Vec<Aux>,
    pub want_aux: bool,
    pub max_abs: i64,
    pub shapes: Shapes,
    taint_a: Option<usize>,
    taint_b: Option<usize>,
    bop_dropped_frames: bool,
    font_changed_at_depth: Option<usize>,
    moved_by_var_since_event: bool,
    n: usize,
}

impl Tracker {
    /// (dh, dv) the command would add to the integer parts of the position.
    pub fn motion(&self, op: &DOp) -> (i64, i64) {
        match op {
            DOp::Rule { width, set: true, .. } => (*width as i64, 0),
            DOp::Right(d) => (*d as i64, 0),
            DOp::Down(d) => (0, *d as i64),
            DOp::Move(v) => {
                let d = self.cur.vars[v.idx()];
                if v.horizontal() {
                    (d, 0)
                } else {
                    (0, d)
                }
            }
            DOp::SetVar(v, d) => {
                if v.horizontal() {
                    (*d as i64, 0)
                } else {
                    (0, *d as i64)
                }
            }
            _ => (0, 0),
        }
    }

    pub fn step(&mut self, op: &DOp) {
        let idx = self.n;
        self.n += 1;
        if self.want_aux && !op.is_movement() && !matches!(op, DOp::Char { .. } | DOp::Rule { .. } | DOp::Xxx(_)) {
            // position BEFORE the command acts (a `pop` is recorded where it is met)
            self.aux.push(Aux { page: self.page, h: self.cur.h, hw: self.cur.hw.clone(), v: self.cur.v });
        }
        match op {
            DOp::Char { c, set } => {
                self.events.push(Event::Char { page: self.page, h: self.cur.h, hw: self.cur.hw.clone(), v: self.cur.v, font: self.font, c: *c });
                self.observe();
                if *set {
                    self.cur.hw.push((*c, self.font));
                }
            }
            DOp::Rule { height, width, set } => {
                self.events.push(Event::Rule { page: self.page, h: self.cur.h, hw: self.cur.hw.clone(), v: self.cur.v, height: *height, width: *width });
                self.observe();
                if *set {
                    self.cur.h += *width as i64;
                }
            }
            DOp::Bop { .. } => {
                let mut stale = [false; 4];
                for k in 0..4 {
                    stale[k] = self.cur.vars[k] != 0;
                }
                self.bop_dropped_frames = !self.stack.is_empty();
                self.page += 1;
                self.shapes.pages += 1;
                self.cur = Frame { stale, ..Default::default() };
                self.stack.clear();
                self.font = None;
                self.taint_a = None;
                self.taint_b = None;
                self.font_changed_at_depth = None;
            }
            DOp::Push => {
                self.stack.push(self.cur.clone());
                self.shapes.max_depth = self.shapes.max_depth.max(self.stack.len());
            }
            DOp::Pop => match self.stack.pop() {
                None => {
                    // DVItype: "(illegal at level zero)", nothing happens.
                    self.shapes.pop_at_level_zero = true;
                    if self.bop_dropped_frames {
                        self.shapes.pop_after_bop_emptied_stack = true;
                    }
                }
                Some(mut saved) => {
                    for k in 0..4 {
                        if saved.src[k].is_some() && saved.src[k] != self.cur.src[k] && saved.vars[k] != self.cur.vars[k] && saved.vars[k] != 0 {
                            saved.restored[k] = true;
                        }
                    }
                    self.cur = saved;
                    let depth = self.stack.len();
                    for t in [&mut self.taint_a, &mut self.taint_b] {
                        if matches!(t, Some(d) if depth < *d) {
                            *t = None;
                        }
                    }
                    if matches!(self.font_changed_at_depth, Some(d) if depth < d) {
                        self.shapes.font_change_inside_push_seen_after_pop = true;
                    }
                }
            },
            DOp::Right(d) => self.cur.h += *d as i64,
            DOp::Down(d) => self.cur.v += *d as i64,
            DOp::Move(v) => {
                self.shapes.var_moves += 1;
                let k = v.idx();
                let d = self.cur.vars[k];
                if v.horizontal() {
                    self.cur.h += d;
                } else {
                    self.cur.v += d;
                }
                if self.cur.restored[k] {
                    self.shapes.hit_a = true;
                    self.taint_a = Some(self.stack.len());
                }
                if self.cur.stale[k] {
                    self.shapes.hit_b = true;
                    self.taint_b = Some(self.stack.len());
                }
            }
            DOp::SetVar(v, d) => {
                self.shapes.var_sets += 1;
                let k = v.idx();
                self.cur.vars[k] = *d as i64;
                self.cur.src[k] = Some(idx);
                self.cur.restored[k] = false;
                self.cur.stale[k] = false;
                if v.horizontal() {
                    self.cur.h += *d as i64;
                } else {
                    self.cur.v += *d as i64;
                }
            }
            DOp::Fnt(f) => {
                if self.font != Some(*f) && !self.stack.is_empty() {
                    self.font_changed_at_depth = Some(self.stack.len());
                }
                self.font = Some(*f);
            }
            DOp::Xxx(b) => {
                self.events.push(Event::Special { page: self.page, h: self.cur.h, hw: self.cur.hw.clone(), v: self.cur.v, len: b.len() });
                self.shapes.specials += 1;
                if self.cur.h != 0 || self.cur.v != 0 || !self.cur.hw.is_empty() {
                    self.shapes.special_away_from_origin = true;
                }
                if self.moved_by_var_since_event {
                    self.shapes.special_after_var_motion = true;
                }
                self.moved_by_var_since_event = false;
            }
            DOp::Nop | DOp::Eop | DOp::FntDef { .. } | DOp::Pre { .. } | DOp::Post { .. } | DOp::PostPost { .. } => {}
        }
        if matches!(op, DOp::Move(_) | DOp::SetVar(..)) {
            self.moved_by_var_since_event = true;
        }
        if matches!(op, DOp::Char { .. } | DOp::Rule { .. } | DOp::Bop { .. }) {
            self.moved_by_var_since_event = false;
        }
        self.max_abs = self.max_abs.max(self.cur.h.abs()).max(self.cur.v.abs());
    }

    fn observe(&mut self) {
        self.shapes.events += 1;
        if self.taint_a.is_some() {
            self.shapes.push_change_pop_reuse = true;
        }
        if self.taint_b.is_some() {
            self.shapes.use_across_bop = true;
        }
    }
}

pub fn track(ops: &[DOp]) -> Tracker {
    let mut t = Tracker::default();
    for op in ops {
        t.step(op);
    }
    t
}

/// As [`track`], also recording [`Aux`] positions.
pub fn track_aux(ops: &[DOp]) -> Tracker {
    let mut t = Tracker { want_aux: true, ..Default::default() };
    for op in ops {
        t.step(op);
    }
    t
}
