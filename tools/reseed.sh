#!/bin/bash
# tools/reseed.sh [seed dirs...] : re-verify that stored seeded defects are still caught by the current checks.
# Works in a private lane (copies of /repo and /verif under /var/tmp/reseed) so /repo and /verif stay untouched.
# For each seeded/<ID>[-k]: apply patch.diff to the lane repo, run the lane's quick check for <ID>, expect exit 1, revert.
set -u
LANE=/var/tmp/reseed
mkdir -p $LANE
rsync -a --delete --exclude target --exclude .git /repo/ $LANE/repo/
rsync -a --delete --exclude target --exclude .git --exclude evidence --exclude seeded /verif/ $LANE/verif/
mkdir -p $LANE/verif/evidence
sed -i "s#\"/repo/#\"$LANE/repo/#" $LANE/verif/harness/Cargo.toml
grep -rl '"/repo/' $LANE/verif/harness/src | xargs -r sed -i "s#\"/repo/#\"$LANE/repo/#g"
DIRS="$@"; [ -z "$DIRS" ] && DIRS=$(ls -d /verif/seeded/C* | sort)
for d in $DIRS; do
  name=$(basename $d); id=${name%%-*}
  cd $LANE/repo
  if ! git apply --check $d/patch.diff 2>/dev/null; then echo "RESEED $name patch_does_not_apply"; continue; fi
  git apply $d/patch.diff
  ( cd $LANE/verif && rm -f replays/C*.json && ./check $id --tier quick > $LANE/check_$name.log 2>&1 ); rc=$?
  git apply -R $d/patch.diff
  how=$(grep -E "^C[0-9]+:\S+ FAILED|fails in an unlisted way|VIOLATION" $LANE/check_$name.log | head -1 | cut -c1-160)
  echo "RESEED $name exit=$rc $how"
done
