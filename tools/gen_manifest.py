#!/usr/bin/env python3
"""Regenerates /verif/MANIFEST.json from the table below and validates it."""
import json, sys, os
HERE = os.path.dirname(os.path.dirname(os.path.abspath(__file__)))

# id -> (technique, level text, level note, design ref)
CHECKS = {
 "C11": ("round-trip / idempotence PBT on generated fonts (as PL text and as scrambled-layout TFM bytes) with an independent raw TFM reader (reference model, TeX 540-546) and differential runs of the two compiled lig/kern programs; corpus fonts as calibration",
         "Random fonts (0-256 characters, dimension tables at the 15/15/63/255 limits, lig/kern tables with shared chains, SKIP/STOP, all eight ligature forms, >255 instructions with redirected entry points, boundary char and boundary label, NEXTLARGER chains, VARCHAR recipes, header fields, up to 254 parameters) as PL text and as TFM files written by an own writer with shuffled/duplicated/unused table entries; every warning-free corpus font and property list. t1 = pl_to_tfm(tfm_to_pl(t0)): (i) a further round trip is the byte identity without warnings, identical for all three character display formats; (ii) the raw reader sees the same resolved width/height/depth/italic, tag, parameters and header (modulo Knuth's documented header normalisations); (iii) the instruction TeX 1039 would select is the same for every (left incl. boundary, right) pair, and the two compiled programs produce identical run output on letters, pairs and sampled 3-letter words with the left boundary on and off; (iv) canonical tables are zero-first, strictly increasing, kerns deduplicated.",
         "Trusted: the raw TFM reader and the own TFM writer inside c11.rs, proptest. Fonts that do not convert warning-free are skipped and counted (generated ones must convert: a failure there is a violation).",
         "DESIGN.md §4 C11"),
 "C14": ("PBT with invariant oracles (conservation, letter preservation) + reference Liang positions + replay of TeX 913-916 on letter counts, calibrated on the crate's 33 unit goldens and 995 TeX-produced Alice boxes",
         "Random texts in cmr10 (ligatures, kerns, punctuation, digits, explicit hyphens, 64+ letter words, words after letterless tokens, nodes pushed directly after words) and in cmr10's metrics with generated lig/kern programs involving the hyphen and both boundaries; custom and plain TeX pattern sets; hyphen minimums 1..5 x 1..5. (i) deleting the inserted discretionaries gives back the original list node for node; (ii) at each discretionary pre-break minus hyphen + post-break carry the letters of the replaced nodes; (iii) every discretionary sits at a Liang position allowed by the minimums; (iv) every allowed position has a discretionary unless it lies strictly inside the letters replaced by an earlier one (for kern/=:-only fonts TeX 913-916 is replayed exactly); words tried = the first letter run after every glue.",
         "Trusted: models/liang.rs, the conservation alignment, cmr10 from the corpus, proptest; models/tex_hyph.rs (TeX 903-918 reconstitution, reproduces the 33 unit goldens and 995 Alice boxes node for node) is used to decide exactly which words TeX itself rebuilds differently and as a counted (never failing) comparison; a hang is a violation only after 10 s of thread CPU time, a wall-clock-only timeout is inconclusive (exit 2). Looping lig/kern programs are skipped and counted.",
         "DESIGN.md §4 C14"),
 "C10": ("exhaustive header sweep + mutation/grammar-based totality fuzzing under catch_unwind with an independent header model (TFtoPL 20-21) and the composition oracle deserialize(pl_to_tfm(text))",
         "Each of the twelve 16-bit header words takes all 2^16 values against 300 (quick) / 663 (thorough) base files (short files, truncated corpus fonts, a full font); every truncation of every corpus font; random byte mutations; size-consistent random files reaching char_info/lig_kern/exten validation; token-level mutations of every corpus property list and of generated ones (subtree delete/duplicate/swap, parenthesis add/drop, out-of-range numbers, labels for undeclared or too-small characters, huge NEXTLARGER cycles, >255 steps, deep nesting). tfm_to_pl returns exactly the documented error/acceptance the header model predicts; pl_to_tfm returns; its output is accepted by File::deserialize with 4*lf == len and converts back; a second validate_and_fix pass repeats no repair warning; any panic is a violation.",
         "Trusted: the header model (calibrated on the crate's 17 deserialize goldens), catch_unwind with overflow checks on, proptest. Where TFtoPL and the crate's docs disagree on which documented error applies, every documented non-panicking outcome is accepted.",
         "DESIGN.md §4 C10"),
 "C04": ("PBT against an exhaustive dynamic program over all legal break sequences (reference optimum + validity predicate), calibrated on the repository's TeX-verified goldens and traces",
         "Random lists over a synthetic font (words, glue incl. infinite, penalties from -20000 to 20000, explicit kerns, discretionaries with pre/post/replace parts, discardable runs; 3-40+ breakpoints) x 1-3 line widths x tolerances x every demerit/penalty parameter x skips x emergency stretch x looseness -2..2 x force_solution. break_line_single_attempt returns Some iff the unpruned DP over (break x line count x fitness class) finds a feasible sequence (with TeX 873-875 for looseness); returned breaks are legal, every line's badness within tolerance as recomputed by the model, and total demerits equal the DP optimum for the selected line count; break positions are never compared. Goldens: 28 configurations pass by pass against the recorded TeX logs.",
         "Trusted: models/kp_eval.rs (TeX 813-875 semantics without active list/deactivation/class pruning), proptest. On non-monotone instances, totals reaching awful_bad and exact looseness ties only the part of the oracle that is sound without the precondition is applied (no panic, legality, feasibility of every line in a non-final pass, total >= optimum); counted separately.",
         "DESIGN.md §4 C04"),
 "C12": ("PBT against reference models: space-factor machine (TeX 1034, 1041-1044) and a transcription of post_line_break (877-890 incl. pruning 879), with the breakpoints recomputed differentially on a clone",
         "Random texts in cmr10 (ligature/kern sequences, space-factor punctuation, capitals, explicit hyphens, hyphenatable and letterless words) x \\spaceskip/\\xspaceskip x three space-factor tables x hyphenation on/off, and hand-built lists biased to consecutive glue/penalty/kern runs and discretionaries with all three parts, broken with random line widths, indents, penalties, skips, tolerances, looseness. The list spells the words; every inter-word glue equals the model; the broken list is the prepared list ending in \\penalty10000 \\parfillskip; line boxes and inter-line penalties equal the model item for item (nothing lost, duplicated or reordered; only the break item and following discardables dropped) with the requested width and shift.",
         "Trusted: the two models, cmr10 from the repository corpus, proptest. Breakpoint choice is C04's, glue setting C15's; baseline-skip glue is ignored.",
         "DESIGN.md §4 C12"),
 "C03": ("PBT + exhaustive small scope against a transcription of TeX's line scanner (reference model) with trace-position validity, calibrated on the lexer's 76 table tests",
         "Random sources over an alphabet hitting every scanner branch (escape, braces, ^^ forms incl. hex, nested, at line ends and in names, blanks, CR, NUL, DEL, non-ASCII) x random category-code tables (60% plain, 40% uniform per occurring character) x \\endlinechar in {none, CR, letter, ^, any ASCII}, also with the configuration switched mid-stream; all strings of length<=5 (<=6 thorough) over 8 symbols under 8 tables. Tokens (kind, name, char, catcode, InvalidCharacter) must equal the model one for one in both report_end_of_line modes; every token's trace must give the model's line number, full line text and a column inside the allowed span; no panic, no key exhaustion.",
         "Trusted: models/tex_lexer.rs (TeX 343-356 transcription, reproduces the 76 goldens), proptest. Column tolerance for tokens made by ^^ reduction or by the appended end-line char is the property's (DESIGN.md C03).",
         "DESIGN.md §4 C03"),
 "C17": ("exhaustive enumeration (all 2^32-1 fix_words in the thorough tier) + PBT against transcriptions of TFtoPL/PLtoTF/TeX arithmetic; validity predicates with brute-force optimal tolerance for compress; naive cycle finder for next-larger chains",
         "fix_word text: Display equals TFtoPL 40-43 and the PL reader returns the identical i32 (quick: |v|<2^22, multiples of 4099, powers of two +-2, 16M mixed values; thorough: every bit pattern except -2048.0). to_scaled: 5*10^7 (value, design size) pairs incl. an edge grid vs TeX 571 byte arithmetic and an i128 closed form. compress: random multisets (0-300 values, limit 1-255) and every subset of a 12-point universe x every limit: at most limit classes, intervals of the sorted values, midpoint representatives (rounded down), smallest feasible tolerance by brute force. next-larger: random functional graphs on <=256 characters and all graphs on 5 characters: finite chains following the links, one cut per cycle at its largest character, one warning per cycle.",
         "Trusted: models/tfm_arith.rs (calibrated on the crate's goldens and 1994 R values of 5 Computer Modern property lists), proptest. 'half the tolerance' is read on the fix_word grid (ceil(delta/2)), as the crate's golden lower_upper_close_edge_case_3 requires.",
         "DESIGN.md §4 C17"),
 "C09": ("totality fuzzing by generated token soups and snippet programs under catch_unwind with a semantic error-location oracle; exhaustive vocabulary pairs; saved crash inputs as a replay tier",
         "Random soups (0-40 elements) over every installed primitive, user macros, braces, #, numbers at and beyond every limit (register indices, character codes incl. surrogates, 2^31 boundaries), units, keywords, ^^ forms, non-ASCII text, file names incl. areas, ~100 snippet programs (the stdlib's own 50 error cases + a valid use of every primitive family), truncated at any byte, under all five interaction modes; every pair of vocabulary items exhaustively. Ok, or an error whose Display is non-empty and whose traces have line>=1 and column<=line length; any panic (todo!, unwrap, overflow, slice, shutdown protocol) is a violation.",
         "Trusted: catch_unwind with the harness panic hook, the harness state type (same components as StdLibState, in-memory file system, scripted terminal, expansion budget 3000), proptest. \\sleep is not installed; the \\tracingmacros hook's computations run into a counter instead of stdout; the wall-clock parameters are pinned; an argument-doubling macro (unbounded memory, no capacity limit in Texlang) is not generated.",
         "DESIGN.md §4 C09"),
 "C08": ("differential PBT: the same VM<StdLibState> continued without a checkpoint vs serialised+deserialised (JSON / MessagePack / bincode), plus the concatenated program in a fresh VM",
         "Random (P1,P2,format): P1 = prefix of a generated scoping history (open groups with saved values, registers, aliases, macros incl. active characters, catcode/mathcode, \\endlinechar, \\globaldefs) plus extras (\\newInt/\\newIntArray, parameter macros, fresh names, open \\openin streams, open conditionals of four kinds, \\let of primitives/characters, \\mathchardef, token lists with control sequences, active-character definitions); P2 observes all of it, continues the history, closes every group and conditional and reads every target. Token-exact output and error title of P2 must be identical with and without the checkpoint; (de)serialisation panics are violations.",
         "Trusted: serde_json / rmp-serde / bincode, the capture handlers, proptest. Quick tier: one format per case (rotating); thorough: all three per case. All four interaction modes are generated (recoverable errors are only raised in batch mode and in errorstop mode, where nothing is printed to the harness's stdout); the wall-clock parameters are pinned.",
         "DESIGN.md §4 C08"),
 "C05": ("PBT + exact small-scope termination: generated lig/kern programs and words, compiled program vs a direct TeX-main-loop interpreter (reference model), calibrated on the crate's unit-test tables, corpus loop verdicts and cmr10",
         "Random programs over 2-4 letter alphabets (all eight ligature forms, kerns, SKIP/STOP chains, shared chains, >255 instructions with redirected entry points, left-boundary label, right boundary char inside/outside the alphabet) handed over directly, through pl::File and through a TFM round trip; 5 words each, run() and run_with_options. compile reports a loop iff some pair diverges in the interpreter (decided exactly by a step bound on 2-3 letter alphabets, bounded otherwise, undecided skipped); loop-free: glyph/kern sequence and ligature originals equal, originals spell the word.",
         "Trusted: models/ligkern_interp.rs (TeX 1034-1040 transcription; reproduces 43+22+9 unit-test goldens, 91 corpus loop verdicts, 13 cmr10 facts), proptest.",
         "DESIGN.md §4 C05"),
 "C18": ("round-trip PBT on generated list trees + metamorphic formatter checks on restyled sources + grammar/mutation-based totality fuzzing with span validity, calibrated on the repo's .box goldens and documented meanings",
         "Random horizontal/vertical list trees (depth<=4, every expressible node kind, characters incl. escapes/astral/combining, values at the limits) printed through every public path and parsed back: equal list (library equality and a strict mirror comparison); restyled sources (comments, blank lines, reordered/positional arguments, sp units, \\u escapes): parse == tree, format idempotent, parse(format(s)) == parse(s); 50k random/mutated texts: Ok or non-empty errors with in-range char-boundary spans, format errs iff the CST has errors, never a panic.",
         "Trusted: the mirror tree type and its conversion, proptest. Glue-ratio sign/f32 precision are not part of the library's equality (by design) and are accepted; ratios >=16384 and dimensions >=16384pt have no spelling and are outside the quantifier (counted).",
         "DESIGN.md §4 C18"),
 "C19": ("PBT against a small reference TeX interpreter (line scanner + source stack + conditional skipping) for \\input/\\endinput; model-based PBT of \\openin/\\read/\\ifeof/\\closein scripts against TeX's read_toks; nesting-depth probes",
         "Random file trees (up to 8 files, 0-5 lines, with/without final newline, empty files, lines ending inside groups/conditionals, \\input and \\endinput anywhere in a line) run against an in-memory file system: output must equal the interpreter that treats files as lines standing in place; chains of 1..150 nested files (limit 100: identical below, located error above). Random stream scripts over files with balanced/unbalanced line groups and a scripted terminal: every macro body defined by \\read (captured unexpanded) and every \\ifeof must equal the model.",
         "Trusted: the 60-line scanner for the restricted character set, the interpreter, the read_toks model (tex.web 482-486), proptest. Inputs on which TeX itself errors are skipped and counted; \\input after \\endinput on one line is not generated.",
         "DESIGN.md §4 C19"),
 "C06": ("exhaustive enumeration + PBT against transcriptions of TeX's arithmetic: all scaled values (thorough) print/scan round trip; proptest-generated register programs vs scan_int/scan_dimen/scan_glue/arithmetic models",
         "Every scaled value with |s|<=2^30-1 (thorough; quick: |s|<=2^20, all multiples of 65537, powers of two +-2, 2M random): Display equals print_scaled, parse_no_units and parse_from_string invert it, <=5 digits and no shorter fraction scans back. Random programs of assignments, coercions, \\advance/\\multiply/\\divide over count/dimen/skip registers with constants in every radix/unit, 0-20 fraction digits, sign strings, internal quantities as values and units, fil/fill/filll: \\the output after every operation and presence of recoverable errors must equal the model.",
         "Trusted: models/tex_arith.rs (transcribed from tex.web 99-108, 440-461, 1236-1240; xn_over_d cross-checked against exact i128 arithmetic on every call), proptest. Operations whose operands make TeX itself undefined (negating -2^31) end the comparison of that program at that operation; recovery after a missing number is only required to report an error; the category codes of the tokens \\the produces are not demanded.",
         "DESIGN.md §4 C06"),
 "C13": ("PBT + exhaustive small scope against a naive Liang matcher (reference model), calibrated on the crate's goldens",
         "Random pattern sets (digits 0-9 anywhere, anchors, >16 and >32 letters), exception lists loaded before/after the patterns, words of length 1-40 in mixed case with custom lower-case maps; exhaustive pool pairs x all words of length<=6 over 3 letters; plain TeX patterns on pseudo-English words. calculate_indices must equal: exception positions if the lower-cased word is listed, otherwise odd maxima of all pattern matches, never position 0.",
         "Trusted: models/liang.rs (naive matcher written from TeX 919-931, reproduces the crate's 23 goldens), proptest. Words containing a non-letter: either TeX's reading (word ends there) or the unknown-character reading is accepted.",
         "DESIGN.md §4 C13"),
 "C15": ("PBT + exhaustive small scope against a reference hpack with exact rational glue ratios, calibrated on TeX-generated box goldens",
         "Random lists (chars, ligatures, kerns, rules incl. running dimensions, shifted nested boxes, penalties, discretionaries, glue of all four orders with positive/zero/negative/cancelling amounts) x targets natural, +-1sp, +-total, +-total+-1sp, random, Exact and Additional; every list of <=3 glue items over 4 amounts x 4 orders x excess -5..5 exhaustively. Width, height, depth, glue order and |ratio| (cross-multiplied in i128) must equal the model; fill identity natural+ratio*total==width.",
         "Trusted: models/hpack.rs (TeX 649-667 with per-order totals), proptest. Mark/insertion/adjust/math nodes are documented unimplemented (todo!()) and not generated; leader glue kinds and whatsits are generated.",
         "DESIGN.md §4 C15"),
 "C16": ("round-trip PBT + independent DVI codec (differential) + byte-level totality incl. exhaustive short strings + DVItype-style position tracker (reference model) for VarRemover",
         "Random op sequences (every variant, operands at every 1/2/3/4-byte boundary, strings of 0..255 UTF-8 bytes): deserialize(serialize(ops))==ops, all bytes consumed, and the bytes read by an independent codec written from the DVI command table give the same ops; boundary sweep +-130 around each boundary; 300k random/mutated byte strings and all strings of length<=2 (<=3 thorough): ops or documented error exactly as the independent decoder predicts, never a panic; VarRemover: same (page,h,v,font,char|rule) events and same other ops in order, no w/x/y/z op left, dvi::Values agrees with the tracker after every op.",
         "Trusted: models/dvi_track.rs (codec + tracker from TeX 585-591 / DVItype), proptest. post_post is written id-first by this crate (DVI: pointer first); the round trip holds for that layout, so the independent codec accepts it (observation in DESIGN.md). Positions are kept inside i32.",
         "DESIGN.md §4 C16"),
 "C02": ("PBT against a reference model: proptest-generated macro definitions and calls, captured one-step expansion compared with a transcription of TeX's macro_call",
         "Random parameter texts (prefix, up to 9 parameters, delimiters of 1-3 tokens drawn from the same alphabet as the arguments so partial matches occur, optional #{), replacement texts (literals, #n, ##, groups) and argument tuples of all stated shapes; the unexpanded tokens after exactly one expansion (braces and tail included) must equal the model's.",
         "Trusted: the transcription of TeX 389-399 on token lists (DESIGN.md A.2), the canonical renderer (control symbols only, no adjacent spaces) whose output re-lexes to the generated tokens, proptest. Calls TeX rejects are outside the quantifier (skipped, counted).",
         "DESIGN.md §4 C02"),
 "C07": ("PBT: conditional trees vs a tree evaluator; differential testing of the two \\expandafter implementations; one-step expansion model observed through a capture primitive",
         "Random well-nested conditional trees (depth 0..6, i32 operands incl. negatives and limits, junk and \\let-aliases in skipped text) must deliver exactly the tags of the selected path; random token streams must behave identically (tokens and error) under the optimised and simple \\expandafter; \\expandafter^k chains must equal a one-step expansion model; \\noexpand sequences deliver each protected macro unexpanded exactly once.",
         "Trusted: the conditional evaluator and one-step expansion model (small, from TeX 487-510, 366-368), proptest. \\expandafter applied to \\noexpand is only compared differentially.",
         "DESIGN.md §4 C07"),
 "C01": ("model-based PBT: proptest-generated group/assignment histories rendered as TeX programs, output compared with a stack-of-snapshots reference model",
         "Random histories (up to 250 operations, depth 0..8) of {, }, local / \\global / \\gdef / \\let / \\globaldefs-governed assignments to every target kind named in the property, with all targets read back after every group end; the token-exact output must equal the reference model's. Shrunk counterexamples are replayable JSON histories.",
         "Trusted: the 30-line snapshot model of TeX's scoping rules (DESIGN.md A.1), the rendering of histories to one-line programs, proptest. Generated search shows presence of violations, not absence.",
         "DESIGN.md §4 C01"),
 "C20": ("model-based PBT: exhaustive short histories + BFS over abstract states + proptest long histories vs stack-of-snapshots model; exhaustive KMP vs naive; interner under colliding hashers; multithreaded tag stress",
         "Every history of the 10-operation alphabet up to length 6 (quick) / 7 (thorough) is run against a stack-of-snapshots model with get/len/iter compared after every step, iter_all rebuilds compared and continued, and both unwound to depth 0; plus BFS over distinct abstract states and long random histories. Matcher: every pattern/text pair in the stated bounds. Interner: random op sequences under constant, 3-bucket and default hashers incl. serde round trips. Tags: randomized stress only (the harness does not own the scheduler).",
         "Trusted: the snapshot model (20 lines), the naive substring search, proptest. Tag uniqueness under all interleavings is NOT established, only stress-tested.",
         "DESIGN.md §4 C20"),
}

# additions of the strengthening round (DESIGN.md 9.9), appended to the level text
ADD = {
 "C01": " Round 9.9: arithmetic primitives with/without \\global, prefix chains, \\global\\chardef/\\mathchardef, code tables above 127, names undefined at group start, \\let to characters, aliases on active characters, implicit braces; sub-check scoping_stdlib runs the same oracle on the shipped StdLibState.",
 "C02": " Round 9.9: main-loop dispatch as well as \\expandafter, arguments spanning expansion stack and source text, digits, delimiters up to 7 tokens with self-overlap, 35 fixed TeXbook/def.rs vectors, two catcode regimes, second call in one VM, active and cat-3/4/6/8 characters.",
 "C03": " Round 9.9: vm_path (real lexer::Config implementations through \\catcode/\\endlinechar), long_inputs on an 8 MiB thread, tightened trace columns, repeated configuration switches.",
 "C04": " Round 9.9: decoy Params, accent/math kerns, list edges, negative/cancelling glue, 4-6 widths, second font, passes sub-check for the tex.web 863/873 pass sequence.",
 "C05": " Round 9.9: partial tables of looping programs, corpus_words over all corpus fonts, add_word node lists, instructions_for_entrypoint, long words, other design sizes, codes 0x00/0xFF, kern index >= 256.",
 "C06": " Round 9.9: print-then-rescan through the VM, per-operation error kinds, blanks/case/category codes in keywords and units, exhaustive arith_pairs over edge values, distinct em/ex, alphabetic constants, \\chardef-like internal integers, parse_from_string over all units.",
 "C07": " Round 9.9: operands ended by \\else/\\or/\\fi, spaces, text or macros; \\noexpand before unexpandable tokens; one-step model for conditional/\\the/parameter-macro targets; differential continued beyond recovered errors; macro-delivered conditional tokens; more junk kinds.",
 "C08": " Round 9.9: extras re-observed after all groups close, recorded errors in all interaction modes, fingerprint of every name after the round trip, a final error compared in full, wide index/value domains with a canonical register view, redefined built-in names, stream shapes, two checkpoints.",
 "C09": " Round 9.9: statement templates (soup_deep), repl_two_runs, configuration matrix (no working directory, stdin-like terminal at EOF, script::run_to_string, simple \\expandafter), per-title error counters, location check on recovered errors.",
 "C10": " Round 9.9: 250..256 VARCHAR characters, all 256 codes with >255 widths, lig tables at the cap, junk glued into tokens, every warning/error rendered as the binaries do, text-derived size bound on every output table, 8 MiB-stack nesting probes in child processes.",
 "C11": " Round 9.9: orphan lig tags, independent seven-bit-safe computation, header lengths 3..17, SLANT >= 16, long skips, padded header strings, raw_tfm sub-check.",
 "C12": " Round 9.9: reused preprocessor, blank runs/tabs/line ends, \\spaceskip shapes incl. overflow, final breakpoint, kern kinds, non-empty vertical lists, more node kinds, second font; four demands beyond the property relaxed.",
 "C13": " Round 9.9: the TeX primitives \\patterns/\\hyphenation (via the hook accessor), hypthenate() and aggregate scores on every case, wide alphabets, explicit 0 next to long zero runs, query-load-query, big_tables, plain_overlay, file syntax.",
 "C14": " Round 9.9: the implementation runs on every case (also TeX-anomaly words, now decided exactly), exact set of discretionary positions, first word of a list, eight more node kinds, exhaustive cmr10 pass over {f,i,l,a} words, counted node-for-node comparison with TeX's reconstitution.",
 "C15": " Round 9.9: signed fill identity also for overfull boxes, all six glue kinds, dims_small exhaustive sub-check, partial glyph metrics, dimensions up to 2^30, whatsits.",
 "C16": " Round 9.9: writer on reader-produced ops (over-long / non-UTF-8 strings), special positions, normalise pipeline on mutated streams, reader_forms, reader_prefixes, var_remover_overflow.",
 "C17": " Round 9.9: compress over the full i32 range and through the PL caller, long NEXTLARGER chains, Display of i32::MIN, PL writer path, CPU-time watchdog with an inconclusive outcome.",
 "C18": " Round 9.9: every parser-produced list reprinted and reparsed, full-range integers, 16 comment positions, independent dimension model for all units, explicit CST compared, scale_probes in child processes on 8 MiB threads.",
 "C19": " Round 9.9: lazy per-source scanner with category codes and groups, empty files, names ended by non-space tokens, blanks before names, macro-issued \\endinput, constructs spanning files, 16 streams, # and active targets in \\read, nested multi-line groups, 150 sequential inputs.",
 "C20": " Round 9.9: Nevec/Matcher accessors (nevec_model), map entry points and container serde, several static tags and a process-wide tag set, exhaustive interner enumeration under colliding hashers with serde rebuilds.",
}
NOT_YET = {}

def main():
    props = [json.loads(l) for l in open(os.path.join(HERE, "properties.jsonl"))]
    ids = [p["id"] for p in props]
    checks = []
    na = []
    for i in ids:
        if i in CHECKS:
            tech, text, note, ref = CHECKS[i]
            checks.append({
                "property_id": i,
                "quick_cmd": f"./check {i} --tier quick",
                "thorough_cmd": f"./check {i} --tier thorough",
                "evidence_file": f"/verif/evidence/{i}.json",
                "replay_cmd_template": f"./check {i} --replay {{path}}",
                "engine": "vp-harness",
                "level_claimed": {"category": "exploration", "text": text + ADD.get(i, ""), "design_ref": ref + " and 9.9"},
                "level_note": note,
                "technique": tech,
            })
        else:
            na.append({"property_id": i, "reason": NOT_YET.get(i, "check not built yet in this round (work in progress; the technique applies, see DESIGN.md §4)")})
    m = {
        "version": 1,
        "setup_cmd": "cd /verif/harness && CARGO_NET_OFFLINE=true cargo build --release --offline",
        "hooks": {
            "guard": "texcraft_verif",
            "enable": "harness/.cargo/config.toml sets build.rustflags to --cfg texcraft_verif, so the harness build (and only it) compiles /repo with the hook on; one hook: a read accessor HyphenationComponent::hyphenator() in texlang-texttransform, used by the C13 sub-check primitives",
            "baseline_off_cmd": "cd /repo && cargo test --workspace --no-fail-fast --offline",
            "source_commits": ["1951061e478d0b089a3827698b235207e9cd9bd7"],
            "add_only": True,
        },
        "engines": [{
            "name": "vp-harness",
            "path": "/verif/harness",
            "serves_properties": [c["property_id"] for c in checks],
            "kind_free_text": "Rust binary with path dependencies on /repo/crates/*: proptest 1.11 TestRunner (16 fixed workers, fixed seeds, shrinking, JSON replay files), deterministic exhaustive enumerators, reference models; cargo-fuzz targets under /verif/fuzz supplement the thorough tier",
        }],
        "checks": checks,
        "not_applicable": na,
        "notes": "All checks: exit 0 held / 1 VIOLATION line / 2 inconclusive. Known findings live in /verif/KNOWN_FINDINGS.txt. See DESIGN.md.",
    }
    out = os.path.join(HERE, "MANIFEST.json")
    json.dump(m, open(out, "w"), indent=1)
    try:
        import jsonschema
        jsonschema.validate(m, json.load(open("/root/.vp/MANIFEST.schema.json")))
        print("MANIFEST valid;", len(checks), "checks,", len(na), "not applicable")
    except ImportError:
        print("written (jsonschema not importable here)")

if __name__ == "__main__":
    main()
