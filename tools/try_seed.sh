#!/bin/bash
# tools/try_seed.sh <seed dir with patch.diff + demo.rs> <crate for the demo test> <property id> [more property ids]
# Applies the seeded patch to /repo, checks: repo suite green, demo fails; runs the quick checks (expect exit 1);
# reverts; checks the demo passes without the patch. Prints a summary line. Never leaves /repo dirty.
set -u
SD="$1"; CRATE="$2"; shift 2
# SEED_REPO / SEED_VERIF: run against a lane (git worktree of /repo + copy of /verif, see tools/seedlane.sh) instead of /repo and /verif
REPO="${SEED_REPO:-/repo}"; VERIF="${SEED_VERIF:-/verif}"
cd "$REPO" || exit 2
if [ -n "$(git status --porcelain --untracked-files=no)" ]; then echo "repo dirty, abort"; exit 2; fi
cleanup() { git -C "$REPO" checkout -q -- . ; rm -rf "$REPO"/crates/$CRATE/tests/seeded_demo.rs; rmdir "$REPO"/crates/$CRATE/tests 2>/dev/null; }
trap cleanup EXIT
git apply "$SD/patch.diff" || { echo "patch does not apply"; exit 2; }
cargo test --workspace --no-fail-fast --offline >${SEED_TMP:-/tmp}/seed_suite.log 2>&1 < /dev/null
SUITE_FAIL=$(grep -cE "^test .* FAILED$" ${SEED_TMP:-/tmp}/seed_suite.log)
grep -q "error: could not compile" ${SEED_TMP:-/tmp}/seed_suite.log && SUITE_FAIL=compile_error
mkdir -p crates/$CRATE/tests; cp "$SD/demo.rs" crates/$CRATE/tests/seeded_demo.rs
cargo test --offline -p $CRATE ${SEED_FEATURES:-} --test seeded_demo >${SEED_TMP:-/tmp}/seed_demo_with.log 2>&1 < /dev/null
DEMO_FAIL_WITH=$(grep -E "^test result" ${SEED_TMP:-/tmp}/seed_demo_with.log | head -1)
RESULTS=""
EVSAVE="$(mktemp -d)"; cp -a "$VERIF"/evidence/. "$EVSAVE"/   # seeded trials must not leave their evidence behind
for P in "$@"; do
  ( cd "$VERIF" && ./check $P --tier quick > ${SEED_TMP:-/tmp}/seed_check_$P.log 2>&1 ); RC=$?
  RESULTS="$RESULTS $P=exit$RC"
done
cp -a "$EVSAVE"/. "$VERIF"/evidence/; rm -rf "$EVSAVE"
git checkout -q -- .
mkdir -p crates/$CRATE/tests; cp "$SD/demo.rs" crates/$CRATE/tests/seeded_demo.rs
cargo test --offline -p $CRATE ${SEED_FEATURES:-} --test seeded_demo >${SEED_TMP:-/tmp}/seed_demo_without.log 2>&1 < /dev/null
DEMO_WITHOUT=$(grep -E "^test result" ${SEED_TMP:-/tmp}/seed_demo_without.log | head -1)
echo "SEED $(basename $(dirname $SD)) suite_failures_with_patch=$SUITE_FAIL demo_with_patch=[$DEMO_FAIL_WITH] demo_without_patch=[$DEMO_WITHOUT] checks:$RESULTS"
