#!/bin/bash
# tools/trymut.sh <file under repo> <line> <from> <to> <props...> : one-line mutation in the reseed lane, run quick checks
set -u
F="$1"; L="$2"; A="$3"; B="$4"; shift 4
LANE=/var/tmp/reseed; mkdir -p $LANE
rsync -a --delete --exclude target --exclude .git /repo/ $LANE/repo/
rsync -a --delete --exclude target --exclude .git --exclude evidence --exclude seeded /verif/ $LANE/verif/
mkdir -p $LANE/verif/evidence
sed -i "s#\"/repo/#\"$LANE/repo/#" $LANE/verif/harness/Cargo.toml
grep -rl '"/repo/' $LANE/verif/harness/src | xargs -r sed -i "s#\"/repo/#\"$LANE/repo/#g"
python3 - "$LANE/repo/$F" "$L" "$A" "$B" <<'PY'
import sys
p,l,a,b=sys.argv[1],int(sys.argv[2]),sys.argv[3],sys.argv[4]
lines=open(p).read().split('\n')
assert a in lines[l-1], (lines[l-1],a)
if a=='STMT': lines[l-1]='/* deleted */'
else: lines[l-1]=lines[l-1].replace(a,b,1)
open(p,'w').write('\n'.join(lines))
print("mutated:",lines[l-1].strip())
PY
for P in "$@"; do ( cd $LANE/verif && rm -f replays/C*.json && ./check $P --tier quick 2>&1 | grep -E "OK tier|FAILED|VIOLATION|inconclusive|error" | head -3 | cut -c1-220 ); done
