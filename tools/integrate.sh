#!/bin/bash
# tools/integrate.sh <ID> : adopt a helper delivery from /tmp/h2_<ID>/deliver
# 1. every repo_fixes/NN-*.patch is applied to /repo and committed with its .msg (tests are run by the caller afterwards)
# 2. changed harness sources, replays/{fixed,known}, seeds are copied into /verif
set -eu
ID="$1"; D=/tmp/h2_$ID/deliver
cd /repo
[ -z "$(git status --porcelain --untracked-files=no)" ] || { echo "repo dirty"; exit 2; }
if [ -d "$D/repo_fixes" ]; then
  for p in $(ls $D/repo_fixes/*.patch 2>/dev/null | sort); do
    m="${p%.patch}.msg"
    git apply --check "$p" || { echo "PATCH DOES NOT APPLY: $p"; exit 2; }
    git apply "$p"
    git add -u
    git commit -q -m "$(head -1 "$m")"
    echo "committed $(git log --oneline -1 | cut -c1-100)"
  done
fi
cd /verif
if [ -d "$D/src" ]; then
  (cd "$D/src" && find . -type f) | while read f; do
    if grep -q "/tmp/h2_" "$D/src/$f"; then echo "WARNING: $f still has /tmp/h2_ paths"; sed -i "s#/tmp/h2_$ID/repo/#/repo/#g" "$D/src/$f"; fi
    mkdir -p "harness/src/$(dirname $f)"; cp "$D/src/$f" "harness/src/$f"; echo "copied src/$f"
  done
fi
for sub in replays/fixed replays/known; do
  [ -d "$D/$sub" ] && cp -v "$D/$sub"/* "$sub"/ || true
done
[ -d "$D/seeds" ] && cp -rv "$D/seeds"/* seeds/ || true
[ -f "$D/texvm.diff" ] && echo "NOTE: texvm.diff present, merge by hand" || true
[ -f "$D/findings.txt" ] && { echo "--- findings.txt"; cat "$D/findings.txt"; } || true
