#!/bin/bash
# tools/seedlane.sh : (re)create a lane for try_seed.sh that leaves /repo and /verif untouched:
#   /var/tmp/seedlane/repo  = git worktree of /repo HEAD, /var/tmp/seedlane/verif = copy of /verif pointing at it.
# usage: tools/seedlane.sh ; SEED_REPO=/var/tmp/seedlane/repo SEED_VERIF=/var/tmp/seedlane/verif tools/try_seed.sh <dir> <crate> <props>
set -u
L=/var/tmp/seedlane
mkdir -p $L
if [ -d $L/repo ]; then git -C $L/repo checkout -q --detach "$(git -C /repo rev-parse HEAD)" ; else git -C /repo worktree add -q --detach $L/repo HEAD; fi
rsync -a --delete --exclude target --exclude .git --exclude seeded /verif/ $L/verif/
sed -i "s#\"/repo/#\"$L/repo/#" $L/verif/harness/Cargo.toml
grep -rl '"/repo/' $L/verif/harness/src | xargs -r sed -i "s#\"/repo/#\"$L/repo/#g"
echo "lane ready at $L (repo $(git -C $L/repo rev-parse --short HEAD))"
