#!/usr/bin/env python3
"""Mutation sweep: a systematic sensitivity measurement for the checks in /verif.

For each sampled mutant of a source file the properties are anchored in:
  1. apply it in a private copy of /repo (a "lane"),
  2. run the tests of the mutated crate and of the crates that exercise it; a mutant that does not
     compile or that the repository's own tests reject is of no interest (status no_compile / killed_by_suite),
  3. otherwise run the quick tier of the mapped properties from a private copy of /verif whose harness
     points at the lane's repo: exit 1 = caught, exit 0 = survived, anything else = inconclusive,
  4. restore the file.
Survivors are either equivalent mutants (behaviour unchanged, or changed outside every property) or blind
spots; they are triaged by hand and the outcome is recorded in DESIGN.md 9.9.

Nothing here touches /repo or /verif themselves; lanes live under --work (default /var/tmp/mutsweep) and are
removed with --clean. Results: one JSON line per mutant in --out.

usage: mutsweep.py --lanes 4 --per-target 12 --seed 1 --out /var/tmp/mutsweep/results.jsonl [--only C05,C11]
"""
import argparse, glob, json, os, random, re, shutil, subprocess, sys, threading, time, queue

TARGETS = [
    # (glob below /repo, crates whose tests decide "passes the existing tests", properties to run)
    ("crates/texlang/src/variable.rs", ["texlang", "texlang-stdlib"], ["C01", "C08"]),
    ("crates/texlang/src/command/map.rs", ["texlang", "texlang-stdlib"], ["C01", "C08", "C07"]),
    ("crates/texlang-stdlib/src/prefix.rs", ["texlang-stdlib"], ["C01"]),
    ("crates/texlang-stdlib/src/def.rs", ["texlang-stdlib"], ["C02", "C01"]),
    ("crates/texlang/src/texmacro.rs", ["texlang", "texlang-stdlib"], ["C02"]),
    ("crates/texlang/src/token/lexer.rs", ["texlang", "texlang-stdlib"], ["C03", "C19"]),
    ("crates/texlang/src/parse/integer.rs", ["texlang", "texlang-stdlib"], ["C06", "C07"]),
    ("crates/texlang/src/parse/dimen.rs", ["texlang", "texlang-stdlib"], ["C06"]),
    ("crates/texlang/src/parse/glue.rs", ["texlang", "texlang-stdlib"], ["C06"]),
    ("crates/common/src/lib.rs", ["common", "texlang", "texlang-stdlib", "boxworks"], ["C06", "C15", "C12"]),
    ("crates/texlang-stdlib/src/math.rs", ["texlang-stdlib"], ["C06", "C09"]),
    ("crates/texlang-stdlib/src/the.rs", ["texlang-stdlib"], ["C06"]),
    ("crates/texlang-stdlib/src/conditional.rs", ["texlang-stdlib"], ["C07"]),
    ("crates/texlang-stdlib/src/expansion.rs", ["texlang-stdlib"], ["C07"]),
    ("crates/texlang/src/vm/serde.rs", ["texlang", "texlang-stdlib"], ["C08"]),
    ("crates/texlang/src/vm/streams.rs", ["texlang", "texlang-stdlib"], ["C19", "C07", "C02", "C01"]),
    ("crates/texlang/src/vm/mod.rs", ["texlang", "texlang-stdlib"], ["C19", "C08", "C09", "C01"]),
    ("crates/texlang-stdlib/src/input.rs", ["texlang-stdlib"], ["C19"]),
    ("crates/texlang-stdlib/src/endlinechar.rs", ["texlang-stdlib"], ["C03", "C01"]),
    ("crates/texlang-stdlib/src/registers.rs", ["texlang-stdlib"], ["C01", "C09"]),
    ("crates/boxworks-knuthplass/src/lib.rs", ["boxworks-knuthplass", "boxworks-bin"], ["C04", "C12"]),
    ("crates/boxworks-text/src/lib.rs", ["boxworks-text", "boxworks-bin"], ["C12"]),
    ("crates/boxworks/src/ds.rs", ["boxworks", "boxworks-bin", "boxworks-knuthplass"], ["C15", "C12", "C18", "C14"]),
    ("crates/boxworks/src/lang/*.rs", ["boxworks", "boxworks-bin"], ["C18"]),
    ("crates/tfm/src/ligkern/compiler.rs", ["tfm", "tfm-bin"], ["C05", "C11"]),
    ("crates/tfm/src/ligkern/mod.rs", ["tfm", "tfm-bin"], ["C05", "C11"]),
    ("crates/tfm/src/ligkern/lang.rs", ["tfm", "tfm-bin"], ["C05", "C11", "C10"]),
    ("crates/tfm/src/format/*.rs", ["tfm", "tfm-bin"], ["C10", "C11", "C17"]),
    ("crates/tfm/src/pl/*.rs", ["tfm", "tfm-bin"], ["C10", "C11", "C17"]),
    ("crates/tfm/src/lib.rs", ["tfm", "tfm-bin"], ["C17", "C10", "C11"]),
    ("crates/hyphenate/src/lib.rs", ["hyphenate", "boxworks-hyphenate"], ["C13"]),
    ("crates/boxworks-hyphenate/src/lib.rs", ["boxworks-hyphenate", "boxworks-bin"], ["C14"]),
    ("crates/dvi/src/*.rs", ["dvi"], ["C16"]),
    ("crates/texcraft-stdext/src/collections/groupingmap.rs", ["texcraft-stdext", "texlang"], ["C20", "C01"]),
    ("crates/texcraft-stdext/src/collections/interner.rs", ["texcraft-stdext", "texlang"], ["C20"]),
    ("crates/texcraft-stdext/src/algorithms/substringsearch.rs", ["texcraft-stdext", "texlang"], ["C20", "C02"]),
]

REL = [(" < ", " <= "), (" <= ", " < "), (" > ", " >= "), (" >= ", " > "), (" == ", " != "), (" != ", " == ")]
ARITH = [(" + 1", ""), (" - 1", ""), (" + ", " - "), (" - ", " + "), (" * ", " + "), (" / ", " * "), ("+= ", "-= "), ("-= ", "+= ")]
BOOL = [(" && ", " || "), (" || ", " && "), ("true", "false"), ("false", "true"), ("continue;", "break;"), ("break;", "continue;"),
        (".min(", ".max("), (".max(", ".min("), ("Some(", "None.or(Some("), (".is_some()", ".is_none()"), (".is_none()", ".is_some()"),
        (".is_empty()", ".is_empty() == false"), ("saturating_", "wrapping_"), ("wrapping_", "saturating_")]

SKIP_LINE = re.compile(r"^\s*(//|#\[|#!\[|use |pub use |mod |pub mod |\*|/\*)|assert|panic!|unreachable|todo!|unimplemented|expect\(|debug_|println|eprintln|write!|format!|\"")


def candidate_sites(path):
    with open(path) as f:
        lines = f.read().split("\n")
    sites = []
    in_tests = False
    for i, line in enumerate(lines):
        if "#[cfg(test)]" in line:
            in_tests = True
        if in_tests:
            continue
        if SKIP_LINE.search(line):
            continue
        code = line.split("//")[0]
        for ops, kind in ((REL, "rel"), (ARITH, "arith"), (BOOL, "bool")):
            for a, b in ops:
                start = 0
                while True:
                    k = code.find(a, start)
                    if k < 0:
                        break
                    if a in ("true", "false") and (code[k - 1:k].isalnum() or code[k + len(a):k + len(a) + 1].isalnum() or code[k - 1:k] == "_"):
                        start = k + 1
                        continue
                    if a in (" < ", " > ") and ("fn " in code or "impl" in code or "->" in code or "::<" in code):
                        start = k + 1
                        continue
                    sites.append((i, k, a, b, kind))
                    start = k + 1
        # small integer literal +1
        for m in re.finditer(r"(?<![\w.\"'])(\d{1,3})(?![\w.\"'])", code):
            if "[" in code and "]" in code and ";" in code and "=" not in code:
                continue
            v = int(m.group(1))
            sites.append((i, m.start(), m.group(1), str(v + 1), "const"))
        # statement deletion
        s = code.strip()
        if s.endswith(";") and not s.startswith(("let ", "return", "pub ", "const ", "static ", "type ", "}", "use ")) and (
            re.match(r"^[\w.\[\]\*&]+(\s*[-+*/|&]?=\s).*;$", s) or re.match(r"^[\w.:]+(\(.*\))+;$", s)
        ):
            sites.append((i, len(line) - len(line.lstrip()), "STMT", "", "delete"))
    return lines, sites


def mutate(lines, site):
    i, k, a, b, kind = site
    out = list(lines)
    if kind == "delete":
        out[i] = lines[i][:k] + "/* deleted */"
    else:
        out[i] = lines[i][:k] + b + lines[i][k + len(a):]
    return "\n".join(out)


def sh(cmd, cwd, timeout, env=None):
    e = dict(os.environ)
    e["CARGO_NET_OFFLINE"] = "true"
    if env:
        e.update(env)
    # own process group, so that a timeout also ends the test binaries the shell started (a mutant that makes a
    # test spin would otherwise leave a process burning CPU for the rest of the sweep)
    import signal
    p = subprocess.Popen(cmd, cwd=cwd, shell=True, stdout=subprocess.PIPE, stderr=subprocess.STDOUT, env=e, stdin=subprocess.DEVNULL, start_new_session=True)
    try:
        out, _ = p.communicate(timeout=timeout)
        return p.returncode, out.decode("utf-8", "replace")
    except subprocess.TimeoutExpired:
        try:
            os.killpg(p.pid, signal.SIGKILL)
        except ProcessLookupError:
            pass
        out, _ = p.communicate()
        return 124, (out or b"").decode("utf-8", "replace") + "\nTIMEOUT"


def setup_lane(work, k):
    lane = os.path.join(work, f"lane{k}")
    if os.path.exists(lane):
        return lane
    os.makedirs(lane)
    sh(f"rsync -a --exclude target --exclude .git /repo/ {lane}/repo/", "/", 600)
    sh(f"rsync -a --exclude target --exclude .git --exclude evidence --exclude replays/C* --exclude seeded /verif/ {lane}/verif/", "/", 600)
    os.makedirs(f"{lane}/verif/evidence", exist_ok=True)
    cargo = open(f"{lane}/verif/harness/Cargo.toml").read().replace('"/repo/', f'"{lane}/repo/')
    open(f"{lane}/verif/harness/Cargo.toml", "w").write(cargo)
    return lane


def worker(k, work, jobs, out_lock, out_path, jobs_per_lane):
    lane = setup_lane(work, k)
    while True:
        try:
            job = jobs.get_nowait()
        except queue.Empty:
            return
        rel, crates, props, site, desc = job
        path = os.path.join(lane, "repo", rel)
        with open(path) as f:
            original = f.read()
        lines = original.split("\n")
        rec = {"file": rel, "line": site[0] + 1, "kind": site[4], "from": site[2], "to": site[3], "text": lines[site[0]].strip()[:160], "props": props}
        t0 = time.time()
        try:
            open(path, "w").write(mutate(lines, site))
            pk = " ".join(f"-p {c}" for c in crates)
            rc, log = sh(f"cargo test --offline {pk} --no-fail-fast -j {jobs_per_lane} 2>&1 | tail -400", f"{lane}/repo", 1500)
            if "error: could not compile" in log or "error[E" in log:
                rec["status"] = "no_compile"
            elif rc == 124:
                rec["status"] = "suite_timeout"
            elif re.search(r"^test result: FAILED", log, re.M) or re.search(r"^test .* FAILED$", log, re.M) or "error: test failed" in log or "error: " in log and "test result" not in log:
                rec["status"] = "killed_by_suite"
            else:
                results = {}
                for p in props:
                    rc, log = sh(f"CARGO_BUILD_JOBS={jobs_per_lane} ./check {p} --tier quick 2>&1 | tail -30", f"{lane}/verif", 1200)
                    # `| tail` hides the exit code; recover it from the output
                    if "VIOLATION property=" in log:
                        results[p] = "caught"
                        m = re.search(r"^(C\d\d:\S+ FAILED: .*)$", log, re.M)
                        rec.setdefault("how", {})[p] = (m.group(1) if m else "")[:200]
                        break
                    elif re.search(rf"^{p} OK tier=quick", log, re.M):
                        results[p] = "survived"
                    else:
                        results[p] = "inconclusive"
                        rec.setdefault("how", {})[p] = log[-300:]
                rec["results"] = results
                vals = set(results.values())
                rec["status"] = "caught" if "caught" in vals else ("inconclusive" if "inconclusive" in vals else "survived")
        finally:
            open(path, "w").write(original)
            sh("rm -f replays/C*.json", f"{lane}/verif", 60)
        rec["secs"] = round(time.time() - t0, 1)
        with out_lock:
            with open(out_path, "a") as f:
                f.write(json.dumps(rec) + "\n")
            print(f"[lane{k}] {rec['status']:16} {rel}:{rec['line']} {rec['kind']} {rec['from']!r}->{rec['to']!r}  {rec.get('results','')}", flush=True)


def main():
    ap = argparse.ArgumentParser()
    ap.add_argument("--lanes", type=int, default=4)
    ap.add_argument("--per-target", type=int, default=10)
    ap.add_argument("--seed", type=int, default=1)
    ap.add_argument("--work", default="/var/tmp/mutsweep")
    ap.add_argument("--out", default="/var/tmp/mutsweep/results.jsonl")
    ap.add_argument("--only", default="")
    ap.add_argument("--clean", action="store_true")
    a = ap.parse_args()
    if a.clean:
        shutil.rmtree(a.work, ignore_errors=True)
        return
    os.makedirs(a.work, exist_ok=True)
    rng = random.Random(a.seed)
    only = set(x for x in a.only.split(",") if x)
    done = set()
    if os.path.exists(a.out):
        for l in open(a.out):
            r = json.loads(l)
            done.add((r["file"], r["line"], r["from"], r["to"]))
    jobs = queue.Queue()
    alljobs = []
    for pat, crates, props in TARGETS:
        if only and not (only & set(props)):
            continue
        files = sorted(glob.glob(os.path.join("/repo", pat)))
        sites = []
        for fp in files:
            lines, ss = candidate_sites(fp)
            rel = os.path.relpath(fp, "/repo")
            sites += [(rel, s) for s in ss]
        rng.shuffle(sites)
        # balance the operator kinds
        bykind = {}
        for rel, s in sites:
            bykind.setdefault(s[4], []).append((rel, s))
        picked = []
        kinds = sorted(bykind)
        while len(picked) < a.per_target and any(bykind.values()):
            for kd in kinds:
                if bykind[kd] and len(picked) < a.per_target:
                    picked.append(bykind[kd].pop())
        for rel, s in picked:
            if (rel, s[0] + 1, s[2], s[3]) in done:
                continue
            alljobs.append((rel, crates, props, s, ""))
    rng.shuffle(alljobs)
    for j in alljobs:
        jobs.put(j)
    print(f"{len(alljobs)} mutants queued, {a.lanes} lanes", flush=True)
    lock = threading.Lock()
    per_lane = max(2, 16 // a.lanes)
    ts = [threading.Thread(target=worker, args=(k, a.work, jobs, lock, a.out, per_lane)) for k in range(a.lanes)]
    for t in ts:
        t.start()
    for t in ts:
        t.join()


if __name__ == "__main__":
    main()
